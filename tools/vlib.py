"""Shared machinery for the Layout21 checks: building the Coq project and the Rust
harness, running cases through both, evaluating model/spec inside Coq (vm_compute),
known findings, evidence, and the VIOLATION protocol. See DESIGN.md section 2."""
import fcntl, hashlib, json, os, random, re, subprocess, sys, time, shutil
from concurrent.futures import ThreadPoolExecutor

VERIF = os.path.dirname(os.path.dirname(os.path.abspath(__file__)))
WORK = os.path.join(VERIF, "work")
# The checks registered in MANIFEST.json always run against /repo. For experiments with seeded changes the same
# machinery can be pointed at a scratch worktree with VERIF_REPO=<dir>: everything that is derived from the
# repository (harness build, generated Coq files, Coq build tree, evidence, replay files) then lives under
# work/alt/<tag>/ and nothing belonging to the /repo runs is touched.
REPO = os.path.abspath(os.environ.get("VERIF_REPO", "/repo"))
ALT = REPO != "/repo"
if ALT:
    ALTDIR = os.path.join(WORK, "alt", hashlib.sha1(REPO.encode()).hexdigest()[:10])
    COQ = os.path.join(ALTDIR, "coq")
    HARNESS_SRC = os.path.join(ALTDIR, "harness")
    TARGET = os.path.join(ALTDIR, "target")
    EVIDENCE_DIR = os.path.join(ALTDIR, "evidence")
    GEN_WORK = os.path.join(ALTDIR, "gen")
else:
    ALTDIR = WORK
    COQ = os.path.join(VERIF, "coq")
    HARNESS_SRC = os.path.join(VERIF, "harness")
    TARGET = os.path.join(WORK, "target")
    EVIDENCE_DIR = os.path.join(VERIF, "evidence")
    GEN_WORK = os.path.join(WORK, "gen")
HARNESS_DIR = os.path.join(TARGET, "debug")
# exported so that translators (separate processes) write to the right tree
os.environ["VERIF_REPO"] = REPO
os.environ["VERIF_COQ_DIR"] = COQ
os.environ["VERIF_GEN_WORK"] = GEN_WORK

def prepare_alt():
    """Copies the Coq tree (with compiled files, so the build is incremental) and the harness crate for an alternate repository."""
    if not ALT:
        return
    os.makedirs(ALTDIR, exist_ok=True)
    with Lock("coq"):
        sh(["rsync", "-a", "--delete", os.path.join(VERIF, "coq") + "/", COQ + "/"], timeout=600)
    sh(["rsync", "-a", "--delete", "--exclude", "target", os.path.join(VERIF, "harness") + "/", HARNESS_SRC + "/"], timeout=600)
    for fn in ("Cargo.toml",):
        fp = os.path.join(HARNESS_SRC, fn)
        txt = open(fp).read().replace('path = "/repo/', 'path = "%s/' % REPO)
        open(fp, "w").write(txt)
    cfg = os.path.join(HARNESS_SRC, ".cargo", "config.toml")
    if os.path.exists(cfg):
        open(cfg, "w").write('[net]\noffline = true\n[build]\ntarget-dir = "%s"\n' % TARGET)
GUARD = "layout21_verif"
NCPU = os.cpu_count() or 4

ALLOWED_AXIOMS = {
    # standard-library axioms that may appear (named in DESIGN.md section 3)
    "Classical_Prop.classic", "ClassicalDedekindReals.sig_forall_dec", "ClassicalDedekindReals.sig_not_dec",
    "FunctionalExtensionality.functional_extensionality_dep", "ProofIrrelevance.proof_irrelevance",
    "Eqdep.Eq_rect_eq.eq_rect_eq", "JMeq.JMeq_eq",
}

def log(*a):
    print(*a, file=sys.stderr, flush=True)

def _raise_stack_limit():
    """child-side: lift the soft stack limit to the hard one (coqc is native code and evaluates deeply nested terms -- a rendered
    LEF text of a few hundred kilobytes as a list of bytes -- on the system stack: `Error: Stack overflow` at 8 MB)"""
    try:
        import resource
        soft, hard = resource.getrlimit(resource.RLIMIT_STACK)
        if soft != hard:
            resource.setrlimit(resource.RLIMIT_STACK, (hard, hard))
    except Exception:
        pass

def sh(cmd, timeout=1200, cwd=None, env=None, inp=None):
    e = dict(os.environ)
    e["CARGO_NET_OFFLINE"] = "true"
    if env:
        e.update(env)
    try:
        p = subprocess.run(cmd, shell=isinstance(cmd, str), cwd=cwd, env=e, input=inp, preexec_fn=_raise_stack_limit,
                           stdout=subprocess.PIPE, stderr=subprocess.STDOUT, timeout=timeout, text=True, errors="replace")
        return p.returncode, p.stdout
    except subprocess.TimeoutExpired as ex:
        out = ex.stdout or ""
        if isinstance(out, bytes):
            out = out.decode("utf8", "replace")
        return 124, out + "\n[timeout after %ss]" % timeout

class Lock:
    def __init__(self, name):
        os.makedirs(WORK, exist_ok=True)
        self.path = os.path.join(WORK, name + ".lock")
    def __enter__(self):
        self.f = open(self.path, "w")
        fcntl.flock(self.f, fcntl.LOCK_EX)
        return self
    def __exit__(self, *a):
        fcntl.flock(self.f, fcntl.LOCK_UN)
        self.f.close()

# ---------------------------------------------------------------- Coq build
# which translators regenerate files that a property's Coq development depends on
TRANSLATORS_FOR = {
    "C18": ["translate_serde_shapes.py"], "C20": ["translate_hash_iter.py"],
    "C12": ["translate_libm.py", "translate_rust_kernels.py"], "C06": ["translate_libm.py", "translate_rust_kernels.py"], "C07": ["translate_libm.py", "translate_rust_kernels.py"],
    "C13": ["translate_rust_kernels.py"], "C15": ["translate_rust_kernels.py"],
    "C04": ["translate_unicode.py", "translate_lef_keys.py"], "C05": ["translate_unicode.py", "translate_lef_keys.py"],
    "C11": ["translate_unicode.py", "translate_lef_keys.py"],
    "C01": ["translate_gds_tables.py"], "C02": ["translate_gds_tables.py"], "C03": ["translate_gds_tables.py"], "C10": ["translate_gds_tables.py"],
}

def run_translators(pid=None):
    """Regenerate coq/Gen/*.v from the repository sources: the translators a property depends on (all of them when
    pid is None, as in setup). Output files are only rewritten when their content changes."""
    msgs = []
    ok = True
    tdir = os.path.join(VERIF, "tools")
    wanted = None if pid is None else TRANSLATORS_FOR.get(pid, [])
    for fn in sorted(os.listdir(tdir)):
        if fn.startswith("translate_") and fn.endswith(".py") and (wanted is None or fn in wanted):
            rc, out = sh([sys.executable, os.path.join(tdir, fn)], timeout=300)
            if rc != 0:
                ok = False
            msgs.append("%s: rc=%d %s" % (fn, rc, out.strip()[-2000:]))
    return ok, "\n".join(msgs)

def coq_make(targets, timeout=3000):
    """make the given .vo targets (paths relative to coq/). Returns (ok, log)."""
    with Lock("coq" if not ALT else "coq-" + os.path.basename(ALTDIR)):
        rc, out = sh("./mk.sh", cwd=COQ, timeout=120)
        if rc != 0:
            return False, out
        rc, out = sh(["make", "-j%d" % NCPU, "-k"] + list(targets), cwd=COQ, timeout=timeout)
        return rc == 0, out

def static_gate(files):
    """Forbidden constructs in the Coq development (whole tree is scanned, not only `files`)."""
    bad = []
    pat = re.compile(r"\b(Admitted|admit|Axiom|Axioms|Parameter|Parameters|Conjecture|Admit Obligations|Unset Guard Checking|bypass_check|Unset Positivity Checking|Unset Universe Checking|type-in-type|impredicative-set)\b")
    for root, _, fs in os.walk(COQ):
        for f in fs:
            if not f.endswith(".v"):
                continue
            p = os.path.join(root, f)
            txt = open(p, encoding="utf8", errors="replace").read()
            txt_nc = strip_coq_comments(txt)
            for m in pat.finditer(txt_nc):
                bad.append("%s: %s" % (os.path.relpath(p, COQ), m.group(0)))
            # Variable/Hypothesis outside a section
            depth = 0
            for line in txt_nc.splitlines():
                s = line.strip()
                if re.match(r"Section\s+\w+", s):
                    depth += 1
                elif re.match(r"End\s+\w+", s) and depth > 0:
                    depth -= 1
                elif depth == 0 and re.match(r"(Variable|Variables|Hypothesis|Hypotheses|Context)\b", s):
                    bad.append("%s: %s outside section" % (os.path.relpath(p, COQ), s.split()[0]))
    return bad

def strip_coq_comments(txt):
    out = []
    i = 0
    depth = 0
    n = len(txt)
    instr = False
    while i < n:
        if depth == 0 and txt[i] == '"':
            instr = not instr
            out.append(txt[i]); i += 1; continue
        if not instr and txt.startswith("(*", i):
            depth += 1; i += 2; continue
        if not instr and depth > 0 and txt.startswith("*)", i):
            depth -= 1; i += 2; continue
        if depth == 0:
            out.append(txt[i])
        elif txt[i] == "\n":
            out.append("\n")
        i += 1
    return "".join(out)

def theorem_names(vfile):
    txt = strip_coq_comments(open(vfile, encoding="utf8").read())
    return re.findall(r"^\s*(?:Theorem|Lemma|Corollary)\s+([A-Za-z0-9_']+)", txt, re.M)

def count_qed(files):
    n = 0
    for p in files:
        if os.path.exists(p):
            txt = strip_coq_comments(open(p, encoding="utf8").read())
            n += len(re.findall(r"\b(Qed|Defined)\s*\.", txt))
    return n

def print_assumptions(prop_module, names, rundir):
    """Returns dict name -> list of axioms ([] = closed), or None on failure.
    The answer is a function of the compiled module (a .vo records the digests of everything it depends on), so it is
    cached under work/ keyed by the SHA-1 of that .vo and the list of names: a run that rebuilt nothing re-uses it."""
    vo = os.path.join(COQ, *prop_module.split(".")) + ".vo"
    key = None
    cache_file = os.path.join(ALTDIR, "pa_cache.json")
    try:
        h = hashlib.sha1(open(vo, "rb").read()).hexdigest()
        key = "%s:%s:%s" % (prop_module, h, hashlib.sha1(" ".join(names).encode()).hexdigest()[:12])
        with Lock("pa_cache"):
            cache = json.load(open(cache_file)) if os.path.exists(cache_file) else {}
        if key in cache:
            return cache[key], "(cached for %s)" % key
    except (OSError, ValueError):
        key = None
    res, out = _print_assumptions(prop_module, names, rundir)
    if res is not None and key:
        try:
            with Lock("pa_cache"):
                cache = json.load(open(cache_file)) if os.path.exists(cache_file) else {}
                cache = {k: v for k, v in cache.items() if not k.startswith(prop_module + ":")}     # one entry per module
                cache[key] = res
                json.dump(cache, open(cache_file, "w"))
        except (OSError, ValueError):
            pass
    return res, out

def _print_assumptions(prop_module, names, rundir):
    os.makedirs(rundir, exist_ok=True)
    f = os.path.join(rundir, "assum_%s.v" % prop_module.replace(".", "_"))
    with open(f, "w") as fh:
        fh.write("From L21 Require Import %s.\n" % prop_module)
        for n in names:
            fh.write('Goal True. idtac "@@BEGIN %s". Abort.\nPrint Assumptions %s.\n' % (n, n))
        fh.write('Goal True. idtac "@@END". Abort.\n')
    rc, out = sh(["coqc", "-noglob", "-Q", COQ, "L21", f], timeout=600, cwd=rundir)
    if rc != 0:
        return None, out
    res = {}
    cur = None
    for line in out.splitlines():
        m = re.match(r"@@BEGIN (\S+)", line.strip())
        if m:
            cur = m.group(1); res[cur] = []; continue
        if line.strip().startswith("@@END"):
            cur = None; continue
        if cur is None:
            continue
        s = line.strip()
        if not s or s.startswith("Closed under the global context") or s.startswith("Axioms:"):
            continue
        if line.startswith(" "):
            continue                                   # continuation of the previous axiom's type
        m = re.match(r"([A-Za-z0-9_.']+)\s*(:|$)", s)   # `name : type` or the name alone (its type follows on the next lines)
        if m:
            res[cur].append(m.group(1))
    return res, out

def coqchk(prop_module, timeout=3000):
    """Runs the independent checker on a compiled property module (thorough tier). Returns (ok, axioms, output):
    ok is False when coqchk fails or reports type-in-type, unsafe (co)fixpoints or assumed positivity."""
    cmd = ["coqchk", "-silent", "-o", "-Q", COQ, "L21", "L21." + prop_module]
    rc, out = sh(cmd, timeout=timeout, cwd=WORK)
    if rc != 0 and not out.strip():
        # died without a word (killed under memory pressure, or a .vo was being rewritten by a concurrent build): once more
        time.sleep(20)
        with Lock("coq" if not ALT else "coq-" + os.path.basename(ALTDIR)):
            rc, out = sh(cmd, timeout=timeout, cwd=WORK)
    if rc != 0:
        return False, [], "coqchk exit status %s\n%s" % (rc, out)
    sect = {}
    cur = None
    for line in out.splitlines():
        m = re.match(r"\* ([^:]+):\s*(.*)$", line.strip())
        if m:
            cur = m.group(1).strip()
            sect[cur] = [m.group(2).strip()] if m.group(2).strip() else []
        elif cur and line.strip():
            sect[cur].append(line.strip())
    def items(k):
        return [x for x in sect.get(k, []) if x and x != "<none>"]
    ok = not items("Constants/Inductives relying on type-in-type") and not items("Constants/Inductives relying on unsafe (co)fixpoints") \
        and not items("Inductives whose positivity is assumed") and "Axioms" in sect
    return ok, items("Axioms"), out

# ---------------------------------------------------------------- harness
def build_harness(bins, timeout=1800):
    """Builds the harness binaries `bins` (e.g. ["c15"]) against /repo's working tree, hooks enabled."""
    with Lock("cargo"):
        cmd = ["cargo", "build", "--offline"]
        for b in bins:
            cmd += ["--bin", b]
        rc, out = sh(cmd, cwd=HARNESS_SRC,
                     env={"RUSTFLAGS": "--cfg %s" % GUARD, "CARGO_TARGET_DIR": TARGET}, timeout=timeout)
        return rc == 0, out

def harness(subcmd, cases, timeout=1200, chunk=None, stall=60):
    """Run cases (list of JSON-able) through the harness. Returns list of results (dicts).
    A crash of the harness process itself (abort, stack overflow) is reported for the case
    at which output stopped as {"crash": rc}; remaining cases are re-run in a new process.
    A HANG (dead-lock, endless loop) is seen by a watchdog: when the process prints no result for `stall`
    seconds (10 s once one hang has been seen in this call) it is killed and the case it was working on is
    reported as {"crash": "hang"}; after 20 hangs the remaining cases are not run ({"crash": "not-run-after-20-hangs"}).
    `timeout` bounds one process as a whole."""
    import threading, queue
    results = []
    i = 0
    n = len(cases)
    hangs = 0
    while i < n:
        if hangs >= 20:
            results.extend({"crash": "not-run-after-20-hangs"} for _ in range(n - i))
            break
        batch = cases[i:] if chunk is None else cases[i:i + chunk]
        inp = "".join(json.dumps(c) + "\n" for c in batch)
        p = subprocess.Popen([os.path.join(HARNESS_DIR, subcmd)], stdin=subprocess.PIPE, stdout=subprocess.PIPE,
                             stderr=subprocess.DEVNULL, text=True, errors="replace")
        q = queue.Queue()
        def feed(p=p, inp=inp):
            try:
                p.stdin.write(inp)
                p.stdin.close()
            except Exception:
                pass
        def read(p=p, q=q):
            try:
                for l in p.stdout:
                    q.put(l)
            except Exception:
                pass
            q.put(None)
        threading.Thread(target=feed, daemon=True).start()
        threading.Thread(target=read, daemon=True).start()
        got = []
        rc = None
        t_end = time.time() + timeout
        cur_stall = stall if hangs == 0 else min(stall, 10)
        while True:
            try:
                l = q.get(timeout=max(0.1, min(cur_stall, t_end - time.time())))
            except queue.Empty:
                rc = "hang" if time.time() < t_end else "timeout"
                p.kill()
                break
            if l is None:
                break
            if l.startswith("@@"):
                try:
                    got.append(json.loads(l[2:]))
                except Exception:
                    break           # torn last line of a dying process
                if len(got) >= len(batch):
                    break
        try:
            p.wait(timeout=10)
        except Exception:
            p.kill()
        if rc is None:
            rc = p.returncode
        results.extend(got)
        i += len(got)
        if len(got) < len(batch):
            # the process died or hung on case i
            results.append({"crash": rc})
            if rc in ("hang", "timeout"):
                hangs += 1
            i += 1
    return results

# ---------------------------------------------------------------- Coq terms
class Raw(str):
    """A Coq term given verbatim."""

def cz(n):
    return Raw("(%d)%%Z" % n)
def cn(n):
    return Raw("%d%%N" % n)
def cnat(n):
    return Raw("%d%%nat" % n)
def cbool(b):
    return Raw("true" if b else "false")
def cstr(s):
    """Coq string literal of a str whose characters are all printable ASCII or newline/tab-free bytes."""
    return Raw('"' + s.replace('"', '""') + '"%string')
def chex(b):
    """bytes -> (unhex "…") : list N, needs Base.Hex"""
    return Raw('(unhex "%s")' % b.hex())
def clist(xs):
    return Raw("[" + "; ".join(xs) + "]")
def ctup(*xs):
    return Raw("(" + ", ".join(xs) + ")")
def capp(f, *xs):
    return Raw("(" + f + "".join(" " + x for x in xs) + ")")
def copt(x):
    return Raw("None") if x is None else Raw("(Some %s)" % x)

def coq_eval_lists(header, items, rundir, tag, shard=400, timeout=1800):
    """items: list of Coq expressions, all of one type T printable on one line (Z codes or small tuples).
    Evaluates them with vm_compute in parallel coqc processes. Returns list of raw strings, one per item
    (printed between markers), or raises RuntimeError with the coqc output."""
    os.makedirs(rundir, exist_ok=True)
    shards = [items[i:i + shard] for i in range(0, len(items), shard)]
    files = []
    for si, sh_items in enumerate(shards):
        f = os.path.join(rundir, "%s_%04d.v" % (tag, si))
        with open(f, "w") as fh:
            fh.write(header + "\n")
            fh.write("Set Printing Width 100000000.\nSet Printing Depth 100000000.\n")
            for k, it in enumerate(sh_items):
                fh.write("Definition it_%d := %s.\n" % (k, it))
            for k in range(len(sh_items)):
                fh.write('Goal True. let r := eval vm_compute in it_%d in idtac "@@R" r. Abort.\n' % k)
        files.append(f)
    def run(f):
        return sh(["coqc", "-noglob", "-Q", COQ, "L21", f], timeout=timeout, cwd=rundir)
    outs = []
    with ThreadPoolExecutor(max_workers=NCPU) as ex:
        rs = list(ex.map(run, files))
    for (rc, out), f, sh_items in zip(rs, files, shards):
        if rc != 0:
            raise RuntimeError("coqc failed on %s:\n%s" % (f, out[-4000:]))
        got = [l[4:].strip() for l in out.splitlines() if l.startswith("@@R")]
        if len(got) != len(sh_items):
            raise RuntimeError("coqc output count mismatch on %s: %d vs %d\n%s" % (f, len(got), len(sh_items), out[-2000:]))
        outs.extend(got)
    for f in files:
        for ext in (".vo", ".vok", ".vos", ".glob"):
            try:
                os.remove(f[:-2] + ext)
            except OSError:
                pass
    return outs

def parse_z(s):
    s = s.strip()
    m = re.match(r"^\(?(-?\d+)\)?(%[A-Za-z]+)?$", s)
    if not m:
        raise ValueError("not a number: %r" % s)
    return int(m.group(1))

# ---------------------------------------------------------------- findings / evidence
def load_known():
    p = os.path.join(VERIF, "known_findings.json")
    if not os.path.exists(p):
        return []
    return json.load(open(p))

class Check:
    """One run of one property's check."""
    def __init__(self, pid, tier, seed):
        self.pid = pid
        self.tier = tier
        self.seed = seed
        self.rng = random.Random(("%s-%d" % (pid, seed)).encode())
        self.t0 = time.time()
        prepare_alt()
        # one scratch directory per RUN (two runs of one property must not clobber each other's case files);
        # `work/run/<pid>` is a link to the latest one; directories of finished runs older than a day are removed
        runroot = os.path.join(ALTDIR, "run")
        os.makedirs(runroot, exist_ok=True)
        for d in os.listdir(runroot):
            dp = os.path.join(runroot, d)
            try:
                if d.startswith(pid + ".") and os.path.isdir(dp) and not os.path.islink(dp) and time.time() - os.path.getmtime(dp) > 86400:
                    shutil.rmtree(dp, ignore_errors=True)
            except OSError:
                pass
        self.rundir = os.path.join(runroot, "%s.%s.%d" % (pid, tier, os.getpid()))
        if os.path.isdir(self.rundir):
            shutil.rmtree(self.rundir, ignore_errors=True)
        os.makedirs(self.rundir, exist_ok=True)
        link = os.path.join(runroot, pid)
        try:
            if os.path.islink(link):
                os.unlink(link)
            elif os.path.isdir(link):
                shutil.rmtree(link, ignore_errors=True)
            os.symlink(self.rundir, link)
        except OSError:
            pass
        self.replaydir = os.path.join(ALTDIR, "replay")
        os.makedirs(self.replaydir, exist_ok=True)
        self.cov = {"evaluations": 0, "distinct_nontrivial": 0, "rule": "", "samples": [],
                    "traces_validated_against_impl": 0, "obligations": 0, "discharged": 0,
                    "checker_cmd": "", "trusted_base": [], "input_distribution": {},
                    "known_findings_hit": [], "correspondence_mismatches": 0}
        self.assumptions = []
        self.violations = []   # list of (what, replay_path, no_input)
        self.known_hit = []
        self.notes = []
        self.proof_ok = None
        self.broken = []       # names of theorems / correspondences that no longer check

    # -- proof leg
    def proof_leg(self, model_targets, prop_file, proof_files, prop_module):
        """Builds models (must succeed) and the property file (may fail -> proof broken)."""
        okt, tmsg = run_translators(self.pid)
        if not okt:
            self.broken.append("translator: " + tmsg[-500:])
        ok, out = coq_make(model_targets)
        if not ok:
            self.write_log("coq_model_build.log", out)
            self.broken.append("model build failed: " + last_error(out))
            self.model_ok = False
        else:
            self.model_ok = True
        target = prop_file[:-2] + ".vo"
        ok2, out2 = coq_make([target])
        self.write_log("coq_prop_build.log", out2)
        bad = static_gate([])
        names = theorem_names(os.path.join(COQ, prop_file))
        nq = count_qed([os.path.join(COQ, p) for p in [prop_file] + proof_files])
        self.cov["obligations"] = nq
        self.cov["checker_cmd"] = "cd /verif/coq && ./mk.sh && make %s  (coqc 8.16.1, full .vo build) ; coqc Print Assumptions on %s" % (target, ", ".join(names))
        axioms = {}
        if ok2:
            axioms, aout = print_assumptions(prop_module, names, self.rundir)
            if axioms is None:
                ok2 = False
                self.broken.append("Print Assumptions failed: " + last_error(aout))
                axioms = {}
        else:
            self.broken.append("proof build failed: " + last_error(out2))
        for n, ax in axioms.items():
            for a in ax:
                if a not in ALLOWED_AXIOMS:
                    bad.append("theorem %s depends on non-allow-listed axiom %s" % (n, a))
        chk_note = None
        if ok2 and self.tier == "thorough":
            # independent re-check of the compiled property module and everything it depends on
            cok, cax, cout = coqchk(prop_module)
            self.write_log("coqchk.log", cout)
            if not cok:
                bad.append("coqchk failed on %s: %s" % (prop_module, last_error(cout)))
            else:
                for a in cax:
                    if a not in ALLOWED_AXIOMS and a.split(".")[-1] not in {x.split(".")[-1] for x in ALLOWED_AXIOMS}:
                        bad.append("coqchk: %s depends on non-allow-listed axiom %s" % (prop_module, a))
                chk_note = "coqchk -o on L21.%s and its dependencies: axioms %s; no type-in-type, unsafe fixpoints or assumed positivity" % (
                    prop_module, ", ".join(cax) if cax else "<none>")
        if bad:
            self.broken.append("static gate: " + "; ".join(bad[:10]))
        self.proof_ok = ok2 and not bad and okt
        self.cov["discharged"] = nq if self.proof_ok else 0
        self.cov["theorems"] = names
        allax = sorted({a for ax in axioms.values() for a in ax})
        self.cov["trusted_base"] = [
            "Coq 8.16.1 kernel + coqc (vm_compute used for closed computations; no native_compute)",
            "axioms reported by Print Assumptions: " + (", ".join(allax) if allax else "none (Closed under the global context)"),
            "correspondence check: Python generators (tools/), Rust harness /verif/harness (glue from JSON to the public API of /repo), model evaluated by coqc vm_compute on the same inputs",
        ]
        if chk_note:
            self.cov["trusted_base"].append(chk_note)
        return self.proof_ok

    def write_log(self, name, txt):
        with open(os.path.join(self.rundir, name), "w") as f:
            f.write(txt)

    # -- reporting
    def add_samples(self, xs, k=3):
        for x in xs[:k]:
            if len(self.cov["samples"]) < 12:
                self.cov["samples"].append(x)

    def replay_path(self, suffix=""):
        return os.path.join(self.replaydir, "%s-%d%s.json" % (self.pid, self.seed, suffix))

    def violation(self, what, replay_obj, no_input=False, suffix=""):
        p = self.replay_path(suffix or ("-%d" % len(self.violations)))
        with open(p, "w") as f:
            json.dump({"property": self.pid, "what": what, "replay": replay_obj,
                       "replay_cmd": "python3 /verif/tools/verif.py %s --replay %s" % (self.pid, p)}, f, indent=1, default=str)
        self.violations.append((what, p, no_input))

    def known(self, entry, case):
        self.known_hit.append(entry["class"])
        if entry["class"] not in self.cov["known_findings_hit"]:
            self.cov["known_findings_hit"].append(entry["class"])

    def finish(self):
        """Applies the decision procedure of DESIGN.md 2.4 steps 5-7, writes evidence, returns exit code."""
        if not self.violations and self.broken:
            self.violation("no failing input found; these no longer check: " + " | ".join(self.broken),
                           {"broken": self.broken}, no_input=True, suffix="-broken")
        ev = {
            "property_id": self.pid, "tier": self.tier, "seed": self.seed, "level": "proof",
            "coverage": self.cov, "assumptions": self.assumptions, "wall_s": round(time.time() - self.t0, 2),
            "violations": len(self.violations),
        }
        if self.notes:
            ev["coverage"]["notes"] = self.notes
        if not self.cov["samples"]:
            self.cov["samples"] = [{"note": "no case was run", "broken": self.broken[:3]}]
        if not self.cov.get("discharged"):
            # proof leg did not complete: do not claim discharged obligations
            self.cov["proof_broken"] = True
            self.cov["obligations_not_discharged"] = self.cov.pop("obligations", 0)
            self.cov.pop("discharged", None)
            self.cov["evaluations"] = max(1, self.cov.get("evaluations", 0))
            self.cov["distinct_nontrivial"] = max(2, self.cov.get("distinct_nontrivial", 0)) if self.cov.get("distinct_nontrivial", 0) >= 2 else self.cov.get("distinct_nontrivial", 0)
        os.makedirs(EVIDENCE_DIR, exist_ok=True)
        with open(os.path.join(EVIDENCE_DIR, "%s.json" % self.pid), "w") as f:
            json.dump(ev, f, indent=1, default=str)
        known = [k for k in load_known() if k.get("kind") == "finding" and k.get("property") == self.pid]
        for k in known:
            if k["class"] in self.known_hit:
                print("KNOWN-FINDING: property=%s %s" % (self.pid, k["what"]))
        if not self.violations and not os.environ.get("VERIF_KEEP_RUNDIR"):
            shutil.rmtree(self.rundir, ignore_errors=True)     # a clean run leaves nothing behind (logs of a failing one stay)
        for what, p, no_input in self.violations:
            log("violation:", what)
            print("VIOLATION property=%s replay=%s%s" % (self.pid, p, " no-failing-input-found" if no_input else ""))
        sys.stdout.flush()
        return 1 if self.violations else 0

def last_error(out):
    lines = out.strip().splitlines()
    idx = [i for i, l in enumerate(lines) if l.startswith("Error") or "Error:" in l]
    if idx:
        i = idx[0]
        return " ".join(l.strip() for l in lines[max(0, i - 3):i + 6])[:800]
    return " ".join(l.strip() for l in lines[-5:])[:800]
