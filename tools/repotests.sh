#!/bin/sh
# Runs /repo's own test suite offline and prints the failed tests other than the one that always fails at baseline.
cd /repo && CARGO_NET_OFFLINE=true timeout 3000 cargo test --workspace --no-fail-fast --offline 2>&1 | grep -E '^test .* FAILED|^test result' | grep -v 'it_has_gds_properties' | awk '/FAILED/ && !/test result/ {bad=1; print} /test result/ {split($0,a," "); p+=a[4]; f+=a[6]} END {print "passed=" p " failed=" f " (1 baseline always-fail expected)"; exit bad}'
