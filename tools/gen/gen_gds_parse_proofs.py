#!/usr/bin/env python3
"""writes the element-parser part of Gds/KernelsTieGdsParse_proofs.v (seven parsers, one proof skeleton)"""
KINDS = {
  # name: (K, Rust type, M function, model ctor, fields [(field, kind, rtype)])
  "boundary": ("KBoundary", "Boundary", "Mboundary", "EBoundary",
               [("layer","Z","Layer"),("datatype","Z","DataType"),("xy","pts",None),("elflags","flags","ElemFlags"),("plex","plex","Plex"),("properties","props",None)]),
  "path": ("KPath", "Path", "Mpath", "EPath",
           [("layer","Z","Layer"),("datatype","Z","DataType"),("xy","pts",None),("width","oZ","Width"),("path_type","oZ","PathType"),("begin_extn","oZ","BeginExtn"),
            ("end_extn","oZ","EndExtn"),("elflags","flags","ElemFlags"),("plex","plex","Plex"),("properties","props",None)]),
  "node": ("KNode", "Node", "Mnode", "ENode",
           [("layer","Z","Layer"),("nodetype","Z","Nodetype"),("xy","pts",None),("elflags","flags","ElemFlags"),("plex","plex","Plex"),("properties","props",None)]),
  "box": ("KBox", "Box", "Mbox", "EBox",
          [("layer","Z","Layer"),("boxtype","Z","BoxType"),("xy","pts",None),("elflags","flags","ElemFlags"),("plex","plex","Plex"),("properties","props",None)]),
  "struct_ref": ("KSref", "StructRef", "Msref", "ESref",
                 [("name","str","StructRefName"),("xy","pt",None),("strans","strans",None),("elflags","flags","ElemFlags"),("plex","plex","Plex"),("properties","props",None)]),
  "array_ref": ("KAref", "ArrayRef", "Maref", "EAref",
                [("name","str","StructRefName"),("xy","pts",None),("cols","cols",None),("rows","rows",None),("strans","strans",None),("elflags","flags","ElemFlags"),
                 ("plex","plex","Plex"),("properties","props",None)]),
  "text_elem": ("KText", "TextElem", "Mtext", "EText",
                [("string","str","RString"),("layer","Z","Layer"),("texttype","Z","TextType"),("xy","pt",None),("presentation","pres","Presentation"),
                 ("path_type","oZ","PathType"),("width","oZ","Width"),("strans","strans",None),("elflags","flags","ElemFlags"),("plex","plex","Plex"),("properties","props",None)]),
}
def gb_expr(kind, rt):
    return {"Z": "(opt_z %s b)" % rt, "oZ": "(option_map Some (opt_z %s b))" % rt, "pts": "(option_map (map Gpt) (opt_pts b))",
            "pt": "(option_map Gpt (opt_pt b))", "str": "(opt_str %s b)" % rt,
            "flags": "(option_map (fun f => Some (Gflags f)) (opt_bits ElemFlags b))", "pres": "(option_map (fun f => Some (Gpres f)) (opt_bits Presentation b))",
            "plex": "(option_map (fun z => Some (Gplex z)) (opt_z Plex b))", "strans": "(option_map (fun s => Some (Gstrans s)) (opt_strans b))",
            "cols": "(option_map fst (opt_bits ColRow b))", "rows": "(option_map snd (opt_bits ColRow b))", "props": "None"}[kind]
def destr(kind, rt):
    return {"Z": "(opt_z %s b)" % rt, "oZ": "(opt_z %s b)" % rt, "pts": "(opt_pts b)", "pt": "(opt_pt b) as [[ptx pty]|]", "str": "(opt_str %s b)" % rt,
            "flags": "(opt_bits ElemFlags b) as [[? ?]|]", "pres": "(opt_bits Presentation b) as [[? ?]|]", "plex": "(opt_z Plex b)",
            "strans": "(opt_strans b) as [[sr0 sr1 sr2 sr3 sr4]|]", "cols": "(opt_bits ColRow b) as [[? ?]|]", "rows": None, "props": None}[kind]
out = []
for name, (K, T, Mf, Ctor, fields) in KINDS.items():
    B = "gGds%sBuilder" % T
    has_peek = name in ("struct_ref", "array_ref", "text_elem")
    has_pv = name in ("boundary", "path", "node", "box", "array_ref")
    ext = ("pm_nofuel " if has_peek else "") + "x_next" + (" x_peek" if has_peek else "") + (" x_parse_vec" if has_pv else "")
    setters = " ".join("g_Gds%sBuilder_%s" % (T, f) for f, _, _ in fields)
    projs = " ".join("%s_%s" % (B, f) for f, _, _ in fields)
    mprojs = " ".join("gGds%s_%s" % (T, f) for f, _, _ in fields)
    ds = [destr(k, rt) for _, k, rt in fields]
    ds = [d for d in ds if d]
    if name == "array_ref":
        ds = [d.replace("(opt_bits ColRow b) as [[? ?]|]", "(bfind ColRow b) as [[]|]").replace("(opt_bits ElemFlags b) as [[? ?]|]", "(bfind ElemFlags b) as [[]|]") for d in ds]
    out.append('''
(** ** parse_%(name)s *)
Definition Gb_%(name)s (b : builder) : %(B)s bytes Z Z :=
  mk_%(B)s bytes %(gbs)s.
Definition %(name)s_fin (c : ctrl (gGds%(T)s bytes Z Z) (%(B)s bytes Z Z * list (gGdsProperty bytes Z Z))) : pm (gGds%(T)s bytes Z Z) :=
  match c with
  | Brk v => pm_ret _ v
  | Cont st => let '(b, props) := st in
      pm_bind _ _ (pm_bind _ _ (g_Gds%(T)sBuilder_properties pm_xops bytes b props) (fun t => pm_ret _ t))
              (fun b => pm_bind _ _ (g_Gds%(T)sBuilder_build pm_xops bytes b) (fun b => pm_ret _ b))
  end.
Definition %(name)s_run (f : nat) (st : %(B)s bytes Z Z * list (gGdsProperty bytes Z Z)) : pm (gGds%(T)s bytes Z Z) :=
  pm_bind _ _ (k_loop pm_kops (pm_nofuel _) f (fun fuel st => g_GdsParser_parse_%(name)s_loop1 pm_xops bytes %(ext)s fuel st) st) %(name)s_fin.
Lemma tie_parse_%(name)s_loop : forall f s b gp, u8s s ->
  sim (fun e => %(Ctor)s (%(Mf)s e)) (%(name)s_run f (Gb_%(name)s b, gp) s) (parse_elem true f %(K)s (Rst s) b (map Mprop gp)).
Proof.
  induction f as [|f IH]; intros s b gp U; unfold %(name)s_run; [split; [reflexivity|exact I]|].
  cbn [k_loop parse_elem]. unfold parse_elem_body. ps. unfold g_GdsParser_parse_%(name)s_loop1 at 1. ps.
  step_next s U; cbn [obind]; try (split; [reflexivity|exact I]).
  destruct r; cbn [Grec]; try acc.
  all: try lazymatch goal with |- sim _ _ (Err _) => cls end.
  all: try first
    [ (* a scalar field *)
      cbv beta iota delta [%(setters)s]; ps; cbv beta iota; goon IH Gb_%(name)s
    | (* XY *)
      xy_arm; cbv beta iota delta [%(setters)s]; ps; cbv beta iota; goon IH Gb_%(name)s
    | (* STRANS *)
      strans_arm; cbv beta iota delta [%(setters)s]; ps; cbv beta iota; goon IH Gb_%(name)s
    | (* PROPATTR *)
      prop_arm IH ].
  (* ENDEL: `b.properties(props)`, `b.build()?` against [build_elem] *)
  cbv beta iota. unfold %(name)s_fin, g_Gds%(T)sBuilder_properties, g_Gds%(T)sBuilder_build. ps. cbv beta iota.
  cbn [build_elem]. rewrite ?req_z_opt, ?req_pts_opt, ?req_pt_opt, ?req_str_opt. unfold Gb_%(name)s.
  cbn [%(projs)s].
  %(colrow)sdestruct %(destructs)s;
    cbn [option_map obind fst snd]; unfold sim, %(Mf)s, Mflags, Mpres, Mplex, Gflags, Gpres, Gplex, Mstrans, Gstrans, Mpt, Gpt;
    cbn [back omap obind ounit keeps fst snd option_map %(mprojs)s
         gGdsElemFlags_0 gGdsElemFlags_1 gGdsPresentation_0 gGdsPresentation_1 gGdsPlex_0 gGdsPoint_x gGdsPoint_y
         gGdsStrans_reflected gGdsStrans_abs_mag gGdsStrans_abs_angle gGdsStrans_mag gGdsStrans_angle px py
         st_reflected st_abs_mag st_abs_angle st_mag st_angle];
    rewrite ?map_Mpt_Gpt; try (split; [reflexivity|first [assumption|exact I]]).
Qed.
Lemma tie_parse_%(name)s : forall f s, u8s s ->
  sim (fun e => %(Ctor)s (%(Mf)s e)) (g_parse_%(name)s f s) (parse_elem true f %(K)s (Rst s) [] []).
Proof. intros f s U. exact (tie_parse_%(name)s_loop f s [] [] U). Qed.

''' % dict(name=name, B=B, T=T, K=K, Mf=Mf, Ctor=Ctor, ext=ext, setters=setters, projs=projs, mprojs=mprojs,
           gbs=" ".join(gb_expr(k, rt) for _, k, rt in fields), destructs=", ".join(ds),
           colrow=("unfold opt_bits. " if name == "array_ref" else "")))
open("/verif/work/xlate4/parsers_gen.v", "w").write("".join(out))
