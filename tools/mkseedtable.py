#!/usr/bin/env python3
"""Rewrites the seeded-change table of DESIGN.md (between the SEEDED-TABLE markers) from seeded/*/meta.json."""
import json, glob, os
V = os.path.dirname(os.path.dirname(os.path.abspath(__file__)))
rows = []
for d in sorted(glob.glob(os.path.join(V, "seeded", "*"))):
    m = json.load(open(os.path.join(d, "meta.json")))
    cut = lambda s, n: (s if len(s) < n else s[:n - 3] + "...").replace("|", "/").replace("\n", " ")
    cb = ", ".join(m.get("caught_by") or []) or "MISSED"
    how = " (failing input as replay)" if m.get("caught_with_failing_input") else (" (no-failing-input-found)" if m.get("caught_by") else "")
    note = " - after strengthening" if m.get("strengthening") else ""
    rows.append("| `%s` | %s | %s | %s%s%s |" % (os.path.basename(d), cut(m.get("summary", ""), 210), cut(m.get("needs", ""), 170), cb, how, note))
table = "| seeded change | what was changed | needs, to manifest | caught by |\n|---|---|---|---|\n" + "\n".join(rows) + "\n"
p = os.path.join(V, "DESIGN.md")
s = open(p).read()
a, b = "<!-- SEEDED-TABLE-BEGIN -->\n", "<!-- SEEDED-TABLE-END -->"
i, j = s.index(a) + len(a), s.index(b)
open(p, "w").write(s[:i] + table + s[j:])
print(len(rows), "rows")
