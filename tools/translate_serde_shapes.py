#!/usr/bin/env python3
"""Translator (run on every check): reads the struct/enum declarations and their #[serde(...)] attributes from
/repo/gds21/src/data.rs and /repo/lef21/src/data.rs and writes
  coq/Gen/SerdeShapeGen.v   -- the shapes of GdsLibrary and LefLibrary as terms of Serde.SerdeGeneric.ty
  work/gen/serde_shapes.json -- the same, for the Python case generator
Files are rewritten only when their content changes. Exit code != 0 when the sources use a construct the
translator does not understand (that is a broken tie, reported by the C18 check)."""
import json, os, re, sys
sys.path.insert(0, os.path.dirname(os.path.abspath(__file__)))
import rustshape

VERIF = os.path.dirname(os.path.dirname(os.path.abspath(__file__)))
REPO = os.environ.get("VERIF_REPO", "/repo")
COQ_DIR = os.environ.get("VERIF_COQ_DIR", os.path.join(VERIF, "coq"))
GEN_WORK = os.environ.get("VERIF_GEN_WORK", os.path.join(VERIF, "work", "gen"))
SOURCES = {"gds": REPO + "/gds21/src/data.rs", "lef": REPO + "/lef21/src/data.rs"}
ROOTS = {"gds": "GdsLibrary", "lef": "LefLibrary"}

INTS = {"i8": (-128, 127), "i16": (-32768, 32767), "i32": (-2**31, 2**31 - 1), "i64": (-2**63, 2**63 - 1),
        "isize": (-2**63, 2**63 - 1), "u8": (0, 255), "u16": (0, 65535), "u32": (0, 2**32 - 1),
        "u64": (0, 2**64 - 1), "usize": (0, 2**64 - 1)}

class Unsupported(Exception):
    pass

def parse_type(t):
    t = t.strip()
    if t in INTS:
        return {"k": "int", "lo": INTS[t][0], "hi": INTS[t][1]}
    if t == "bool":
        return {"k": "bool"}
    if t == "f64":
        return {"k": "f64"}
    if t == "String":
        return {"k": "str"}
    if t == "char":
        return {"k": "char"}
    if t in ("LefDecimal", "Decimal", "rust_decimal::Decimal"):
        return {"k": "dec"}
    m = re.match(r"^(Option|Vec|Box)<(.*)>$", t)
    if m:
        inner = parse_type(m.group(2))
        if m.group(1) == "Box":
            return inner
        return {"k": "option" if m.group(1) == "Option" else "vec", "t": inner}
    m = re.match(r"^\[(.*);(\d+)\]$", t)
    if m:
        return {"k": "array", "n": int(m.group(2)), "t": parse_type(m.group(1))}
    if t.startswith("(") and t.endswith(")"):
        parts = rustshape.split_top(t[1:-1])
        return {"k": "tuple", "ts": [parse_type(p) for p in parts]}
    if re.match(r"^[A-Za-z_][A-Za-z0-9_]*$", t):
        return {"k": "named", "name": t}
    raise Unsupported("type expression %r" % t)

def field_shape(f, where):
    sk = "never"
    dflt = False
    sn = dn = f["name"]
    for a in f["serde"]:
        a1 = re.sub(r"\s+", "", a)
        if a1 == "default":
            dflt = True
        elif a1 == "skip_serializing":
            sk = "always"
        elif a1.startswith("skip_serializing_if="):
            pred = a1.split("=", 1)[1].strip('"')
            sk = {"Option::is_none": "ifnone", "Vec::is_empty": "ifempty", "is_false": "iffalse"}.get(pred)
            if sk is None:
                raise Unsupported("%s: skip_serializing_if predicate %s" % (where, pred))
        elif a1.startswith("rename="):
            sn = dn = a1.split("=", 1)[1].strip('"')
        elif a1.startswith("rename("):
            for part in rustshape.split_top(a1[len("rename("):-1]):
                k, v = part.split("=", 1)
                if k == "serialize":
                    sn = v.strip('"')
                elif k == "deserialize":
                    dn = v.strip('"')
                else:
                    raise Unsupported("%s: rename part %s" % (where, part))
        else:
            raise Unsupported("%s: serde attribute %s" % (where, a))
    return {"ser": sn, "de": dn, "skip": sk, "default": dflt, "t": parse_type(f["ty"])}

def build(decls, root, src_text):
    """Returns ordered list of (name, shape) reachable from root, dependencies first."""
    order = []
    seen = {}
    def visit_type(t):
        k = t["k"]
        if k in ("option", "vec", "array"):
            visit_type(t["t"])
        elif k == "tuple":
            for x in t["ts"]:
                visit_type(x)
        elif k == "named":
            visit(t["name"])
    def visit(name):
        if name in seen:
            if seen[name] is None:
                raise Unsupported("recursive type %s" % name)
            return
        if name not in decls:
            raise Unsupported("type %s not found in the source file" % name)
        d = decls[name]
        if not {"Serialize", "Deserialize"} <= d["derives"]:
            raise Unsupported("type %s does not derive Serialize and Deserialize" % name)
        if d.get("serde"):
            raise Unsupported("container attribute on %s: %s" % (name, d["serde"]))
        seen[name] = None
        if d["kind"] == "unit_struct":
            sh = {"k": "unit"}
        elif d["kind"] == "tuple_struct":
            ts = [parse_type(t) for t in d["types"]]
            sh = {"k": "newtype", "t": ts[0]} if len(ts) == 1 else {"k": "tuple", "ts": ts}
        elif d["kind"] == "struct":
            sh = {"k": "struct", "fs": [field_shape(f, "%s.%s" % (name, f["name"])) for f in d["fields"]]}
        elif d["kind"] in ("enum", "enumstr"):
            vs = []
            for v in d["variants"]:
                if v.get("serde"):
                    raise Unsupported("variant attribute on %s::%s" % (name, v["name"]))
                if v["kind"] == "unit":
                    vs.append({"name": v["name"], "t": None})
                elif v["kind"] == "tuple":
                    ts = [parse_type(t) for t in v["types"]]
                    vs.append({"name": v["name"], "t": ts[0] if len(ts) == 1 else {"k": "tuple", "ts": ts}})
                else:
                    vs.append({"name": v["name"], "t": {"k": "struct", "fs": [field_shape(f, "%s::%s.%s" % (name, v["name"], f["name"])) for f in v["fields"]]}})
            sh = {"k": "enum", "vs": vs}
        else:
            raise Unsupported("decl kind %s" % d["kind"])
        def walk(s):
            if s["k"] == "struct":
                for f in s["fs"]:
                    visit_type(f["t"])
            elif s["k"] == "enum":
                for v in s["vs"]:
                    if v["t"] is not None:
                        walk(v["t"]) if v["t"]["k"] in ("struct",) else visit_type(v["t"])
            elif s["k"] in ("newtype",):
                visit_type(s["t"])
            elif s["k"] == "tuple":
                for x in s["ts"]:
                    visit_type(x)
        walk(sh)
        seen[name] = sh
        order.append((name, sh))
    visit(root)
    # the one skip predicate defined in the crate itself must be what its name says
    if any(f.get("skip") == "iffalse" for _, s in order if s["k"] == "struct" for f in s["fs"]):
        norm = re.sub(r"\s+", "", rustshape.strip_comments(src_text))
        if "fnis_false(b:&bool)->bool{!b}" not in norm and "fnis_false(b:&bool)->bool{!*b}" not in norm:
            raise Unsupported("is_false is no longer `!b`")
    return order

def coq_str(s):
    return '"' + s.replace('"', '""') + '"'

def coq_ty(t, prefix):
    k = t["k"]
    if k == "bool": return "TBool"
    if k == "int": return "(TInt (%d) (%d))" % (t["lo"], t["hi"])
    if k == "f64": return "TF64"
    if k == "str": return "TStr"
    if k == "char": return "TChar"
    if k == "dec": return "TDec"
    if k == "unit": return "TUnit"
    if k == "option": return "(TOption %s)" % coq_ty(t["t"], prefix)
    if k == "vec": return "(TVec %s)" % coq_ty(t["t"], prefix)
    if k == "array": return "(TArray %d %s)" % (t["n"], coq_ty(t["t"], prefix))
    if k == "tuple": return "(TTuple [%s])" % "; ".join(coq_ty(x, prefix) for x in t["ts"])
    if k == "newtype": return "(TNewtype %s)" % coq_ty(t["t"], prefix)
    if k == "named": return "%s_%s" % (prefix, t["name"])
    if k == "struct":
        sk = {"never": "SkNever", "ifnone": "SkIfNone", "ifempty": "SkIfEmpty", "iffalse": "SkIfFalse", "always": "SkAlways"}
        return "(TStruct [%s])" % ";\n    ".join(
            "Field %s %s %s %s %s" % (coq_str(f["ser"]), coq_str(f["de"]), sk[f["skip"]], "true" if f["default"] else "false", coq_ty(f["t"], prefix))
            for f in t["fs"])
    if k == "enum":
        return "(TEnum [%s])" % ";\n    ".join(
            "(%s, %s)" % (coq_str(v["name"]), "None" if v["t"] is None else "Some %s" % coq_ty(v["t"], prefix)) for v in t["vs"])
    raise Unsupported("shape kind %s" % k)

def write_if_changed(path, txt):
    os.makedirs(os.path.dirname(path), exist_ok=True)
    if os.path.exists(path) and open(path).read() == txt:
        return False
    with open(path, "w") as f:
        f.write(txt)
    return True

def main():
    out = ["(** GENERATED by tools/translate_serde_shapes.py from gds21/src/data.rs and lef21/src/data.rs. Do not edit. *)",
           "From Coq Require Import ZArith List String.", "From L21 Require Import Serde.SerdeGeneric.",
           "Import ListNotations.", "Local Open Scope string_scope.", "Local Open Scope Z_scope.", ""]
    js = {}
    for key, path in SOURCES.items():
        src = open(path).read()
        decls = rustshape.parse_decls(src)
        order = build(decls, ROOTS[key], src)
        for name, sh in order:
            out.append("Definition ty_%s_%s : ty :=\n  %s.\n" % (key, name, coq_ty(sh, "ty_" + key)))
        out.append("Definition %s_library_ty : ty := ty_%s_%s.\n" % (key, key, ROOTS[key]))
        js[key] = {"root": ROOTS[key], "types": {n: s for n, s in order}}
    ch = write_if_changed(os.path.join(COQ_DIR, "Gen", "SerdeShapeGen.v"), "\n".join(out))
    write_if_changed(os.path.join(GEN_WORK, "serde_shapes.json"), json.dumps(js, indent=1))
    print("serde shapes: %d gds types, %d lef types%s" % (len(js["gds"]["types"]), len(js["lef"]["types"]), " (regenerated)" if ch else ""))

if __name__ == "__main__":
    try:
        main()
    except Unsupported as e:
        print("translate_serde_shapes: cannot translate: %s" % e)
        sys.exit(1)
