"""Tokenizer and recursive-descent parser for the subset of Rust that tools/translate_rust_kernels.py translates.

Grammar (EBNF; everything else in a source file is skipped at item level with balanced brackets):

  file     := item*
  item     := 'enumstr' '!' '(' attr* IDENT '{' (attr* IDENT ':' STRING),* '}' ')' ';'      -- a field-less enum with its texts (layout21utils)
            | 'trait' IDENT generics? .. '{' (attr* fn | other)* '}'                          -- read like `impl IDENT`
            | attr* vis? ( 'struct' IDENT generics? ( '{' field,* '}' | ';' | '(' (vis? type),* ')' ';' )
                         | 'enum' IDENT generics? '{' (attr* IDENT ( '(' type,* ')' | '{' field,* '}' )? ('=' expr)?),* '}'
                         | 'impl' generics? type ('for' type)? '{' (attr* vis? fn | 'type' IDENT '=' type ';' | other)* '}'
                         | 'type' IDENT '=' type ';'
                         | fn
                         | other )                      -- other: skipped up to ';' or a balanced '{...}'
             -- `#[derive(A, B, ..)]` attributes of a struct / enum are kept (the derived operators are part of its meaning)
  fn       := 'fn' IDENT generics? '(' param,* ')' ('->' type)? ( block | ';' )
  param    := '&'? 'mut'? 'self' | 'mut'? IDENT ':' type   -- a parameter of type `&mut T` is recorded as a mutable borrow
  type     := '&' LIFETIME? 'mut'? type | '[' type ';' INT ']' | '[' type ']' | '(' type,* ')' | path ('<' type,* '>')?
            | 'Self' '::' IDENT                         -- an associated type of the impl
            | IDENT '::' IDENT                          -- `P::Item`: an associated type of a type parameter (one upper-case
                                                           letter, or a name followed by `::` and `Item` / `Error` / `Output`)
  block    := '{' stmt* expr? '}'
  stmt     := 'let' pat (':' type)? '=' expr ';'
            | lvalue ('=' | '+=' | '-=' | '*=' | '/=') expr ';'
            | 'for' pat 'in' expr0 ('..' expr0)? block
            | 'while' expr0 block | 'loop' block          -- left with `break` (no value, no label) / `return`
            | 'use' path ('::' '*' | '::' '{' IDENT,* '}')? ';'   -- inside a block: `use E::*;` / `use E::{A, B};` bring variants of the enum E into scope
            | 'return' expr? ';'
            | ifexpr | matchexpr | expr ';'
  pat      := alt ('|' alt)*
  alt      := 'ref'? 'mut'? IDENT | '(' pat,* ')' | '&' pat | '_' | '-'? INT | 'true' | 'false'
            | path | path '(' (pat | '..'),* ')' | path '{' (IDENT (':' pat)? | '..'),* '}'
  expr     := or
  or       := and ('||' and)*                and   := cmp ('&&' cmp)*
  cmp      := bor (('=='|'!='|'<'|'<='|'>'|'>=') bor)?
  bor      := bxor ('|' bxor)*               bxor  := band ('^' band)*      band := shift ('&' shift)*
  shift    := add (('<<'|'>>') add)*         add   := mul (('+'|'-') mul)*  mul  := cast (('*'|'/'|'%') cast)*
  cast     := unary ('as' type)*
  unary    := ('-' | '!' | '&' 'mut'? | '*') unary | postfix       -- `let r = &mut v[i];` makes r an alias of the place v[i]
  postfix  := primary ( '.' IDENT ('::' '<' ... '>')? ('(' expr,* ')')? | '.' INT | '[' expr ('..' expr)? ']' | '(' expr,* ')' | '?' )*
  primary  := INT | FLOAT | STRING | CHAR | 'true' | 'false' | path | path '{' (IDENT (':' expr)?),* ('..' expr)? '}'     -- not in expr0
            | '(' expr,* ')' | '[' expr,* ']' | '[' expr ';' INT ']' | block | ifexpr | matchexpr | IDENT '!' ( '(' ... ')' | '[' expr,* ']' )
            | ('format' | 'format_f' | 'format_args' | 'format_args_f') '!' '(' STRING (',' expr)* ')'      -- the `{expr}` holes of the template are parsed by the translator
            | '<' type '>' '::' IDENT
            | 'return' expr? | 'break' | 'continue' | 'move'? '|' pat,* '|' expr
  ifexpr   := 'if' ('let' pat '=')? expr0 block ('else' (ifexpr | block))?
  matchexpr:= 'match' expr0 '{' ( pat ('if' expr)? '=>' (expr ',' | block ','?) )* '}'
  path     := IDENT ('::' ('<' ... '>' | IDENT))*
  expr0    := expr without struct literals at the top level (Rust's rule for conditions and ranges)
"""
import re

class Unsupported(Exception):
    pass

# ------------------------------------------------------------------ tokenizer
PUNCT = ["<<=", ">>=", "...", "..=", "::", "->", "=>", "==", "!=", "<=", ">=", "&&", "||", "+=", "-=", "*=", "/=", "%=",
         "^=", "&=", "|=", "<<", ">>", "..", "+", "-", "*", "/", "%", "^", "!", "&", "|", "=", "<", ">", "@", ".", ",",
         ";", ":", "#", "$", "?", "(", ")", "[", "]", "{", "}", "_"]

class Tok:
    __slots__ = ("kind", "val", "line", "suffix")
    def __init__(self, kind, val, line, suffix=None):
        self.kind, self.val, self.line, self.suffix = kind, val, line, suffix
    def __repr__(self):
        return "%s(%r)@%d" % (self.kind, self.val, self.line)

INT_SUFFIX = ("isize", "usize", "i128", "u128", "i64", "u64", "i32", "u32", "i16", "u16", "i8", "u8")

def tokenize(src, fname="<src>"):
    toks = []
    i, n, line = 0, len(src), 1
    def err(msg):
        raise Unsupported("%s:%d: tokenizer: %s" % (fname, line, msg))
    while i < n:
        c = src[i]
        if c == "\n":
            line += 1; i += 1; continue
        if c in " \t\r":
            i += 1; continue
        if src.startswith("//", i):
            j = src.find("\n", i)
            i = n if j < 0 else j
            continue
        if src.startswith("/*", i):
            depth, j = 1, i + 2
            while j < n and depth:
                if src.startswith("/*", j):
                    depth += 1; j += 2
                elif src.startswith("*/", j):
                    depth -= 1; j += 2
                else:
                    if src[j] == "\n":
                        line += 1
                    j += 1
            i = j
            continue
        if c == '"' or (c == "b" and src.startswith('b"', i)) or (c == "r" and re.match(r'r#*"', src[i:])):
            m = re.match(r'(b?)r(#*)"', src[i:])
            if m:   # raw string
                close = '"' + m.group(2)
                j = src.find(close, i + len(m.group(0)))
                if j < 0:
                    err("unterminated raw string")
                s = src[i:j + len(close)]
            else:
                j = i + (2 if c == "b" else 1)
                while j < n and src[j] != '"':
                    j += 2 if src[j] == "\\" else 1
                if j >= n:
                    err("unterminated string")
                s = src[i:j + 1]
            line += s.count("\n")
            toks.append(Tok("str", s, line)); i += len(s); continue
        if c == "'":
            # char literal or lifetime
            m = re.match(r"'(\\.[^']*|[^'\\])'", src[i:])
            if m:
                toks.append(Tok("char", m.group(0), line)); i += len(m.group(0)); continue
            m = re.match(r"'[A-Za-z_][A-Za-z0-9_]*", src[i:])
            if m:
                toks.append(Tok("lifetime", m.group(0), line)); i += len(m.group(0)); continue
            err("stray quote")
        if c.isdigit():
            m = re.match(r"0x[0-9a-fA-F_]+|0b[01_]+|0o[0-7_]+", src[i:])
            if m:
                body = m.group(0); j = i + len(body)
                sm = re.match(r"(?:%s)\b" % "|".join(INT_SUFFIX), src[j:])
                suffix = sm.group(0) if sm else None
                if suffix:
                    j += len(suffix)
                toks.append(Tok("int", int(body.replace("_", ""), 0), line, suffix)); i = j; continue
            m = re.match(r"[0-9][0-9_]*", src[i:])
            j = i + len(m.group(0))
            digits = m.group(0).replace("_", "").rstrip("_")
            isfloat, frac, exp = False, "", 0
            # a '.' that is not '..' and is not followed by an identifier start makes a float
            if j < n and src[j] == "." and not src.startswith("..", j) and not (j + 1 < n and (src[j + 1].isalpha() or src[j + 1] == "_")):
                isfloat = True
                m2 = re.match(r"\.([0-9][0-9_]*)?", src[j:])
                frac = (m2.group(1) or "").replace("_", "")
                j += len(m2.group(0))
            m3 = re.match(r"[eE]([+-]?[0-9_]+)", src[j:])
            if m3:
                isfloat = True; exp = int(m3.group(1).replace("_", "")); j += len(m3.group(0))
            sm = re.match(r"_?(f64|f32|%s)\b" % "|".join(INT_SUFFIX), src[j:])
            suffix = None
            if sm:
                suffix = sm.group(1); j += len(sm.group(0))
                if suffix in ("f64", "f32"):
                    isfloat = True
            if isfloat:
                # value = mant * 10^e10, exactly
                mant = int(digits + frac) if (digits + frac) else 0
                e10 = exp - len(frac)
                while mant != 0 and mant % 10 == 0 and e10 < 0:
                    mant //= 10; e10 += 1
                toks.append(Tok("float", (mant, e10), line, suffix))
            else:
                toks.append(Tok("int", int(digits), line, suffix))
            i = j
            continue
        if c.isalpha() or c == "_":
            m = re.match(r"[A-Za-z_][A-Za-z0-9_]*", src[i:])
            w = m.group(0)
            if w == "_":
                toks.append(Tok("punct", "_", line))
            else:
                toks.append(Tok("ident", w, line))
            i += len(w); continue
        for p in PUNCT:
            if src.startswith(p, i):
                toks.append(Tok("punct", p, line)); i += len(p); break
        else:
            err("unexpected character %r" % c)
    toks.append(Tok("eof", None, line))
    return toks

# ------------------------------------------------------------------ AST (plain tuples/dicts kept small)
class N:
    """AST node: kind + attributes"""
    def __init__(self, kind, line, **kw):
        self.kind, self.line = kind, line
        self.__dict__.update(kw)
    def __repr__(self):
        return "N(%s, %s)" % (self.kind, {k: v for k, v in self.__dict__.items() if k not in ("kind", "line")})

KEYWORDS = {"as", "break", "const", "continue", "crate", "else", "enum", "extern", "false", "fn", "for", "if", "impl", "in",
            "let", "loop", "match", "mod", "move", "mut", "pub", "ref", "return", "static", "struct", "super", "trait",
            "true", "type", "unsafe", "use", "where", "while", "dyn", "async", "await"}

# path prefixes that are KEPT in the name of a type (`proto::Point` is the type `proto__Point`, not `Point`)
KEEP_QUAL = {"proto", "tproto"}

class Parser:
    def __init__(self, toks, fname):
        self.t, self.i, self.fname = toks, 0, fname
        self.half = False
        self.derives = []

    # -- helpers
    def peek(self, k=0):
        return self.t[min(self.i + k, len(self.t) - 1)]
    def at(self, val, k=0):
        t = self.peek(k)
        return t.kind in ("punct", "ident") and t.val == val
    def err(self, msg, tok=None):
        tok = tok or self.peek()
        raise Unsupported("%s:%d: %s (at %r)" % (self.fname, tok.line, msg, tok.val))
    def eat(self, val):
        if not self.at(val):
            self.err("expected %r" % val)
        self.i += 1
        return self.t[self.i - 1]
    def accept(self, val):
        if self.at(val):
            self.i += 1
            return True
        return False
    def ident(self):
        t = self.peek()
        if t.kind != "ident" or t.val in KEYWORDS:
            self.err("expected an identifier")
        self.i += 1
        return t.val
    def skip_balanced(self):
        """at an opening bracket: skip to after the matching closing one"""
        opener = self.peek().val
        close = {"(": ")", "[": "]", "{": "}"}[opener]
        depth = 0
        while True:
            t = self.peek()
            if t.kind == "eof":
                self.err("unbalanced %r" % opener)
            if t.kind == "punct" and t.val in "([{":
                depth += 1
            elif t.kind == "punct" and t.val in ")]}":
                depth -= 1
            self.i += 1
            if depth == 0:
                if t.val != close:
                    self.err("mismatched bracket", t)
                return
    def generic_names(self):
        """at `<`: the names of the TYPE parameters (lifetimes, bounds and defaults skipped); [] when there is no list"""
        names = []
        if not self.at("<"):
            return names
        start = self.i
        self.skip_generics()
        depth, expect_name = 0, False
        for j in range(start, self.i):
            t = self.t[j]
            if t.kind == "punct" and t.val in ("<", "(", "["):
                depth += 1
                if depth == 1:
                    expect_name = True
                continue
            if t.kind == "punct" and t.val in (">", ")", "]"):
                depth -= 1; continue
            if t.kind == "punct" and t.val == ">>":
                depth -= 2; continue
            if depth == 1 and t.kind == "punct" and t.val == ",":
                expect_name = True; continue
            if depth == 1 and expect_name:
                if t.kind == "ident" and t.val not in ("const",):
                    names.append(t.val)
                expect_name = False
        return names
    def skip_generics(self):
        if self.at("<"):
            depth = 0
            while True:
                t = self.peek()
                if t.kind == "eof":
                    self.err("unbalanced <")
                if t.kind == "punct" and t.val == "<":
                    depth += 1
                elif t.kind == "punct" and t.val == ">":
                    depth -= 1
                elif t.kind == "punct" and t.val == ">>":
                    depth -= 2
                self.i += 1
                if depth <= 0:
                    return
    def skip_attrs_vis(self):
        """skips attributes and visibility; the names listed in `#[derive(..)]` are left in self.derives"""
        self.derives = []
        self.battrs = []
        while True:
            if self.at("#"):
                self.i += 1
                self.accept("!")
                if self.at("[") and self.at("builder", 1) and self.at("(", 2):
                    # `#[builder(default, setter(strip_option))]` (derive_builder): the words of the attribute
                    j = self.i + 3
                    depth = 1
                    while depth and self.t[j].kind != "eof":
                        if self.t[j].kind == "punct" and self.t[j].val == "(":
                            depth += 1
                        elif self.t[j].kind == "punct" and self.t[j].val == ")":
                            depth -= 1
                        elif self.t[j].kind in ("ident", "str"):
                            self.battrs.append(str(self.t[j].val))
                        j += 1
                if self.at("[") and self.at("derive", 1) and self.at("(", 2):
                    j = self.i + 3
                    while not (self.t[j].kind == "punct" and self.t[j].val == ")") and self.t[j].kind != "eof":
                        if self.t[j].kind == "ident" and not (self.t[j + 1].kind == "punct" and self.t[j + 1].val == "::"):
                            self.derives.append(self.t[j].val)
                        j += 1
                self.skip_balanced()
            elif self.at("pub"):
                self.i += 1
                if self.at("("):
                    self.skip_balanced()
            else:
                return
    def skip_item(self):
        """skip an item we do not translate: up to ';' at depth 0 or a balanced '{...}'"""
        while True:
            t = self.peek()
            if t.kind == "eof":
                return
            if t.kind == "punct" and t.val == ";":
                self.i += 1
                return
            if t.kind == "punct" and t.val == "{":
                self.skip_balanced()
                return
            if t.kind == "punct" and t.val in "([":
                self.skip_balanced()
                continue
            self.i += 1

    # -- items
    def parse_file(self):
        """-> dict(structs={name: [(field, type)]}, fns={qualified name: fn node}, aliases={name: type})"""
        out = {"structs": {}, "fns": {}, "aliases": {}, "enums": {}, "meta": {}, "allfns": []}
        while self.peek().kind != "eof":
            self.skip_attrs_vis()
            if self.at("struct"):
                self.parse_struct(out)
            elif self.at("enum"):
                self.parse_enum(out)
            elif self.at("impl"):
                self.parse_impl(out)
            elif self.at("trait") and self.peek(1).kind == "ident":
                self.parse_trait(out)
            elif self.at("enumstr") and self.at("!", 1) and self.at("(", 2):
                self.parse_enumstr(out)
            elif self.at("fn"):
                f = self.parse_fn(None)
                out["fns"].setdefault(f.name, f)
                out["allfns"].append(f)
            elif self.at("type"):
                self.i += 1
                name = self.ident()
                if self.at("="):
                    self.i += 1
                    out["aliases"][name] = self.parse_type()
                    self.eat(";")
                else:
                    self.skip_item()
            elif self.peek().kind == "eof":
                break
            else:
                self.skip_item()
        return out

    def type_or_none(self, stops):
        """a type, or None when it is outside the subset (then skipped up to one of `stops` at depth 0)"""
        save = self.i
        try:
            return self.parse_type()
        except Unsupported:
            self.i = save
            self.half = False
            depth = 0
            while not (depth == 0 and any(self.at(x) for x in stops)):
                t = self.peek()
                if t.kind == "punct" and t.val in ("(", "[", "{", "<"):
                    depth += 1
                if t.kind == "punct" and t.val in (")", "]", "}", ">"):
                    depth -= 1
                if t.kind == "punct" and t.val == ">>":
                    depth -= 2
                if t.kind == "eof":
                    self.err("unterminated declaration")
                self.i += 1
            return None

    def parse_enum(self, out):
        derives = list(self.derives)
        self.eat("enum")
        name = self.ident()
        gens = self.generic_names()
        if self.at("where"):
            while not self.at("{"):
                self.i += 1
        self.eat("{")
        variants = []
        while not self.at("}"):
            self.skip_attrs_vis()
            vn = self.ident()
            if self.at("("):
                self.i += 1
                tys = []
                while not self.at(")"):
                    self.skip_attrs_vis()
                    tys.append(self.type_or_none((",", ")")))
                    if not self.accept(","):
                        break
                self.eat(")")
                variants.append((vn, "tuple", tys))
            elif self.at("{"):
                self.i += 1
                fs = []
                while not self.at("}"):
                    self.skip_attrs_vis()
                    fn = self.ident()
                    self.eat(":")
                    fs.append((fn, self.type_or_none((",", "}"))))
                    if not self.accept(","):
                        break
                self.eat("}")
                variants.append((vn, "struct", fs))
            else:
                variants.append((vn, "unit", []))
            if self.accept("="):
                while not (self.at(",") or self.at("}")):
                    self.i += 1
            if not self.accept(","):
                break
        self.eat("}")
        out["enums"][name] = variants
        out["meta"][name] = {"generics": gens, "derives": derives, "tuple": False}

    def parse_struct(self, out):
        derives = list(self.derives)
        battrs = list(getattr(self, "battrs", []))
        self.eat("struct")
        name = self.ident()
        gens = self.generic_names()
        out["meta"][name] = {"generics": gens, "derives": derives, "tuple": False, "builder": battrs, "field_builder": {}, "field_text": {}}
        if self.accept(";"):
            out["structs"][name] = []
            return
        if self.at("("):
            # tuple struct: the fields are named 0, 1, ..
            self.i += 1
            fields = []
            while not self.at(")"):
                self.skip_attrs_vis()
                fields.append((str(len(fields)), self.type_or_none((",", ")"))))
                if not self.accept(","):
                    break
            self.eat(")")
            if self.at("where"):
                while not self.at(";"):
                    self.i += 1
            self.accept(";")
            out["structs"][name] = fields
            out["meta"][name]["tuple"] = True
            return
        if self.at("where"):
            while not self.at("{"):
                self.i += 1
        self.eat("{")
        fields = []
        while not self.at("}"):
            self.skip_attrs_vis()
            fb = list(getattr(self, "battrs", []))
            fn = self.ident()
            self.eat(":")
            out["meta"][name]["field_builder"][fn] = fb
            # field types outside the subset are recorded as None (the struct is then usable only if that field is never needed)
            save = self.i
            try:
                ty = self.parse_type()
            except Unsupported:
                self.i = save
                self.half = False
                ty = None
                depth = 0
                while not ((self.at(",") or self.at("}")) and depth == 0):
                    t = self.peek()
                    if t.kind == "punct" and t.val in ("(", "[", "{", "<"):
                        depth += 1
                    if t.kind == "punct" and t.val in (")", "]", "}", ">"):
                        depth -= 1
                    if t.kind == "punct" and t.val == ">>":
                        depth -= 2
                    if t.kind == "eof":
                        self.err("unterminated declaration")
                    self.i += 1
            fields.append((fn, ty))
            out["meta"][name]["field_text"][fn] = " ".join(str(t_.val) for t_ in self.t[save:self.i])
            if not self.accept(","):
                break
        self.eat("}")
        out["structs"][name] = fields

    def parse_impl(self, out):
        self.eat("impl")
        gens = self.generic_names()
        save = self.i
        trait = None
        try:
            t1 = self.parse_type()
            if self.accept("for"):
                trait = t1
                t1 = self.parse_type()
        except Unsupported:
            self.i = save
            self.half = False
            self.skip_item()
            return
        if self.at("where"):
            while not self.at("{"):
                self.i += 1
        self.eat("{")
        assoc = {}
        fns = []
        while not self.at("}"):
            self.skip_attrs_vis()
            if self.at("fn"):
                f = self.parse_fn(t1)
                f.trait, f.impl_generics, f.assoc = trait, gens, assoc
                fns.append(f)
            elif self.at("type") and self.peek(1).kind == "ident" and self.at("=", 2):
                self.i += 1
                an = self.ident()
                self.eat("=")
                assoc[an] = self.type_or_none((";",))
                self.eat(";")
            elif self.at("}"):
                break
            else:
                self.skip_item()
        self.eat("}")
        for f in fns:
            # the FIRST definition of a qualified name is the one a plain call refers to (as before); all of them are
            # kept in "allfns" (overloaded operator impls: `impl Mul<Int> for T` and `impl Mul<usize> for T`)
            out["fns"].setdefault(f.name, f)
            out["allfns"].append(f)

    def parse_enumstr(self, out):
        """`enumstr!( Name { Variant: "TEXT", .. } );` (layout21utils): a field-less enum with Clone, Copy, PartialEq, Eq, whose `Display` /
        `to_str` give the text and whose `from_str` reads it back; the texts are kept in out["enumstr"]"""
        self.i += 3
        self.skip_attrs_vis()
        name = self.ident()
        self.eat("{")
        variants, texts = [], []
        while not self.at("}"):
            self.skip_attrs_vis()
            vn = self.ident()
            self.eat(":")
            t = self.peek()
            if t.kind != "str":
                self.err("enumstr!: expected a string literal")
            self.i += 1
            variants.append((vn, "unit", []))
            texts.append((vn, t.val[1:-1]))
            if not self.accept(","):
                break
        self.eat("}")
        self.eat(")")
        self.accept(";")
        out["enums"][name] = variants
        out["meta"][name] = {"generics": [], "derives": ["Clone", "Copy", "PartialEq", "Eq", "Display"], "tuple": False}
        out.setdefault("enumstr", {})[name] = texts

    def parse_trait(self, out):
        """`trait T { fn .. }`: its methods (required ones have no body, provided ones have one) are recorded like those of
        `impl T`: `Self` is the (abstract) type T"""
        self.eat("trait")
        name = self.ident()
        self.skip_generics()
        while not self.at("{"):
            if self.peek().kind == "eof":
                self.err("unterminated trait")
            self.i += 1
        self.eat("{")
        t1 = ("named", name)
        fns = []
        while not self.at("}"):
            self.skip_attrs_vis()
            if self.at("fn"):
                f = self.parse_fn(t1)
                f.trait, f.impl_generics, f.assoc = None, [], {}
                f.in_trait = name
                fns.append(f)
            elif self.at("}"):
                break
            else:
                self.skip_item()
        self.eat("}")
        # kept apart from the items of impls: a unit asks for them ("traits": True)
        out.setdefault("traits", {})[name] = [f.short for f in fns]
        out.setdefault("traitfns", []).extend(fns)

    def parse_fn(self, self_ty):
        line = self.eat("fn").line
        name = self.ident()
        fn_generics = self.generic_names()
        self.eat("(")
        params = []
        while not self.at(")"):
            # self forms
            j = self.i
            ref = mut = False
            if self.accept("&"):
                ref = True
                if self.peek().kind == "lifetime":
                    self.i += 1
            if self.accept("mut"):
                mut = True
            if self.at("self"):
                self.i += 1
                if self.accept(":"):
                    self.type_or_none((",", ")"))
                params.append(("self", ("self",), ref and mut))
            else:
                self.i = j
                self.half = False
                self.accept("mut")
                mutref = False
                try:
                    pn = self.ident()
                    self.eat(":")
                    if self.at("&") and (self.at("mut", 1) or (self.peek(1).kind == "lifetime" and self.at("mut", 2))):
                        mutref = True
                    pt = self.parse_type()
                except Unsupported as ex:
                    # signature outside the subset: keep the function as untranslatable
                    pn, pt = None, None
                    self.i = j
                    self.half = False
                    depth = 0
                    while not (depth == 0 and (self.at(",") or self.at(")"))):
                        t = self.peek()
                        if t.kind == "eof":
                            self.err("unterminated parameter list")
                        if t.kind == "punct" and t.val in ("(", "[", "{", "<"):
                            depth += 1
                        if t.kind == "punct" and t.val in (")", "]", "}", ">"):
                            depth -= 1
                        if t.kind == "punct" and t.val == ">>":
                            depth -= 2
                        self.i += 1
                params.append((pn, pt, mutref and pn is not None))
            if not self.accept(","):
                break
        self.eat(")")
        ret = ("unit",)
        ret_bad = None
        if self.accept("->"):
            j = self.i
            try:
                ret = self.parse_type()
            except Unsupported as ex:
                ret, ret_bad = None, str(ex)
                self.i = j
                self.half = False
                while not (self.at("{") or self.at(";") or self.at("where")):
                    self.i += 1
        if self.at("where"):
            while not (self.at("{") or self.at(";")):
                self.i += 1
        body_range = None
        if self.accept(";"):
            pass
        else:
            start = self.i
            self.skip_balanced()
            body_range = (start, self.i)
        qn = name if self_ty is None else "%s::%s" % (self_ty[1] if self_ty[0] == "gen" else type_key(self_ty), name)
        return N("fn", line, name=qn, short=name, self_ty=self_ty, params=params, ret=ret, ret_bad=ret_bad,
                 body_range=body_range, fname=self.fname, toks=self.t, trait=None, impl_generics=[], assoc={},
                 fn_generics=fn_generics)

    # -- types
    def parse_type(self):
        if self.accept("&"):
            if self.peek().kind == "lifetime":
                self.i += 1
            self.accept("mut")
            return self.parse_type()
        if self.accept("["):
            el = self.parse_type()
            if self.accept(";"):
                t = self.peek()
                if t.kind != "int":
                    self.err("array length must be an integer literal")
                self.i += 1
                self.eat("]")
                return ("arr", el, t.val)
            self.eat("]")
            return ("vec", el)          # a slice `[T]` (behind a reference) is read like a Vec<T>
        if self.accept("("):
            ts = []
            while not self.at(")"):
                ts.append(self.parse_type())
                if not self.accept(","):
                    break
            self.eat(")")
            if not ts:
                return ("unit",)
            if len(ts) == 1:
                return ts[0]
            return ("tup", tuple(ts))
        if self.peek().kind != "ident" or self.peek().val in KEYWORDS - {"crate", "super"}:
            self.err("type outside the subset")
        segs = [self.peek().val]; self.i += 1
        while self.at("::"):
            self.i += 1
            segs.append(self.ident())
        name = segs[-1]
        if len(segs) == 2 and segs[0] == "Self":
            return ("assoc", name)
        if len(segs) == 2 and len(segs[0]) == 1 and segs[0].isupper():
            return ("passoc", segs[0], name)       # `P::Item`: an associated type of the type parameter P
        if len(segs) >= 2 and segs[-2] in KEEP_QUAL:
            name = segs[-2] + "__" + name
        args = []
        if self.at("<"):
            self.i += 1
            while not self.at(">") and not self.at(">>"):
                if self.peek().kind == "lifetime":
                    self.i += 1
                else:
                    args.append(self.parse_type())
                if not self.accept(","):
                    break
            if self.at(">>"):
                # `>>` closes two generic argument lists: the first close takes half of the token
                if self.half:
                    self.half = False
                    self.i += 1
                else:
                    self.half = True
            else:
                self.eat(">")
        if name == "f64":
            return ("f64",)
        if name in INT_SUFFIX:
            return ("int", name)
        if name == "bool":
            return ("bool",)
        if name == "Vec" and len(args) == 1:
            return ("vec", args[0])
        if name == "Option" and len(args) == 1:
            return ("opt", args[0])
        if name == "Self":
            return ("self",)
        if name == "Result" and len(args) >= 1:
            return ("res", args[0])
        if name == "Box" and len(args) == 1:
            return args[0]
        if args:
            return ("gen", name, tuple(args))
        return ("named", name)

    # -- blocks and statements
    def parse_block(self):
        line = self.eat("{").line
        stmts = []
        while not self.at("}"):
            if self.accept(";"):
                continue
            s = self.parse_stmt()
            stmts.append(s)
        self.eat("}")
        return N("block", line, stmts=stmts)

    def parse_pat(self, alts=True):
        """a pattern; with alts, `p | q | ..` (not inside closure parameters, where `|` ends the list)"""
        t = self.peek()
        if alts:
            self.accept("|")
            ps = [self.parse_pat(False)]
            while self.at("|"):
                self.i += 1
                ps.append(self.parse_pat(False))
            return ps[0] if len(ps) == 1 else N("por", t.line, alts=ps)
        if self.accept("&") or self.accept("&&"):
            self.accept("mut")
            return self.parse_pat(False)
        if self.accept("_"):
            return N("pwild", t.line)
        if self.accept("("):
            ps = []
            trailing = False
            while not self.at(")"):
                ps.append(self.parse_pat())
                trailing = False
                if not self.accept(","):
                    break
                trailing = True
            self.eat(")")
            if len(ps) == 1 and not trailing:
                return ps[0]
            return N("ptup", t.line, pats=ps)
        if t.kind == "int" or (self.at("-") and self.peek(1).kind == "int"):
            neg = self.accept("-")
            v = self.peek(); self.i += 1
            return N("plit", t.line, val=(-v.val if neg else v.val), suffix=v.suffix)
        if self.at("true") or self.at("false"):
            self.i += 1
            return N("plit", t.line, val=(t.val == "true"), suffix=None)
        if t.kind in ("str", "char", "float"):
            self.err("string / char / float patterns are outside the subset")
        had_ref = self.accept("ref")
        had_mut = self.accept("mut")
        segs = [self.ident()]
        while self.at("::"):
            self.i += 1
            segs.append(self.ident())
        if len(segs) >= 2 and segs[0] in KEEP_QUAL:
            segs = [segs[0] + "__" + segs[1]] + segs[2:]
        if self.at("("):
            self.i += 1
            ps, rest = [], False
            while not self.at(")"):
                if self.accept(".."):
                    rest = True
                else:
                    ps.append(self.parse_pat())
                if not self.accept(","):
                    break
            self.eat(")")
            return N("pts", t.line, segs=segs, pats=ps, rest=rest)
        if self.at("{") and (len(segs) > 1 or segs[0][:1].isupper()) and not (had_ref or had_mut):
            self.i += 1
            fs, rest = [], False
            while not self.at("}"):
                if self.accept(".."):
                    rest = True
                else:
                    self.accept("ref"); self.accept("mut")
                    fn = self.ident()
                    if self.accept(":"):
                        fs.append((fn, self.parse_pat()))
                    else:
                        fs.append((fn, N("pvar", t.line, name=fn)))
                if not self.accept(","):
                    break
            self.eat("}")
            return N("pstruct", t.line, segs=segs, fields=fs, rest=rest)
        if self.at("@"):
            self.err("`x @ pattern` is outside the subset")
        if len(segs) > 1 or (segs[0] == "None" and not (had_ref or had_mut)):
            return N("ppath", t.line, segs=segs)
        return N("pvar", t.line, name=segs[0])

    def parse_stmt(self):
        t = self.peek()
        if self.at("let"):
            self.i += 1
            pat = self.parse_pat()
            ty = None
            if self.accept(":"):
                ty = self.parse_type()
            if not self.accept("="):
                self.err("`let` without initialiser is outside the subset")
            e = self.parse_expr()
            self.eat(";")
            return N("let", t.line, pat=pat, ty=ty, init=e)
        if self.at("for"):
            self.i += 1
            pat = self.parse_pat()
            self.eat("in")
            lo = self.parse_expr(no_struct=True)
            hi = None
            if self.accept(".."):
                hi = self.parse_expr(no_struct=True)
            body = self.parse_block()
            return N("for", t.line, pat=pat, lo=lo, hi=hi, body=body)
        if self.at("while"):
            self.i += 1
            if self.at("let"):
                # `while let P = E { body }` is `loop { match E { P => body, _ => break } }`
                self.i += 1
                pat = self.parse_pat()
                self.eat("=")
                scrut = self.parse_expr(no_struct=True)
                body = self.parse_block()
                m = N("match", t.line, scrut=scrut, arms=[(pat, None, body), (N("pwild", t.line), None, N("break", t.line))])
                return N("while", t.line, cond=None, body=N("block", t.line, stmts=[N("exprstmt", t.line, e=m, semi=False)]))
            cond = self.parse_expr(no_struct=True)
            body = self.parse_block()
            return N("while", t.line, cond=cond, body=body)
        if self.at("loop"):
            self.i += 1
            body = self.parse_block()
            return N("while", t.line, cond=None, body=body)
        if self.at("use"):
            self.i += 1
            segs, glob = [], False
            while True:
                if self.accept("*"):
                    glob = True
                    break
                if self.at("{"):
                    # `use E::{A, B, ..};`: the listed variants of the enum E may be written bare
                    self.i += 1
                    names = []
                    while not self.at("}"):
                        if self.at("self"):
                            self.i += 1
                        else:
                            names.append(self.ident())
                        if self.accept("::") or self.at("{") or self.at("as"):
                            self.err("nested / renamed `use` lists inside a block are outside the subset")
                        if not self.accept(","):
                            break
                    self.eat("}")
                    self.eat(";")
                    return N("use", t.line, segs=segs, glob=False, names=names)
                if self.peek().kind != "ident":
                    self.err("expected a path after `use`")
                segs.append(self.peek().val); self.i += 1
                if not self.accept("::"):
                    break
            self.eat(";")
            return N("use", t.line, segs=segs, glob=glob)
        if (self.at("if") or self.at("match")) :
            e = self.parse_if() if self.at("if") else self.parse_match()
            if not (self.at(".") or self.at("?")):
                had = self.accept(";")
                return N("exprstmt", t.line, e=e, semi=(had or not self.at("}")))
            # `match .. { .. }?` / `.method()`: the block-like expression goes on as an ordinary expression
            e = self.p_postfix_from(e)
            if self.accept(";"):
                return N("exprstmt", t.line, e=e, semi=True)
            if not self.at("}"):
                self.err("expected ';' or '}' after expression")
            return N("exprstmt", t.line, e=e, semi=False)
        if self.at("return"):
            self.i += 1
            e = None
            if not self.at(";") and not self.at("}"):
                e = self.parse_expr()
            self.accept(";")
            return N("return", t.line, e=e)
        e = self.parse_expr()
        for op in ("=", "+=", "-=", "*=", "/="):
            if self.at(op):
                self.i += 1
                rhs = self.parse_expr()
                if not self.at("}"):          # (an assignment may be the last thing in a block, without `;`)
                    self.eat(";")
                return N("assign", t.line, lhs=e, op=op, rhs=rhs)
        if self.accept(";"):
            return N("exprstmt", t.line, e=e, semi=True)
        if not self.at("}"):
            if e.kind in ("block",):
                return N("exprstmt", t.line, e=e, semi=True)
            self.err("expected ';' or '}' after expression")
        return N("exprstmt", t.line, e=e, semi=False)

    def parse_match(self):
        line = self.eat("match").line
        scrut = self.parse_expr(no_struct=True)
        self.eat("{")
        arms = []
        while not self.at("}"):
            self.skip_attrs_vis()
            pat = self.parse_pat()
            guard = None
            if self.accept("if"):
                guard = self.parse_expr()
            self.eat("=>")
            if self.at("{"):
                body = self.parse_block()
                self.accept(",")
            else:
                body = self.parse_expr()
                for op in ("=", "+=", "-=", "*=", "/="):
                    if self.at(op):      # `pat => place = value,`
                        self.i += 1
                        rhs = self.parse_expr()
                        body = N("block", body.line, stmts=[N("assign", body.line, lhs=body, op=op, rhs=rhs)])
                        break
                if not self.accept(","):
                    if not self.at("}"):
                        self.err("expected ',' or '}' after a match arm")
            arms.append((pat, guard, body))
        self.eat("}")
        return N("match", line, scrut=scrut, arms=arms)

    def parse_if(self):
        line = self.eat("if").line
        letvar = None
        letpat = None
        if self.accept("let"):
            letpat = self.parse_pat()
            self.eat("=")
            # the form of the first version of the subset, `if let Some(x) = ..`, keeps its own representation
            if (letpat.kind == "pts" and letpat.segs == ["Some"] and len(letpat.pats) == 1 and not letpat.rest
                    and letpat.pats[0].kind == "pvar"):
                letvar, letpat = letpat.pats[0].name, None
        cond = self.parse_expr(no_struct=True)
        then = self.parse_block()
        els = None
        if self.accept("else"):
            if self.at("if"):
                l2 = self.peek().line
                inner = self.parse_if()
                els = N("block", l2, stmts=[N("exprstmt", l2, e=inner, semi=False)])
            else:
                els = self.parse_block()
        return N("if", line, letvar=letvar, letpat=letpat, cond=cond, then=then, els=els)

    # -- expressions
    def parse_expr(self, no_struct=False):
        return self.p_or(no_struct)
    def p_binl(self, ops, sub, ns):
        e = sub(ns)
        while self.peek().kind == "punct" and self.peek().val in ops:
            # `|` at this level must not swallow `||`, the tokenizer already separates them
            op = self.peek()
            self.i += 1
            r = sub(ns)
            e = N("bin", op.line, op=op.val, l=e, r=r)
        return e
    def p_or(self, ns):
        return self.p_binl(("||",), self.p_and, ns)
    def p_and(self, ns):
        return self.p_binl(("&&",), self.p_cmp, ns)
    def p_cmp(self, ns):
        e = self.p_bor(ns)
        if self.peek().kind == "punct" and self.peek().val in ("==", "!=", "<", "<=", ">", ">="):
            op = self.peek(); self.i += 1
            r = self.p_bor(ns)
            e = N("bin", op.line, op=op.val, l=e, r=r)
            if self.peek().kind == "punct" and self.peek().val in ("==", "!=", "<", "<=", ">", ">="):
                self.err("comparison operators do not chain")
        return e
    def p_bor(self, ns):
        return self.p_binl(("|",), self.p_bxor, ns)
    def p_bxor(self, ns):
        return self.p_binl(("^",), self.p_band, ns)
    def p_band(self, ns):
        return self.p_binl(("&",), self.p_shift, ns)
    def p_shift(self, ns):
        return self.p_binl(("<<", ">>"), self.p_add, ns)
    def p_add(self, ns):
        return self.p_binl(("+", "-"), self.p_mul, ns)
    def p_mul(self, ns):
        return self.p_binl(("*", "/", "%"), self.p_cast, ns)
    def p_cast(self, ns):
        e = self.p_unary(ns)
        while self.at("as"):
            line = self.peek().line
            self.i += 1
            ty = self.parse_type()
            e = N("cast", line, e=e, ty=ty)
        return e
    def p_unary(self, ns):
        t = self.peek()
        if t.kind == "punct" and t.val == "-":
            self.i += 1
            return N("un", t.line, op="-", e=self.p_unary(ns))
        if t.kind == "punct" and t.val == "!":
            self.i += 1
            return N("un", t.line, op="!", e=self.p_unary(ns))
        if t.kind == "punct" and t.val in ("&", "&&"):
            self.i += 1
            if self.accept("mut"):
                # transparent as a value; `let r = &mut place;` makes r an alias of the place
                return N("refmut", t.line, e=self.p_unary(ns))
            return self.p_unary(ns)          # references are transparent
        if t.kind == "punct" and t.val == "*":
            self.i += 1
            return self.p_unary(ns)          # so are dereferences
        return self.p_postfix(ns)
    def p_args(self):
        self.eat("(")
        args = []
        while not self.at(")"):
            args.append(self.parse_expr())
            if not self.accept(","):
                break
        self.eat(")")
        return args
    def p_postfix(self, ns):
        return self.p_postfix_from(self.p_primary(ns))
    def p_postfix_from(self, e):
        while True:
            t = self.peek()
            if self.at("."):
                nx = self.peek(1)
                if nx.kind == "int":
                    self.i += 2
                    e = N("tupidx", t.line, e=e, idx=nx.val)
                elif nx.kind == "float":
                    self.err("chained tuple index `.0.1` is outside the subset")
                else:
                    self.i += 1
                    name = self.ident()
                    turbo = False
                    turbo_ty = None
                    if self.at("::"):
                        self.i += 1
                        if not self.at("<"):
                            self.err("expected `<` after `::` in a method call")
                        i0_ = self.i
                        self.skip_generics()
                        turbo = True
                        # `recv.m::<Ident>(..)`: the one type argument is kept (units with "turbo_methods")
                        if self.i - i0_ == 3 and self.t[i0_ + 1].kind == "ident":
                            turbo_ty = self.t[i0_ + 1].val
                    if self.at("("):
                        args = self.p_args()
                        e = N("mcall", t.line, recv=e, name=name, args=args, turbo=turbo)
                        if turbo_ty is not None:
                            e.turbo_ty = turbo_ty
                    else:
                        e = N("field", t.line, e=e, name=name)
            elif self.at("["):
                self.i += 1
                idx = self.parse_expr()
                if self.at(".."):
                    # `v[lo..hi]`: a sub-slice
                    self.i += 1
                    hi = self.parse_expr()
                    idx = N("range", t.line, lo=idx, hi=hi)
                self.eat("]")
                e = N("index", t.line, e=e, idx=idx)
            elif self.at("(") and e.kind == "path":
                args = self.p_args()
                e = N("call", t.line, path=e.segs, args=args, targs=getattr(e, "targs", None))
            elif self.at("?"):
                self.i += 1
                e = N("try", t.line, e=e)
            else:
                return e
    def fmt_pieces(self, tmpl, fargs, tok):
        """the pieces of a format template in order: ("lit", text) / ("hole", expression); `{}` takes the next positional argument,
        `{expr}` is parsed like the sources"""
        body = tmpl[1:-1] if tmpl.startswith('"') else None
        if body is None:
            self.err("a raw / byte string as a format template is outside the subset", tok)
        text, i = "", 0
        while i < len(body):
            c = body[i]
            if c == "\\":
                n = body[i + 1:i + 2]
                if n == "n":
                    text += "\n"
                elif n == "t":
                    text += "\t"
                elif n in ('"', "\\", "'"):
                    text += n
                else:
                    self.err("the escape `\\%s` in a format template is outside the subset" % n, tok)
                i += 2
                continue
            text += c; i += 1
        pieces, i, lit, npos = [], 0, "", 0
        while i < len(text):
            c = text[i]
            if text[i:i + 2] == "{{":
                lit += "{"; i += 2; continue
            if text[i:i + 2] == "}}":
                lit += "}"; i += 2; continue
            if c == "{":
                j = text.find("}", i)
                if j < 0:
                    self.err("unbalanced `{` in a format template", tok)
                hole = text[i + 1:j].strip()
                if ":" in hole:
                    self.err("a format specification (`{:..}`) is outside the subset", tok)
                if lit:
                    pieces.append(("lit", lit)); lit = ""
                if hole == "":
                    if npos >= len(fargs):
                        self.err("more `{}` holes than arguments in a format template", tok)
                    pieces.append(("hole", fargs[npos])); npos += 1
                else:
                    sub = Parser(tokenize(hole, self.fname) , self.fname)
                    for t_ in sub.t:
                        t_.line = tok.line
                    node = sub.parse_expr()
                    if sub.peek().kind != "eof":
                        self.err("the hole `{%s}` of a format template is not one expression" % hole, tok)
                    pieces.append(("hole", node))
                i = j + 1
                continue
            if c == "}":
                self.err("unbalanced `}` in a format template", tok)
            lit += c; i += 1
        if lit:
            pieces.append(("lit", lit))
        if npos != len(fargs):
            self.err("more arguments than `{}` holes in a format template", tok)
        return pieces

    def p_primary(self, ns):
        t = self.peek()
        if t.kind == "int":
            self.i += 1
            return N("int", t.line, val=t.val, suffix=t.suffix)
        if t.kind == "float":
            self.i += 1
            return N("float", t.line, mant=t.val[0], e10=t.val[1])
        if t.kind in ("str", "char"):
            self.i += 1
            return N("str", t.line, val=t.val)
        if self.at("true") or self.at("false"):
            self.i += 1
            return N("bool", t.line, val=(t.val == "true"))
        if self.at("("):
            self.i += 1
            es = []
            trailing = False
            while not self.at(")"):
                es.append(self.parse_expr())
                trailing = False
                if not self.accept(","):
                    break
                trailing = True
            self.eat(")")
            if len(es) == 1 and not trailing:
                return es[0]
            return N("tuple", t.line, es=es)
        if self.at("["):
            self.i += 1
            es = []
            while not self.at("]"):
                es.append(self.parse_expr())
                if self.at(";") and len(es) == 1 and self.peek(1).kind == "int" and self.at("]", 2):
                    n = self.peek(1).val
                    self.i += 3
                    return N("repeat", t.line, e=es[0], n=n)       # `[x; N]` with a literal N
                if self.at(";"):
                    self.err("`[x; n]` with a length that is not a literal is outside the subset")
                if not self.accept(","):
                    break
            self.eat("]")
            return N("array", t.line, es=es)
        if self.at("{"):
            return self.parse_block()
        if self.at("if"):
            return self.parse_if()
        if self.at("match"):
            return self.parse_match()
        if self.at("break") or self.at("continue"):
            self.i += 1
            if t.val == "break" and not (self.at(";") or self.at("}") or self.at(",")):
                self.err("`break` with a value or a label is outside the subset")
            return N(t.val, t.line)
        if self.at("|") or self.at("||") or self.at("move"):
            self.accept("move")
            params = []
            if not self.accept("||"):
                self.eat("|")
                while not self.at("|"):
                    params.append(self.parse_pat(False))
                    if self.accept(":"):
                        self.parse_type()
                    if not self.accept(","):
                        break
                self.eat("|")
            if self.at("->"):
                self.err("closures with a declared return type are outside the subset")
            body = self.parse_expr()
            return N("closure", t.line, params=params, body=body)
        if self.at("return"):
            self.i += 1
            e = None
            if not (self.at(";") or self.at("}") or self.at(")") or self.at(",")):
                e = self.parse_expr()
            return N("return", t.line, e=e)
        if self.at("<"):
            # `<Vec<String>>::new()`: a path that starts with a type in angle brackets
            save = self.i
            self.i += 1
            ty = self.parse_type()
            if self.half:
                self.half = False
                self.i += 1          # the `>>` that closed the inner list and this bracket
            else:
                self.eat(">")
            self.eat("::")
            meth = self.ident()
            if ty[0] == "vec":
                return N("path", t.line, segs=["Vec", meth], targs=[ty[1]])
            if ty[0] in ("named", "gen"):
                return N("path", t.line, segs=[ty[1], meth], targs=None)
            self.i = save
            self.err("a path that starts with this type in angle brackets is outside the subset")
        if self.at("while") or self.at("loop"):
            self.err("`%s` used as an expression is outside the subset (only as a statement)" % t.val)
        if t.kind == "ident" and (t.val not in KEYWORDS or t.val in ("crate", "super")):
            segs = [t.val]; self.i += 1
            targs = None
            while self.at("::"):
                self.i += 1
                if self.at("<"):
                    # turbofish: the type arguments are kept when they are types of the subset (`Vec::<T>::new()`)
                    save = self.i
                    try:
                        self.i += 1
                        ta = []
                        while not self.at(">"):
                            ta.append(self.parse_type())
                            if not self.accept(","):
                                break
                        self.eat(">")
                        if self.half:
                            raise Unsupported("nested generic arguments in a turbofish")
                        targs = ta
                    except Unsupported:
                        self.i = save
                        self.half = False
                        self.skip_generics()
                    continue
                segs.append(self.ident())
            if len(segs) >= 2 and segs[0] in KEEP_QUAL:
                segs = [segs[0] + "__" + segs[1]] + segs[2:]
            if self.at("!"):
                # macro invocation
                self.i += 1
                if self.at("[") and segs == ["vec"]:
                    self.i += 1
                    es = []
                    while not self.at("]"):
                        es.append(self.parse_expr())
                        if not self.accept(","):
                            break
                    self.eat("]")
                    return N("veclit", t.line, es=es)
                if segs[-1] in ("format", "format_f", "format_args", "format_args_f") and self.at("(") and self.peek(1).kind == "str":
                    # a formatting macro: the template and the positional arguments are kept
                    self.i += 1
                    tmpl = self.peek().val
                    self.i += 1
                    fargs = []
                    while self.accept(","):
                        if self.at(")"):
                            break
                        fargs.append(self.parse_expr())
                    self.eat(")")
                    try:
                        pieces, why = self.fmt_pieces(tmpl, fargs, t), None
                    except Unsupported as ex:
                        pieces, why = None, str(ex)       # (an error only where the template is translated)
                    return N("fmt", t.line, name=segs[-1], template=tmpl, args=fargs, pieces=pieces, why=why)
                if self.at("(") or self.at("[") or self.at("{"):
                    self.skip_balanced()
                return N("macro", t.line, name=segs[-1])
            if self.at("{") and not ns and (segs[-1].split("__")[-1][:1].isupper()):
                self.i += 1
                fields = []
                base = None
                while not self.at("}"):
                    if self.at(".."):
                        # struct update syntax `..base` (last in the literal)
                        self.i += 1
                        base = self.parse_expr()
                        break
                    self.skip_attrs_vis()
                    fn = self.ident()
                    if self.accept(":"):
                        fe = self.parse_expr()
                    else:
                        fe = N("path", t.line, segs=[fn])
                    fields.append((fn, fe))
                    if not self.accept(","):
                        break
                self.eat("}")
                return N("structlit", t.line, name=segs[-1], segs=segs, fields=fields, base=base)
            return N("path", t.line, segs=segs, targs=targs)
        self.err("expression outside the subset")

def type_key(ty):
    """name of a type as it appears in generated identifiers"""
    k = ty[0]
    if k == "named":
        return ty[1]
    if k == "vec":
        return "Vec_" + type_key(ty[1])
    if k == "f64":
        return "f64"
    if k == "int":
        return ty[1]
    if k == "bool":
        return "bool"
    if k == "opt":
        return "Option_" + type_key(ty[1])
    if k == "arr":
        return "Arr%d_%s" % (ty[2], type_key(ty[1]))
    if k == "tup":
        return "Tup_" + "_".join(type_key(t) for t in ty[1])
    if k == "self":
        return "Self"
    if k == "gen":
        return ty[1] + "_" + "_".join(type_key(t) for t in ty[2])
    if k in ("struct", "enum", "foreign", "assoc"):
        return ty[1]
    if k == "res":
        return "Result_" + type_key(ty[1])
    if k == "ptr":
        return "Ptr_" + (ty[1] if isinstance(ty[1], str) else type_key(ty[1]))
    return k

def parse_type_text(text):
    p = Parser(tokenize(text, "<config>"), "<config>")
    return p.parse_type()

def parse_source(text, fname):
    p = Parser(tokenize(text, fname), fname)
    return p.parse_file()

def parse_fn_body(fn):
    """parse the body of a function item on demand"""
    if fn.body_range is None:
        raise Unsupported("%s: fn %s has no body" % (fn.fname, fn.name))
    p = Parser(fn.toks, fn.fname)
    p.i = fn.body_range[0]
    b = p.parse_block()
    if p.i != fn.body_range[1]:
        p.err("trailing tokens in the body of %s" % fn.name)
    return b
