#!/bin/sh
# MANIFEST.setup_cmd: build the framework from files on disk only (offline).
set -e
cd "$(dirname "$0")/.."
mkdir -p work evidence
export CARGO_NET_OFFLINE=true
python3 - <<'PY'
import sys, os
sys.path.insert(0, "tools")
import vlib
ok, msg = vlib.run_translators()
print(msg)
PY
JOBS=16 coq/build.sh -k || echo "setup: some Coq files failed to build (reported per property by the checks)"
(cd harness && RUSTFLAGS="--cfg layout21_verif" CARGO_TARGET_DIR=/verif/work/target cargo build --offline) || echo "setup: harness build failed (reported by the checks)"
python3 tools/warm_pa.py || true
