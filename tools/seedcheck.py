#!/usr/bin/env python3
"""Confirms seeded changes delivered by an independent sub-agent and runs the checks against them.
usage: seedcheck.py <Cxx> <worktree> [--checks Cxx,Cyy] [--only m1,m2]
For each <worktree>/OUT/m*/ (patch.diff, demo.rs, meta.json):
  1. apply the patch in the worktree; the whole test suite must still pass (known failure ignored);
  2. the demonstration must FAIL with the patch;
  3. run the registered quick check(s) against the patched worktree (VERIF_REPO=<worktree>);
  4. revert; the demonstration must PASS without the patch.
Confirmed changes are stored under /verif/seeded/<Cxx>-<mN>/ with meta.json extended by what was run and which check caught it."""
import json, os, re, shutil, subprocess, sys, time

VERIF = os.path.dirname(os.path.dirname(os.path.abspath(__file__)))
KNOWN_FAIL = {"tests::it_has_gds_properties", "gds21::tests::it_has_gds_properties"}

def sh(cmd, cwd, env=None, timeout=3600):
    e = dict(os.environ); e["CARGO_NET_OFFLINE"] = "true"
    if env: e.update(env)
    p = subprocess.run(cmd, shell=True, cwd=cwd, env=e, stdout=subprocess.PIPE, stderr=subprocess.STDOUT, text=True, timeout=timeout)
    return p.returncode, p.stdout

def main():
    pid, wt = sys.argv[1], os.path.abspath(sys.argv[2])
    checks = [pid]
    only = None
    for i, a in enumerate(sys.argv):
        if a == "--checks": checks = sys.argv[i + 1].split(",")
        if a == "--only": only = sys.argv[i + 1].split(",")
    env = {"CARGO_TARGET_DIR": os.path.join(wt, "target")}
    out_root = os.path.join(wt, "OUT")
    summary = []
    for m in sorted(os.listdir(out_root)):
        d = os.path.join(out_root, m)
        if not os.path.isdir(d) or (only and m not in only):
            continue
        patch = os.path.join(d, "patch.diff")
        meta = json.load(open(os.path.join(d, "meta.json"))) if os.path.exists(os.path.join(d, "meta.json")) else {}
        demos = [f for f in os.listdir(d) if f.endswith(".rs")]
        res = {"mutant": m, "property": pid}
        sh("git checkout -q -- . && git clean -fdq -e OUT -e target", wt)
        rc, o = sh("git apply --check %s && git apply %s" % (patch, patch), wt)
        if rc != 0:
            res["error"] = "patch does not apply: " + o[-300:]; summary.append(res); continue
        # 1. test suite
        rc, o = sh("cargo test --workspace --offline --no-fail-fast 2>&1", wt, env)
        failed = set(re.findall(r"^test (\S+) \.\.\. FAILED", o, re.M))
        compiled = "could not compile" not in o
        res["suite_compiles"] = compiled
        res["suite_failures"] = sorted(failed)
        res["suite_ok"] = compiled and failed <= KNOWN_FAIL
        # 2. demo with patch
        crate = None
        demo_res = None
        if demos:
            src = open(os.path.join(d, demos[0])).read()
            mm = re.search(r"-p\s+([A-Za-z0-9_]+)", src) or re.search(r"-p\s+([A-Za-z0-9_]+)", json.dumps(meta))
            crate = mm.group(1) if mm else None
            if crate and os.path.isdir(os.path.join(wt, crate)):
                os.makedirs(os.path.join(wt, crate, "tests"), exist_ok=True)
                shutil.copy(os.path.join(d, demos[0]), os.path.join(wt, crate, "tests", "seed_demo.rs"))
                rc, o = sh("cargo test -p %s --test seed_demo --offline 2>&1" % crate, wt, env)
                res["demo_with_patch_fails"] = (rc != 0 and "could not compile" not in o)
                res["demo_with_patch_tail"] = o[-400:]
        # 3. checks against the patched tree (demo file removed first so it cannot matter)
        if crate:
            try: os.remove(os.path.join(wt, crate, "tests", "seed_demo.rs"))
            except OSError: pass
        res["checks"] = {}
        for c in checks:
            t0 = time.time()
            rc, o = sh("python3 tools/verif.py %s --tier quick 2>&1" % c, VERIF, {"VERIF_REPO": wt})
            lines = [l for l in o.splitlines() if l.startswith("VIOLATION") or l.startswith("KNOWN-FINDING")]
            res["checks"][c] = {"exit": rc, "lines": [l[:300] for l in lines], "detail": [l[:400] for l in o.splitlines() if l.startswith("violation:")][:3], "wall_s": round(time.time() - t0)}
        res["caught_by"] = [c for c, r in res["checks"].items() if r["exit"] == 1 and any(l.startswith("VIOLATION") for l in r["lines"])]
        res["caught_with_input"] = [c for c, r in res["checks"].items() if any(l.startswith("VIOLATION") and "no-failing-input-found" not in l for l in r["lines"])]
        # 4. revert, demo must pass
        sh("git apply -R %s" % patch, wt)
        if crate and demos:
            shutil.copy(os.path.join(d, demos[0]), os.path.join(wt, crate, "tests", "seed_demo.rs"))
            rc, o = sh("cargo test -p %s --test seed_demo --offline 2>&1" % crate, wt, env)
            res["demo_without_patch_passes"] = (rc == 0)
            os.remove(os.path.join(wt, crate, "tests", "seed_demo.rs"))
        res["confirmed"] = bool(res.get("suite_ok") and res.get("demo_with_patch_fails") and res.get("demo_without_patch_passes"))
        if res["confirmed"]:
            dst = os.path.join(VERIF, "seeded", "%s-%s" % (pid, m))
            os.makedirs(dst, exist_ok=True)
            shutil.copy(patch, os.path.join(dst, "patch.diff"))
            for f in demos:
                shutil.copy(os.path.join(d, f), os.path.join(dst, f))
            meta.update({"property": pid, "confirmed_by_coordinator": {k: res[k] for k in ("suite_ok", "suite_failures", "demo_with_patch_fails", "demo_without_patch_passes")},
                         "what_i_ran": ["git apply patch.diff in a scratch worktree of /repo HEAD", "cargo test --workspace --offline --no-fail-fast", "cargo test -p %s --test seed_demo --offline (with and without the patch)" % crate,
                                        "VERIF_REPO=<worktree> python3 tools/verif.py <check> --tier quick"],
                         "checks": res["checks"], "caught_by": res["caught_by"], "caught_with_failing_input": res["caught_with_input"]})
            json.dump(meta, open(os.path.join(dst, "meta.json"), "w"), indent=1)
        summary.append(res)
        print(json.dumps({k: res.get(k) for k in ("mutant", "confirmed", "suite_ok", "suite_failures", "demo_with_patch_fails", "demo_without_patch_passes", "caught_by", "caught_with_input", "error")}))
        sys.stdout.flush()
    sh("git checkout -q -- . && git clean -fdq -e OUT -e target", wt)
    json.dump(summary, open(os.path.join(VERIF, "work", "seedcheck-%s.json" % pid), "w"), indent=1)

if __name__ == "__main__":
    main()
