#!/usr/bin/env python3
"""setup helper: fills the Print Assumptions cache (vlib.print_assumptions, keyed by the digest of the compiled module) for the
kernel-tie proof files, in parallel, so that the first quick run of a check does not pay for walking the large proof terms.
Purely an optimisation: a missing or stale entry is recomputed by the check itself."""
import os, sys
from concurrent.futures import ThreadPoolExecutor
sys.path.insert(0, os.path.join(os.path.dirname(os.path.abspath(__file__))))
sys.path.insert(0, os.path.join(os.path.dirname(os.path.abspath(__file__)), "props"))
import vlib
from kernelcommon import FAMILIES

def one(item):
    fam, (tie_file, tie_mod, _prop, _what) = item
    try:
        names = [n for n in vlib.theorem_names(os.path.join(vlib.COQ, tie_file)) if n.startswith("tie_")]
        rd = os.path.join(vlib.WORK, "run", "warm.%s.%d" % (fam, os.getpid()))
        ax, _ = vlib.print_assumptions(tie_mod, names, rd)
        import shutil; shutil.rmtree(rd, ignore_errors=True)
        return fam, ax is not None
    except Exception as e:          # never fail the setup on this
        return fam, False

with ThreadPoolExecutor(16) as ex:
    res = list(ex.map(one, FAMILIES.items()))
print("print-assumptions cache warmed for %d of %d kernel families" % (sum(1 for _, ok in res if ok), len(res)))
