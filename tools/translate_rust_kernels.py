#!/usr/bin/env python3
"""Translator: small PURE ARITHMETIC KERNELS of /repo (Rust) -> coq/Gen/KernelsGen.v (Gallina), regenerated on every run.

Unlike the other translators this one has a real tokenizer and recursive-descent parser (tools/rustsubset.py, the
grammar is in its docstring) and a type-directed code generator.  Every function listed in TARGETS below, and every
function it calls, becomes ONE Gallina definition `g_<Type>_<fn>`; every struct it touches becomes a record `g<Struct>`.
The definitions are parametric in the record of primitive operations `kops M F I` of coq/Base/KernelOps.v (an effect
M, the f64 carrier F, the integer carrier I), so that the same generated term is read at the ring level, at the float
level and at the range-checked integer level; Geom/KernelsTie*_proofs.v and Properties/Kernels.v prove each reading EQUAL
to the hand-written model of the same function.  An edit to a translated Rust function changes the generated term
and breaks that equality (`Ktie_<function>`), whether or not a sampled input happens to show the difference.

Translation scheme (what the trusted reading of the generated file relies on):
 * arithmetic (+ - * / % unary -, & | << >>), casts (`as`), `T::try_from(x).unwrap()`, `v[i]` on a Vec, calls and the
   f64 methods round/rem_euclid/to_radians/sin/cos/powi are EFFECTS, sequenced with k_bind in Rust's evaluation order
   (operands left to right, then the operation); comparisons, min/max, projections `a[0][1]`, `p.x`, `t.0`, literals,
   `.clone()`, `&`, `*` are pure;
 * `a >= b` is emitted as `le b a`, `a > b` as `lt b a`, `a != b` as `negb (eq a b)`; `&&`/`||` short-circuit when the
   right operand has an effect and are `andb`/`orb` otherwise;
 * `let` and assignment (`=`, `+=`, `-=`, `*=`, `/=`, to a local, an array cell, a field, a tuple of locals) become
   `let`/k_bind with the variable shadowed; an assignment to `b[0]` rebuilds the pair, one to `s.f` rebuilds the record;
 * an `if` (or `if let Some(x) = ..`) in statement position takes the REST of the block into both branches, so that
   `return` and assignments inside it need no join; `return e` ends the function with e;
 * `for i in lo..hi { body }` / `for x in vec { body }`: the body becomes its own definition `g_<fn>_loop<n>`, a function
   of the loop variable and the tuple of the variables the loop assigns, returning `Brk v` (a `return v` in the body) or
   `Cont state`; the loop is `k_for` / `k_foreach` over it;
 * a `&mut self` method returns the new `self`;
 * functions named in EXTERN for a target are not inlined there: the generated definition takes them as arguments.
Anything else (match, closures, while, strings, generics, traits objects, ...) is outside the subset: if a TARGET or
something it calls no longer fits, the script prints `FAILED family=<family> fn=<function>: <where and why>`, leaves that
function out of the generated file (so the tie lemmas about it no longer build) and exits 1 (a broken tie, DESIGN.md 2.3).

Honours VERIF_REPO / VERIF_COQ_DIR; rewrites its output only when the content changes."""
import os, sys
sys.path.insert(0, os.path.dirname(os.path.abspath(__file__)))
from rustsubset import Unsupported, N, parse_source, parse_fn_body, type_key

VERIF = os.path.dirname(os.path.dirname(os.path.abspath(__file__)))
REPO = os.environ.get("VERIF_REPO", "/repo")
COQ_DIR = os.environ.get("VERIF_COQ_DIR", os.path.join(VERIF, "coq"))
OUT = os.path.join(COQ_DIR, "Gen", "KernelsGen.v")

# source files read (structs, type aliases and function items are collected from all of them)
FILES = ["layout21raw/src/data.rs", "layout21raw/src/geom.rs", "layout21raw/src/bbox.rs", "gds21/src/data.rs"]
# only `type` aliases are taken from these (their functions are not candidates)
ALIAS_ONLY = {"layout21raw/src/data.rs"}
# the functions that MUST translate, by family (a family = one tie-proof file)
TARGETS = [
    # family "transform" (C12, C06, C07): layout21raw/src/geom.rs
    ("transform", "matmul"), ("transform", "matvec"), ("transform", "Transform::identity"), ("transform", "Transform::translate"),
    ("transform", "Transform::rotate"), ("transform", "Transform::reflect_vert"), ("transform", "Transform::from_instance"),
    ("transform", "Transform::cascade"), ("transform", "Point::transform"), ("transform", "sin_cos_degrees"),
    ("transform", "Rect::transform"),
    # family "contains" (C13): layout21raw/src/geom.rs, bbox.rs
    ("contains", "Point::new"), ("contains", "Rect::contains"), ("contains", "Path::contains"), ("contains", "Polygon::contains"),
    ("contains", "BoundBox::empty"), ("contains", "BoundBox::contains"), ("contains", "BoundBox::union"), ("contains", "Point::bbox"),
    ("contains", "Vec_Point::bbox"),
    # family "raw" (label placement of the GDSII export, Raw/RawGdsExport.v)
    ("raw", "Rect::center"), ("raw", "BoundBox::center"), ("raw", "Vec_Point::bbox"),
    # family "gds": gds21/src/data.rs
    ("gds", "GdsFloat64::decode"),
]
# callee kept abstract (an argument of the generated definition) in the given target
EXTERN = {"Transform::rotate": ["sin_cos_degrees"], "Transform::from_instance": ["sin_cos_degrees"]}

INT_TAG = {"isize": "Isize", "usize": "Usize", "i128": "I128", "u64": "U64", "i64": "I64", "i32": "I32", "u32": "U32",
           "i16": "I16", "u8": "U8"}
RESERVED = {"M", "F", "I", "ops", "fst", "snd", "negb", "andb", "orb", "Some", "None", "true", "false", "tt", "nil", "cons",
            "list", "option", "bool", "unit", "Z", "pair", "fix", "end", "in", "at", "as", "match", "exists", "fun", "let",
            "if", "then", "else", "return", "with", "Type", "Set", "Prop", "forall", "struct", "where", "using", "Brk", "Cont",
            "ctrl", "kops", "nat", "O", "S", "cofix", "for"}

def mangle(name):
    return name + "_" if (name in RESERVED or name.startswith("g_") or name.startswith("ext_") or name.startswith("t__")) else name

class Val:
    """a translated expression: kind 'P' (pure Gallina term of the value's type) or 'M' (term of type M <type>)"""
    def __init__(self, kind, term, ty):
        self.kind, self.term, self.ty = kind, term, ty

class World:
    def __init__(self):
        self.structs, self.fns, self.aliases = {}, {}, {}
        self.struct_src, self.fn_src = {}, {}
    def load(self, rel):
        path = os.path.join(REPO, rel)
        try:
            text = open(path, encoding="utf8").read()
        except OSError as ex:
            raise Unsupported("cannot read %s: %s" % (path, ex))
        out = parse_source(text, rel)
        for k, v in out["aliases"].items():
            self.aliases[k] = v
        if rel in ALIAS_ONLY:
            return
        for k, v in out["structs"].items():
            if k in self.structs and self.structs[k] != v:
                raise Unsupported("struct %s is defined differently in %s and %s" % (k, self.struct_src[k], rel))
            self.structs[k] = v; self.struct_src[k] = rel
        for k, v in out["fns"].items():
            if k in self.fns:
                # the same qualified name twice (e.g. two impls of a trait method): keep the first, remember the clash
                self.fns[k].clash = True
                continue
            v.clash = False
            self.fns[k] = v; self.fn_src[k] = rel

    def resolve(self, ty, self_ty=None):
        """expand aliases and Self; named types must be known structs"""
        if ty is None:
            raise Unsupported("a type outside the subset is needed here")
        k = ty[0]
        if k == "self":
            if self_ty is None:
                raise Unsupported("`Self` outside an impl")
            return self.resolve(self_ty)
        if k == "named":
            if ty[1] in self.aliases:
                return self.resolve(self.aliases[ty[1]])
            if ty[1] in self.structs:
                return ("struct", ty[1])
            raise Unsupported("type %s is not a struct or alias of the translated files" % ty[1])
        if k == "arr":
            return ("arr", self.resolve(ty[1], self_ty), ty[2])
        if k == "tup":
            return ("tup", tuple(self.resolve(t, self_ty) for t in ty[1]))
        if k in ("vec", "opt"):
            return (k, self.resolve(ty[1], self_ty))
        return ty

def cty(ty):
    k = ty[0]
    if k == "f64":
        return "F"
    if k == "int":
        return "I"
    if k == "bool":
        return "bool"
    if k == "unit":
        return "unit"
    if k == "arr":
        if ty[2] != 2:
            raise Unsupported("arrays of length %d (only [T; 2] is in the subset)" % ty[2])
        return "(%s * %s)" % (cty(ty[1]), cty(ty[1]))
    if k == "tup":
        return "(" + " * ".join(cty(t) for t in ty[1]) + ")"
    if k == "struct":
        return "(g%s F I)" % ty[1]
    if k == "vec":
        return "(list %s)" % cty(ty[1])
    if k == "opt":
        return "(option %s)" % cty(ty[1])
    raise Unsupported("type %r has no Gallina rendering" % (ty,))

def tag(ty):
    if ty[0] != "int" or ty[1] not in INT_TAG:
        raise Unsupported("integer type %r is not supported" % (ty,))
    return INT_TAG[ty[1]]

def untyped_int(e):
    if e.kind == "int":
        return e.suffix is None
    if e.kind == "un" and e.op == "-":
        return untyped_int(e.e)
    if e.kind == "bin" and e.op in ("+", "-", "*", "/", "%"):
        return untyped_int(e.l) and untyped_int(e.r)
    return False

def names_used(node, acc):
    """identifiers that occur as single-segment paths (and `self`) in an AST"""
    if isinstance(node, N):
        if node.kind == "path" and len(node.segs) == 1:
            acc.add(node.segs[0])
        for k, v in node.__dict__.items():
            if k in ("kind", "line"):
                continue
            names_used(v, acc)
    elif isinstance(node, (list, tuple)):
        for x in node:
            names_used(x, acc)
    return acc

def lvalue_root(e):
    while e.kind in ("field", "index", "tupidx"):
        e = e.e
    if e.kind == "path" and len(e.segs) == 1:
        return e.segs[0]
    return None

def assigned_roots(node, acc):
    if isinstance(node, N):
        if node.kind == "assign":
            if node.lhs.kind == "tuple":
                for x in node.lhs.es:
                    r = lvalue_root(x)
                    if r:
                        acc.append(r)
            else:
                r = lvalue_root(node.lhs)
                if r:
                    acc.append(r)
        for k, v in node.__dict__.items():
            if k in ("kind", "line"):
                continue
            assigned_roots(v, acc)
    elif isinstance(node, (list, tuple)):
        for x in node:
            assigned_roots(x, acc)
    return acc

def let_names(node, acc):
    if isinstance(node, N):
        if node.kind == "let":
            pat_names(node.pat, acc)
        if node.kind == "for":
            pat_names(node.pat, acc)
        if node.kind == "if" and node.letvar:
            acc.add(node.letvar)
        for k, v in node.__dict__.items():
            if k in ("kind", "line"):
                continue
            let_names(v, acc)
    elif isinstance(node, (list, tuple)):
        for x in node:
            let_names(x, acc)
    return acc

def pat_names(p, acc):
    if p.kind == "pvar":
        acc.add(p.name)
    elif p.kind == "ptup":
        for q in p.pats:
            pat_names(q, acc)
    return acc

class FnGen:
    def __init__(self, tr, fn):
        self.tr, self.w, self.fn = tr, tr.w, fn
        self.self_ty = self.w.resolve(fn.self_ty) if fn.self_ty is not None else None
        self.tmp = 0
        self.aux = []
        self.nloop = 0
        self.externs = EXTERN.get(fn.name, [])
        self.mut_self = False
        self.structs_used = set()

    def err(self, node, msg):
        raise Unsupported("%s:%d: in fn %s: %s" % (self.fn.fname, getattr(node, "line", self.fn.line), self.fn.name, msg))
    def fresh(self):
        self.tmp += 1
        return "t__%d" % self.tmp
    def res(self, ty, node=None):
        try:
            t = self.w.resolve(ty, self.fn.self_ty)
        except Unsupported as ex:
            self.err(node or self.fn, str(ex))
        self.note_struct(t)
        return t
    def note_struct(self, t):
        if t[0] == "struct":
            self.structs_used.add(t[1])
        elif t[0] in ("arr", "vec", "opt"):
            self.note_struct(t[1])
        elif t[0] == "tup":
            for x in t[1]:
                self.note_struct(x)

    # ---- plumbing
    def ret(self, term):
        return "(k_ret ops %s)" % term
    def toM(self, v):
        return v.term if v.kind == "M" else self.ret(v.term)
    def seq(self, vals, build):
        names, binders = [], []
        for v in vals:
            if v.kind == "P":
                names.append(v.term)
            else:
                t = self.fresh()
                binders.append((t, v.term)); names.append(t)
        r = build(names)
        if not binders:
            return r
        body = self.toM(r)
        for t, e in reversed(binders):
            body = "(k_bind ops %s (fun %s => %s))" % (e, t, body)
        return Val("M", body, r.ty)

    def same(self, a, b, node, what):
        if a is None:
            return b
        if b is None:
            return a
        if a != b:
            self.err(node, "type mismatch in %s: %r against %r" % (what, a, b))
        return a

    # ---- patterns
    def pat_str(self, p):
        if p.kind == "pvar":
            return mangle(p.name)
        if p.kind == "pwild":
            return "_"
        return "(" + ", ".join(self.pat_str(q) for q in p.pats) + ")"
    def pat_bind(self, p, ty, env, node):
        if p.kind == "pvar":
            env[p.name] = ty
        elif p.kind == "ptup":
            if ty is None or ty[0] != "tup" or len(ty[1]) != len(p.pats):
                self.err(node, "tuple pattern against the type %r" % (ty,))
            for q, t in zip(p.pats, ty[1]):
                self.pat_bind(q, t, env, node)
    def let_(self, p, v, restf, env, node):
        """bind pattern p to v, then the rest (a function of the extended environment)"""
        env2 = dict(env)
        self.pat_bind(p, v.ty, env2, node)
        r = restf(env2)
        ps = self.pat_str(p)
        if p.kind == "ptup":
            ps = "'" + ps
        if v.kind == "P":
            return Val(r.kind, "(let %s := %s in %s)" % (ps, v.term, r.term), r.ty)
        return Val("M", "(k_bind ops %s (fun %s => %s))" % (v.term, ps, self.toM(r)), r.ty)

    # ---- expressions
    def ex(self, e, env, expect=None):
        k = e.kind
        if k == "int":
            if e.suffix:
                ty = ("int", e.suffix)
            elif expect is not None and expect[0] == "int":
                ty = expect
            elif expect is not None and expect[0] == "f64":
                self.err(e, "integer literal where an f64 is expected")
            else:
                ty = ("int", "i32")
            tag(ty)
            return Val("P", "(i_lit ops %d)" % e.val if e.val >= 0 else "(i_lit ops (%d))" % e.val, ty)
        if k == "float":
            if e.mant == 0:
                return Val("P", "(f_zero ops)", ("f64",))
            if e.mant == 1 and e.e10 == 0:
                return Val("P", "(f_one ops)", ("f64",))
            return Val("P", "(f_lit ops %d (%d))" % (e.mant, e.e10), ("f64",))
        if k == "bool":
            return Val("P", "true" if e.val else "false", ("bool",))
        if k == "path":
            return self.ex_path(e, env)
        if k == "field":
            b = self.ex(e.e, env)
            def build(ns):
                ty = b.ty
                if ty is None or ty[0] != "struct":
                    self.err(e, "field .%s of a value of type %r" % (e.name, ty))
                for fn, ft in self.w.structs[ty[1]]:
                    if fn == e.name:
                        return Val("P", "(g%s_%s %s)" % (ty[1], fn, ns[0]), self.res(ft, e))
                self.err(e, "struct %s has no field %s" % (ty[1], e.name))
            return self.seq([b], build)
        if k == "tupidx":
            b = self.ex(e.e, env)
            def build(ns):
                ty = b.ty
                if ty is None or ty[0] != "tup" or e.idx >= len(ty[1]):
                    self.err(e, "tuple index .%d of a value of type %r" % (e.idx, ty))
                return Val("P", self.tup_proj(ns[0], len(ty[1]), e.idx), ty[1][e.idx])
            return self.seq([b], build)
        if k == "index":
            b = self.ex(e.e, env)
            if b.ty is not None and b.ty[0] == "arr":
                if e.idx.kind != "int" or e.idx.val not in (0, 1) or b.ty[2] != 2:
                    self.err(e, "index into a fixed array must be the literal 0 or 1 of a [T; 2]")
                return self.seq([b], lambda ns: Val("P", "(%s %s)" % ("fst" if e.idx.val == 0 else "snd", ns[0]), b.ty[1]))
            if b.ty is not None and b.ty[0] == "vec":
                i = self.ex(e.idx, env, ("int", "usize"))
                if i.ty != ("int", "usize"):
                    self.err(e, "Vec index of type %r" % (i.ty,))
                return self.seq([b, i], lambda ns: Val("M", "(v_get ops %s %s)" % (ns[0], ns[1]), b.ty[1]))
            self.err(e, "index into a value of type %r" % (b.ty,))
        if k == "un":
            if e.op == "-":
                if untyped_int(e) and e.e.kind == "int":
                    ty = expect if (expect is not None and expect[0] == "int") else ("int", "i32")
                    tag(ty)
                    return Val("P", "(i_lit ops (-%d))" % e.e.val, ty)
                a = self.ex(e.e, env, expect)
                if a.ty == ("f64",):
                    return self.seq([a], lambda ns: Val("M", "(f_neg ops %s)" % ns[0], a.ty))
                if a.ty is not None and a.ty[0] == "int":
                    return self.seq([a], lambda ns: Val("M", "(i_neg ops %s %s)" % (tag(a.ty), ns[0]), a.ty))
                self.err(e, "unary minus on %r" % (a.ty,))
            a = self.ex(e.e, env, expect)
            if a.ty != ("bool",):
                self.err(e, "`!` on %r (only bool is in the subset)" % (a.ty,))
            return self.seq([a], lambda ns: Val("P", "(negb %s)" % ns[0], ("bool",)))
        if k == "bin":
            return self.ex_bin(e, env, expect)
        if k == "cast":
            a = self.ex(e.e, env, None if not untyped_int(e.e) else None)
            to = self.res(e.ty, e)
            if a.ty is None:
                self.err(e, "cast of a diverging expression")
            if a.ty[0] == "int" and to == ("f64",):
                return self.seq([a], lambda ns: Val("M", "(i_to_f ops %s %s)" % (tag(a.ty), ns[0]), to))
            if a.ty == ("f64",) and to[0] == "int":
                return self.seq([a], lambda ns: Val("M", "(f_to_i ops %s %s)" % (tag(to), ns[0]), to))
            if a.ty[0] == "int" and to[0] == "int":
                if a.ty == to:
                    return a
                return self.seq([a], lambda ns: Val("M", "(i_cast ops %s %s %s)" % (tag(a.ty), tag(to), ns[0]), to))
            if a.ty == to:
                return a
            self.err(e, "cast from %r to %r" % (a.ty, to))
        if k == "call":
            return self.ex_call(e, env, expect)
        if k == "mcall":
            return self.ex_mcall(e, env, expect)
        if k == "tuple":
            exps = expect[1] if (expect is not None and expect[0] == "tup" and len(expect[1]) == len(e.es)) else [None] * len(e.es)
            vs = [self.ex(x, env, t) for x, t in zip(e.es, exps)]
            if not vs:
                return Val("P", "tt", ("unit",))
            if any(v.ty is None for v in vs):
                self.err(e, "diverging component in a tuple")
            return self.seq(vs, lambda ns: Val("P", "(" + ", ".join(ns) + ")", ("tup", tuple(v.ty for v in vs))))
        if k == "array":
            elt = expect[1] if (expect is not None and expect[0] == "arr") else None
            if len(e.es) != 2:
                self.err(e, "array literal of length %d (only [T; 2] is in the subset)" % len(e.es))
            vs = []
            for x in e.es:
                v = self.ex(x, env, elt)
                elt = self.same(elt, v.ty, e, "array literal")
                vs.append(v)
            return self.seq(vs, lambda ns: Val("P", "(%s, %s)" % (ns[0], ns[1]), ("arr", elt, 2)))
        if k == "veclit":
            elt = expect[1] if (expect is not None and expect[0] == "vec") else None
            vs = []
            for x in e.es:
                v = self.ex(x, env, elt)
                elt = self.same(elt, v.ty, e, "vec! literal")
                vs.append(v)
            if elt is None:
                self.err(e, "cannot type an empty vec! literal")
            return self.seq(vs, lambda ns: Val("P", "(" + " :: ".join(ns + ["nil"]) + ")", ("vec", elt)))
        if k == "structlit":
            name = e.name
            if name == "Self":
                if self.self_ty is None or self.self_ty[0] != "struct":
                    self.err(e, "`Self { .. }` outside a struct impl")
                name = self.self_ty[1]
            elif name in self.w.aliases:
                t = self.res(("named", name), e)
                name = t[1] if t[0] == "struct" else name
            if name not in self.w.structs:
                self.err(e, "struct literal of unknown struct %s" % name)
            self.structs_used.add(name)
            decl = self.w.structs[name]
            given = dict(e.fields)
            if set(given) != {f for f, _ in decl} or len(e.fields) != len(decl):
                self.err(e, "struct literal %s does not list exactly the declared fields" % name)
            # Rust evaluates the field expressions in the order WRITTEN; the record is built in declaration order
            written = [(f, self.ex(x, env, self.res(dict(decl)[f], e))) for f, x in e.fields]
            for f, v in written:
                self.same(self.res(dict(decl)[f], e), v.ty, e, "field %s of %s" % (f, name))
            def build(ns):
                m = {f: n for (f, _), n in zip(written, ns)}
                return Val("P", "(mk_g%s %s)" % (name, " ".join(m[f] for f, _ in decl)), ("struct", name))
            return self.seq([v for _, v in written], build)
        if k in ("block", "if"):
            # a block used as a VALUE: what it assigns would not flow out of it in this translation
            esc = [r for r in assigned_roots(e, []) if r in env and r not in let_names(e, set())]
            if esc:
                self.err(e, "assignment to %s inside a block that is used as a value" % ", ".join(sorted(set(esc))))
            if k == "block":
                return self.stmts(e.stmts, env, KValue(self, expect))
            return self.stmts([N("exprstmt", e.line, e=e, semi=False)], env, KValue(self, expect))
        if k == "macro":
            if e.name in ("unimplemented", "unreachable", "todo", "panic"):
                return Val("M", "(k_panic ops)", None)
            self.err(e, "macro %s! is outside the subset" % e.name)
        if k == "return":
            self.err(e, "`return` inside an expression (only as a statement of a block in tail position)")
        self.err(e, "expression kind %s is outside the subset" % k)

    def tup_proj(self, term, n, i):
        # Coq tuples are left-nested pairs: (a, b, c) = ((a, b), c)
        t = term
        for _ in range(n - 1 - i):
            t = "(fst %s)" % t
        if i == 0:
            return t if n > 1 else term
        return "(snd %s)" % t

    def ex_path(self, e, env):
        segs = e.segs
        if len(segs) == 1:
            nm = segs[0]
            if nm in env:
                return Val("P", mangle(nm), env[nm])
            self.err(e, "unknown name %s" % nm)
        if len(segs) == 2 and segs[1] in ("MAX", "MIN"):
            t = self.res(("named", segs[0]) if segs[0] not in INT_TAG else ("int", segs[0]), e)
            if t[0] == "int":
                return Val("P", "(i_%sval ops %s)" % ("max" if segs[1] == "MAX" else "min", tag(t)), t)
        self.err(e, "path %s is outside the subset" % "::".join(segs))

    ARITH_F = {"+": "f_add", "-": "f_sub", "*": "f_mul", "/": "f_div"}
    ARITH_I = {"+": "i_add", "-": "i_sub", "*": "i_mul", "/": "i_div", "%": "i_rem", "&": "i_and", "|": "i_or",
               "<<": "i_shl", ">>": "i_shr"}

    def operands(self, e, env, expect):
        """both operands typed alike (an unsuffixed integer literal takes the type of the other side)"""
        if untyped_int(e.l) and not untyped_int(e.r):
            r = self.ex(e.r, env, expect)
            l = self.ex(e.l, env, r.ty)
        else:
            l = self.ex(e.l, env, expect)
            r = self.ex(e.r, env, l.ty if l.ty is not None else expect)
        return l, r

    def arith(self, op, lt, node):
        if lt == ("f64",):
            if op not in self.ARITH_F:
                self.err(node, "operator %s on f64" % op)
            return lambda a, b: "(%s ops %s %s)" % (self.ARITH_F[op], a, b)
        if lt is not None and lt[0] == "int":
            return lambda a, b: "(%s ops %s %s %s)" % (self.ARITH_I[op], tag(lt), a, b)
        self.err(node, "operator %s on %r" % (op, lt))

    def ex_bin(self, e, env, expect):
        op = e.op
        if op in ("&&", "||"):
            l = self.ex(e.l, env, ("bool",))
            r = self.ex(e.r, env, ("bool",))
            if l.ty != ("bool",) or r.ty != ("bool",):
                self.err(e, "%s on %r, %r" % (op, l.ty, r.ty))
            if r.kind == "P":
                f = "andb" if op == "&&" else "orb"
                return self.seq([l], lambda ns: Val("P", "(%s %s %s)" % (f, ns[0], r.term), ("bool",)))
            if op == "&&":
                return self.seq([l], lambda ns: Val("M", "(if %s then %s else %s)" % (ns[0], r.term, self.ret("false")), ("bool",)))
            return self.seq([l], lambda ns: Val("M", "(if %s then %s else %s)" % (ns[0], self.ret("true"), r.term), ("bool",)))
        if op in ("==", "!=", "<", "<=", ">", ">="):
            l, r = self.operands(e, env, None)
            ty = self.same(l.ty, r.ty, e, "comparison")
            if ty == ("f64",):
                p = "f_"
            elif ty is not None and ty[0] == "int":
                p = "i_"
            else:
                self.err(e, "comparison of %r" % (ty,))
            def build(ns):
                a, b = ns
                t = {"==": "(%seq ops %s %s)" % (p, a, b), "!=": "(negb (%seq ops %s %s))" % (p, a, b),
                     "<": "(%slt ops %s %s)" % (p, a, b), "<=": "(%sle ops %s %s)" % (p, a, b),
                     ">": "(%slt ops %s %s)" % (p, b, a), ">=": "(%sle ops %s %s)" % (p, b, a)}[op]
                return Val("P", t, ("bool",))
            return self.seq([l, r], build)
        if op in ("<<", ">>"):
            l = self.ex(e.l, env, expect)
            r = self.ex(e.r, env, None)
            if l.ty is None or l.ty[0] != "int" or r.ty is None or r.ty[0] != "int":
                self.err(e, "shift of %r by %r" % (l.ty, r.ty))
            return self.seq([l, r], lambda ns: Val("M", "(%s ops %s %s %s)" % (self.ARITH_I[op], tag(l.ty), ns[0], ns[1]), l.ty))
        if op in ("+", "-", "*", "/", "%", "&", "|"):
            l, r = self.operands(e, env, expect)
            ty = self.same(l.ty, r.ty, e, "operator " + op)
            f = self.arith(op, ty, e)
            return self.seq([l, r], lambda ns: Val("M", f(ns[0], ns[1]), ty))
        self.err(e, "operator %s is outside the subset" % op)

    def callee(self, qn, node):
        if qn not in self.w.fns:
            self.err(node, "call to %s, which is not a function of the translated files" % qn)
        f = self.w.fns[qn]
        if f.clash:
            self.err(node, "%s is defined more than once (ambiguous)" % qn)
        return f

    def emit_call(self, f, args_nodes, recv_val, env, node):
        """call of the translated (or extern) function item f; recv_val: already translated receiver or None"""
        sig = self.tr.signature(f)
        params = sig["params"]
        vals = []
        pi = 0
        if recv_val is not None:
            if not params or params[0][0] != "self":
                self.err(node, "%s is not a method" % f.name)
            if sig["mut_self"]:
                self.err(node, "call of the `&mut self` method %s is outside the subset" % f.name)
            self.same(params[0][1], recv_val.ty, node, "receiver of %s" % f.name)
            vals.append(recv_val); pi = 1
        if len(params) - pi != len(args_nodes):
            self.err(node, "%s takes %d arguments, %d given" % (f.name, len(params) - pi, len(args_nodes)))
        for (pn, pt), a in zip(params[pi:], args_nodes):
            v = self.ex(a, env, pt)
            self.same(pt, v.ty, node, "argument %s of %s" % (pn, f.name))
            vals.append(v)
        if f.name in self.externs:
            head = "ext_" + f.name.replace("::", "_")
        else:
            if EXTERN.get(f.name):
                self.err(node, "%s has abstract callees and cannot be called from a translated function" % f.name)
            self.tr.need(f.name)
            head = "g_" + f.name.replace("::", "_")
        self.note_struct(sig["ret"])
        if not vals:
            return Val("M", head, sig["ret"])
        return self.seq(vals, lambda ns: Val("M", "(%s %s)" % (head, " ".join(ns)), sig["ret"]))

    def ex_call(self, e, env, expect):
        segs = e.path
        if len(segs) == 2 and segs[1] == "try_from" and len(e.args) == 1:
            to = self.res(("named", segs[0]) if segs[0] not in INT_TAG else ("int", segs[0]), e)
            a = self.ex(e.args[0], env)
            if to[0] != "int" or a.ty is None or a.ty[0] != "int":
                self.err(e, "try_from between %r and %r" % (a.ty, to))
            return Val(a.kind, a.term, ("tryres", a.ty, to))
        if len(segs) == 1:
            qn = segs[0]
        elif len(segs) == 2:
            head = segs[0]
            if head == "Self":
                if self.self_ty is None:
                    self.err(e, "`Self::` outside an impl")
                head = type_key(self.fn.self_ty)
            qn = "%s::%s" % (head, segs[1])
        else:
            self.err(e, "call path %s" % "::".join(segs))
        return self.emit_call(self.callee(qn, e), e.args, None, env, e)

    def ex_mcall(self, e, env, expect):
        name = e.name
        r = self.ex(e.recv, env)
        ty = r.ty
        if ty is None:
            self.err(e, "method call on a diverging expression")
        if name == "clone" and not e.args:
            return r
        if ty[0] == "tryres":
            if name != "unwrap":
                self.err(e, "only `.unwrap()` may follow try_from")
            return self.seq([r], lambda ns: Val("M", "(i_try_from ops %s %s %s)" % (tag(ty[1]), tag(ty[2]), ns[0]), ty[2]))
        if ty[0] == "int":
            if name in ("min", "max") and len(e.args) == 1:
                a = self.ex(e.args[0], env, ty)
                self.same(ty, a.ty, e, "." + name)
                return self.seq([r, a], lambda ns: Val("P", "(i_%s ops %s %s)" % (name, ns[0], ns[1]), ty))
            self.err(e, "integer method .%s is outside the subset" % name)
        if ty == ("f64",):
            if name in ("round", "to_radians", "sin", "cos") and not e.args:
                return self.seq([r], lambda ns: Val("M", "(f_%s ops %s)" % (name, ns[0]), ty))
            if name == "rem_euclid" and len(e.args) == 1:
                a = self.ex(e.args[0], env, ty)
                self.same(ty, a.ty, e, ".rem_euclid")
                return self.seq([r, a], lambda ns: Val("M", "(f_rem_euclid ops %s %s)" % (ns[0], ns[1]), ty))
            if name == "powi" and len(e.args) == 1:
                a = self.ex(e.args[0], env, ("int", "i32"))
                if a.ty != ("int", "i32"):
                    self.err(e, ".powi exponent of type %r" % (a.ty,))
                return self.seq([r, a], lambda ns: Val("M", "(f_powi ops %s %s)" % (ns[0], ns[1]), ty))
            self.err(e, "f64 method .%s is outside the subset" % name)
        if ty[0] == "vec" and name == "len" and not e.args:
            return self.seq([r], lambda ns: Val("P", "(v_len ops %s)" % ns[0], ("int", "usize")))
        if ty[0] in ("struct", "vec"):
            key = ty[1] if ty[0] == "struct" else type_key(("vec", ("named", ty[1][1]))) if ty[1][0] == "struct" else None
            if key is None:
                self.err(e, "method .%s on %r" % (name, ty))
            return self.emit_call(self.callee("%s::%s" % (key, name), e), e.args, r, env, e)
        self.err(e, "method .%s on a value of type %r" % (name, ty))

    # ---- statements
    def stmts(self, lst, env, K):
        if not lst:
            return K.end(None, env)
        s, rest = lst[0], lst[1:]
        k = s.kind
        if k == "let":
            expect = self.res(s.ty, s) if s.ty is not None else None
            v = self.ex(s.init, env, expect)
            if expect is not None:
                self.same(expect, v.ty, s, "let")
            if v.ty is None:
                self.err(s, "let bound to a diverging expression")
            if v.ty[0] == "tryres":
                self.err(s, "a try_from result must be unwrapped at once")
            return self.let_(s.pat, v, lambda env2: self.stmts(rest, env2, K), env, s)
        if k == "assign":
            return self.assign(s, rest, env, K)
        if k == "return":
            if s.e is None:
                return K.ret(None, env)
            v = self.ex(s.e, env, K.ret_ty)
            return K.ret(v, env)
        if k == "for":
            return self.for_(s, rest, env, K)
        if k == "exprstmt":
            e = s.e
            if e.kind == "if":
                return self.if_(e, rest if (rest or s.semi) else None, env, K)
            if e.kind == "block":
                inner = list(e.stmts)
                self.no_capture(inner, rest, s)
                if rest or s.semi:
                    inner = self.as_stmts(inner)
                return self.stmts(inner + rest, env, K)
            if e.kind == "return":
                return self.stmts([N("return", e.line, e=e.e)], env, K)
            if not rest and not s.semi:
                v = self.ex(e, env, K.val_ty)
                return K.end(v, env)
            v = self.ex(e, env)
            r = self.stmts(rest, env, K)
            if v.kind == "P":
                return r
            if v.ty is None:
                return v       # a panic: nothing after it runs
            return Val("M", "(k_bind ops %s (fun _ => %s))" % (v.term, self.toM(r)), r.ty)
        self.err(s, "statement kind %s is outside the subset" % k)

    def as_stmts(self, lst):
        """a block whose value is not used: its tail expression is a statement"""
        if lst and lst[-1].kind == "exprstmt" and not lst[-1].semi:
            return lst[:-1] + [N("exprstmt", lst[-1].line, e=lst[-1].e, semi=True)]
        return lst

    def no_capture(self, inner, rest, node):
        """the rest of the enclosing block is moved INTO the branch: a name bound in the branch must not be used after it"""
        if not rest:
            return
        bound = let_names(inner, set())
        used = names_used(rest, set())
        clash = bound & used
        if clash:
            self.err(node, "the names %s are bound inside a branch and used after it (shadowing across the branch is outside the subset)" % sorted(clash))

    def if_(self, e, rest, env, K):
        """`if` whose continuation is `rest` (None: the if is the value of the block)"""
        tail = rest is None
        rest = rest or []
        then = list(e.then.stmts)
        els = list(e.els.stmts) if e.els is not None else []
        if not tail:
            then, els = self.as_stmts(then), self.as_stmts(els)
        elif e.els is None:
            then = self.as_stmts(then)
        self.no_capture(then, rest, e)
        self.no_capture(els, rest, e)
        if e.letvar is not None:
            c = self.ex(e.cond, env)
            if c.ty is None or c.ty[0] != "opt":
                self.err(e, "`if let Some(..)` on a value of type %r" % (c.ty,))
            env2 = dict(env); env2[e.letvar] = c.ty[1]
            if e.letvar in names_used(rest, set()) and e.letvar in env and rest:
                self.err(e, "`if let` shadows %s, which is used after the if" % e.letvar)
            a = self.stmts(then + rest, env2, K)
            b = self.stmts(els + rest, env, K)
            ty = self.same(a.ty, b.ty, e, "branches of if let")
            def build(ns):
                if a.kind == "P" and b.kind == "P":
                    return Val("P", "(match %s with Some %s => %s | None => %s end)" % (ns[0], mangle(e.letvar), a.term, b.term), ty)
                return Val("M", "(match %s with Some %s => %s | None => %s end)" % (ns[0], mangle(e.letvar), self.toM(a), self.toM(b)), ty)
            return self.seq([c], build)
        c = self.ex(e.cond, env, ("bool",))
        if c.ty != ("bool",):
            self.err(e, "condition of type %r" % (c.ty,))
        a = self.stmts(then + rest, env, K)
        b = self.stmts(els + rest, env, K)
        ty = self.same(a.ty, b.ty, e, "branches of if")
        def build(ns):
            if a.kind == "P" and b.kind == "P":
                return Val("P", "(if %s then %s else %s)" % (ns[0], a.term, b.term), ty)
            return Val("M", "(if %s then %s else %s)" % (ns[0], self.toM(a), self.toM(b)), ty)
        return self.seq([c], build)

    def update(self, lhs, newterm, env):
        """(root name, term for the new value of the root) for the assignment of newterm to the place lhs"""
        if lhs.kind == "path" and len(lhs.segs) == 1:
            if lhs.segs[0] not in env:
                self.err(lhs, "assignment to unknown name %s" % lhs.segs[0])
            return lhs.segs[0], newterm
        base = self.ex(lhs.e, env)
        if base.kind != "P":
            self.err(lhs, "assignment through an effectful place")
        if lhs.kind == "index":
            if base.ty[0] != "arr" or lhs.idx.kind != "int" or lhs.idx.val not in (0, 1):
                self.err(lhs, "assignment to an index other than the literal 0 or 1 of a [T; 2]")
            nb = "(%s, (snd %s))" % (newterm, base.term) if lhs.idx.val == 0 else "((fst %s), %s)" % (base.term, newterm)
            return self.update(lhs.e, nb, env)
        if lhs.kind == "field":
            if base.ty[0] != "struct":
                self.err(lhs, "field assignment on %r" % (base.ty,))
            sn = base.ty[1]
            parts = [newterm if f == lhs.name else "(g%s_%s %s)" % (sn, f, base.term) for f, _ in self.w.structs[sn]]
            return self.update(lhs.e, "(mk_g%s %s)" % (sn, " ".join(parts)), env)
        self.err(lhs, "assignment to this kind of place is outside the subset")

    def assign(self, s, rest, env, K):
        if s.lhs.kind == "tuple":
            if s.op != "=":
                self.err(s, "compound assignment to a tuple")
            pats = []
            for x in s.lhs.es:
                if not (x.kind == "path" and len(x.segs) == 1 and x.segs[0] in env):
                    self.err(s, "tuple assignment to something other than locals")
                pats.append(N("pvar", s.line, name=x.segs[0]))
            expect = ("tup", tuple(env[p.name] for p in pats))
            v = self.ex(s.rhs, env, expect)
            self.same(expect, v.ty, s, "tuple assignment")
            return self.let_(N("ptup", s.line, pats=pats), v, lambda env2: self.stmts(rest, env2, K), env, s)
        cur = self.ex(s.lhs, env)
        if cur.kind != "P":
            self.err(s, "assignment to an effectful place")
        root = lvalue_root(s.lhs)
        if root is None:
            self.err(s, "assignment to something that is not rooted at a local")
        if root == "self":
            self.mut_self = True
        rhs = self.ex(s.rhs, env, cur.ty)
        self.same(cur.ty, rhs.ty, s, "assignment")
        if s.op == "=":
            newv = rhs
        else:
            f = self.arith(s.op[0], cur.ty, s)
            newv = self.seq([rhs], lambda ns: Val("M", f(cur.term, ns[0]), cur.ty))
        def build(ns):
            rname, upd = self.update(s.lhs, ns[0], env)
            r = self.stmts(rest, env, K)
            return Val(r.kind, "(let %s := %s in %s)" % (mangle(rname), upd, r.term), r.ty)
        return self.seq([newv], build)

    def for_(self, s, rest, env, K):
        self.nloop += 1
        body = self.as_stmts(list(s.body.stmts))
        # the loop variable
        if s.hi is not None:
            lo = self.ex(s.lo, env, ("int", "usize"))
            hi = self.ex(s.hi, env, lo.ty)
            self.same(lo.ty, hi.ty, s, "range bounds")
            if lo.ty is None or lo.ty[0] != "int":
                self.err(s, "range over %r" % (lo.ty,))
            vty = lo.ty
            if s.pat.kind != "pvar":
                self.err(s, "loop pattern over a range must be a name")
        else:
            coll = self.ex(s.lo, env)
            if coll.ty is None or coll.ty[0] != "vec":
                self.err(s, "`for` over a value of type %r (a range or a Vec is in the subset)" % (coll.ty,))
            vty = coll.ty[1]
            if s.pat.kind != "pvar":
                self.err(s, "loop pattern over a Vec must be a name")
        lv = s.pat.name
        bound_in = let_names(body, set()) | {lv}
        state = []
        for r in assigned_roots(body, []):
            if r in env and r not in bound_in and r not in state:
                state.append(r)
        if "self" in state:
            self.mut_self = True
        if lv in names_used(rest, set()) and lv in env:
            self.err(s, "the loop variable %s shadows a name used after the loop" % lv)
        used = names_used(body, set())
        free = [n for n in env if n in used and n not in state and n != lv]
        st_ty = [env[n] for n in state]
        def tup(names):
            return "tt" if not names else "(" + ", ".join(mangle(n) for n in names) + ")" if len(names) > 1 else mangle(names[0])
        s_cty = "unit" if not state else cty(("tup", tuple(st_ty))) if len(state) > 1 else cty(st_ty[0])
        r_cty = cty(K.ret_ty) if K.ret_ty is not None else "unit"
        benv = dict(env); benv[lv] = vty
        kl = KLoop(self, K.ret_ty, state)
        b = self.stmts(body, benv, kl)
        lname = "g_%s_loop%d" % (self.fn.name.replace("::", "_"), self.nloop)
        params = "".join(" (%s : %s)" % (mangle(n), cty(env[n])) for n in free)
        unpack = "" if not state else ("let %s%s := st__ in " % ("'" if len(state) > 1 else "", tup(state)))
        self.aux.append("(* body of loop %d of %s (line %d): loop variable %s, state %s *)\nDefinition %s%s (%s : %s) (st__ : %s) : M (ctrl %s %s) :=\n  %s%s.\n"
                        % (self.nloop, self.fn.name, s.line, lv, tup(state), lname, params, mangle(lv), cty(vty), s_cty, r_cty, s_cty, unpack, self.toM(b)))
        bodyf = "(fun %s st__ => %s%s %s st__)" % (mangle(lv), lname, "".join(" " + mangle(n) for n in free), mangle(lv))
        after_env = dict(env)
        after = self.stmts(rest, after_env, K)
        brk = K.ret(Val("P", "v__", K.ret_ty), env)
        ty = after.ty if after.ty is not None else brk.ty
        def build(ns):
            if s.hi is not None:
                loop = "(k_for ops %s %s %s %s)" % (ns[0], ns[1], bodyf, tup(state))
            else:
                loop = "(k_foreach ops %s %s %s)" % (ns[0], bodyf, tup(state))
            cont_pat = "_" if not state else tup(state) if len(state) == 1 else "(" + tup(state)[1:]
            if len(state) > 1:
                cont = "(let '%s := st__ in %s)" % (tup(state), self.toM(after))
                cont_pat = "st__"
            else:
                cont = self.toM(after)
            return Val("M", "(k_bind ops %s (fun r__ => match r__ with Brk v__ => %s | Cont %s => %s end))" % (loop, self.toM(brk), cont_pat, cont), ty)
        return self.seq([lo, hi] if s.hi is not None else [coll], build)

class KValue:
    """continuation of a block used as a value inside an expression: no `return` through it"""
    def __init__(self, g, expect):
        self.g, self.val_ty, self.ret_ty = g, expect, None
    def end(self, v, env):
        if v is None:
            return Val("P", "tt", ("unit",))
        return v
    def ret(self, v, env):
        raise Unsupported("%s: in fn %s: `return` inside a block that is used as a value" % (self.g.fn.fname, self.g.fn.name))

class KFn:
    """end of the function body"""
    def __init__(self, g, ret_ty):
        self.g, self.val_ty, self.ret_ty = g, ret_ty, ret_ty
    def end(self, v, env):
        if v is None:
            if self.g.mut_self_sig:
                return Val("P", "self", env["self"])
            return Val("P", "tt", ("unit",))
        return v
    def ret(self, v, env):
        return self.end(v, env)

class KLoop:
    """end of a loop body: go on with the state; `return v` leaves the function"""
    def __init__(self, g, ret_ty, state):
        self.g, self.val_ty, self.ret_ty, self.state = g, ("unit",), ret_ty, state
    def end(self, v, env):
        st = "tt" if not self.state else "(" + ", ".join(mangle(n) for n in self.state) + ")" if len(self.state) > 1 else mangle(self.state[0])
        t = "(k_ret ops (Cont %s))" % st
        if v is not None and v.kind == "M":
            return Val("M", "(k_bind ops %s (fun _ => %s))" % (v.term, t), ("ctrl",))
        return Val("M", t, ("ctrl",))
    def ret(self, v, env):
        if v is None:
            return Val("M", "(k_ret ops (Brk tt))", ("ctrl",))
        return self.g.seq([v], lambda ns: Val("M", "(k_ret ops (Brk %s))" % ns[0], ("ctrl",)))

class Translator:
    def __init__(self):
        self.w = World()
        for rel in FILES:
            self.w.load(rel)
        self.done = {}        # fn name -> text
        self.order = []
        self.inprogress = set()
        self.structs_used = set()
        self.sigs = {}

    def signature(self, f):
        if f.name in self.sigs:
            return self.sigs[f.name]
        where = "%s:%d: fn %s" % (f.fname, f.line, f.name)
        if f.ret is None:
            raise Unsupported("%s: return type outside the subset (%s)" % (where, f.ret_bad))
        ps, mut_self = [], False
        for pn, pt, m in f.params:
            if pn is None:
                raise Unsupported("%s: a parameter type is outside the subset" % where)
            if pn == "self":
                if f.self_ty is None:
                    raise Unsupported("%s: self outside an impl" % where)
                ps.append(("self", self.w.resolve(f.self_ty)))
                mut_self = m
            else:
                try:
                    ps.append((pn, self.w.resolve(pt, f.self_ty)))
                except Unsupported as ex:
                    raise Unsupported("%s: parameter %s: %s" % (where, pn, ex))
        try:
            ret = self.w.resolve(f.ret, f.self_ty)
        except Unsupported as ex:
            raise Unsupported("%s: return type: %s" % (where, ex))
        if mut_self:
            if ret != ("unit",):
                raise Unsupported("%s: a `&mut self` method that also returns a value" % where)
            ret = ps[0][1]
        sig = {"params": ps, "ret": ret, "mut_self": mut_self}
        self.sigs[f.name] = sig
        return sig

    def need(self, qn):
        if qn in self.done:
            return
        if qn in self.inprogress:
            raise Unsupported("recursion through %s is outside the subset" % qn)
        if qn not in self.w.fns:
            raise Unsupported("function %s not found in %s" % (qn, ", ".join(FILES)))
        f = self.w.fns[qn]
        if f.clash:
            raise Unsupported("%s is defined more than once in the translated files" % qn)
        self.inprogress.add(qn)
        sig = self.signature(f)
        g = FnGen(self, f)
        g.mut_self_sig = sig["mut_self"]
        body = parse_fn_body(f)
        env = {}
        for pn, pt in sig["params"]:
            env[pn] = pt
            g.note_struct(pt)
        g.note_struct(sig["ret"])
        ret_ty = sig["ret"] if not sig["mut_self"] else ("unit",)
        K = KFn(g, None if ret_ty == ("unit",) else ret_ty)
        K.ret_ty = sig["ret"] if sig["mut_self"] else (None if ret_ty == ("unit",) else ret_ty)
        K.val_ty = None if ret_ty == ("unit",) else ret_ty
        stm = body.stmts
        if ret_ty == ("unit",):
            stm = g.as_stmts(list(stm))
        v = g.stmts(stm, env, K)
        real_ret = sig["ret"]
        if v.ty is not None and v.ty != real_ret and not (real_ret == ("unit",) and v.ty == ("unit",)):
            raise Unsupported("%s:%d: fn %s: body of type %r, declared %r" % (f.fname, f.line, f.name, v.ty, real_ret))
        name = "g_" + qn.replace("::", "_")
        params = "".join(" (ext_%s : %s)" % (x.replace("::", "_"), self.extern_ty(x)) for x in g.externs)
        params += "".join(" (%s : %s)" % (mangle(pn), cty(pt)) for pn, pt in sig["params"])
        txt = "".join(g.aux)
        txt += "(* %s:%d  fn %s *)\nDefinition %s%s : M %s :=\n  %s.\n" % (f.fname, f.line, qn, name, params, cty(real_ret), g.toM(v))
        self.structs_used |= g.structs_used
        self.inprogress.discard(qn)
        self.done[qn] = txt
        self.order.append(qn)

    def extern_ty(self, qn):
        sig = self.signature(self.w.fns[qn])
        return "(" + " -> ".join([cty(pt) for _, pt in sig["params"]] + ["M %s" % cty(sig["ret"])]) + ")"

    def struct_defs(self):
        out, seen = [], set()
        def visit_ty(t):
            if t[0] == "struct":
                visit(t[1])
            elif t[0] in ("arr", "vec", "opt"):
                visit_ty(t[1])
            elif t[0] == "tup":
                for x in t[1]:
                    visit_ty(x)
        def visit(name):
            if name in seen:
                return
            seen.add(name)
            fields = []
            for fn, ft in self.w.structs[name]:
                try:
                    rt = self.w.resolve(ft)
                except Unsupported as ex:
                    raise Unsupported("struct %s (%s), field %s: %s" % (name, self.w.struct_src[name], fn, ex))
                visit_ty(rt)
                fields.append((fn, rt))
            if not fields:
                out.append("(* %s  struct %s *)\nInductive g%s (F I : Type) : Type := mk_g%s.\nArguments mk_g%s {F I}.\n" % (self.w.struct_src[name], name, name, name, name))
                return
            out.append("(* %s  struct %s *)\nRecord g%s (F I : Type) : Type := mk_g%s { %s }.\nArguments mk_g%s {F I}%s.\n%s" % (
                self.w.struct_src[name], name, name, name, "; ".join("g%s_%s : %s" % (name, fn, cty(rt)) for fn, rt in fields),
                name, " _" * len(fields), "".join("Arguments g%s_%s {F I} _.\n" % (name, fn) for fn, _ in fields)))
        for s in sorted(self.structs_used):
            visit(s)
        return out

def main():
    failed = []
    try:
        tr = Translator()
    except Unsupported as ex:
        return False, "translate_rust_kernels: cannot read the sources:\n  %s" % ex
    for fam, qn in TARGETS:
        try:
            tr.need(qn)
        except Unsupported as ex:
            # the function (or one it calls) is left out of the generated file: the tie lemmas about it no longer build
            tr.inprogress.clear()
            failed.append((fam, qn, str(ex)))
    try:
        structs = tr.struct_defs()
    except Unsupported as ex:
        return False, "translate_rust_kernels: %s" % ex
    L = ["(** GENERATED by tools/translate_rust_kernels.py from %s -- do not edit." % ", ".join("/repo/" + f for f in FILES if f not in ALIAS_ONLY),
         "    One definition per Rust function (g_<Type>_<fn>), one record per struct (g<Struct>), parametric in the",
         "    primitive operations [kops M F I] of Base/KernelOps.v. The translation scheme is described there and in",
         "    the translator. Tied to the hand-written models in Geom/KernelsTie*_proofs.v, Properties/Kernels.v. *)",
         "From Coq Require Import ZArith Bool List.",
         "From L21 Require Import Base.KernelOps.",
         "",
         ]
    L += structs
    L += ["Section Kernels.",
          "Context {M : Type -> Type} {F I : Type} (ops : kops M F I).",
          ""]
    for qn in tr.order:
        L.append(tr.done[qn])
    L += ["End Kernels.", ""]
    txt = "\n".join(L)
    old = open(OUT).read() if os.path.exists(OUT) else None
    n = "%d functions, %d structs" % (len(tr.order), len(structs))
    if old != txt:
        os.makedirs(os.path.dirname(OUT), exist_ok=True)
        with open(OUT, "w") as f:
            f.write(txt)
        msg = "rewrote %s (%s)" % (OUT, n)
    else:
        msg = "unchanged %s (%s)" % (OUT, n)
    if failed:
        msg += "\ntranslate_rust_kernels: these functions no longer fit the supported subset of Rust (tools/rustsubset.py) and are left out:\n"
        msg += "\n".join("FAILED family=%s fn=%s: %s" % f for f in failed)
        return False, msg
    return True, msg

if __name__ == "__main__":
    ok, msg = main()
    print(msg)
    sys.exit(0 if ok else 1)
