#!/usr/bin/env python3
"""Translator: small PURE ARITHMETIC KERNELS of /repo (Rust) -> coq/Gen/KernelsGen.v (Gallina), regenerated on every run.

Unlike the other translators this one has a real tokenizer and recursive-descent parser (tools/rustsubset.py, the
grammar is in its docstring) and a type-directed code generator.  Every function listed in TARGETS below, and every
function it calls, becomes ONE Gallina definition `g_<Type>_<fn>`; every struct it touches becomes a record `g<Struct>`.
The definitions are parametric in the record of primitive operations `kops M F I` of coq/Base/KernelOps.v (an effect
M, the f64 carrier F, the integer carrier I), so that the same generated term is read at the ring level, at the float
level and at the range-checked integer level; Geom/KernelsTie*_proofs.v and Properties/Kernels.v prove each reading EQUAL
to the hand-written model of the same function.  An edit to a translated Rust function changes the generated term
and breaks that equality (`Ktie_<function>`), whether or not a sampled input happens to show the difference.

Translation scheme (what the trusted reading of the generated file relies on):
 * arithmetic (+ - * / % unary -, & | << >>), casts (`as`), `T::try_from(x).unwrap()`, `v[i]` on a Vec, calls and the
   f64 methods round/rem_euclid/to_radians/sin/cos/powi are EFFECTS, sequenced with k_bind in Rust's evaluation order
   (operands left to right, then the operation); comparisons, min/max, projections `a[0][1]`, `p.x`, `t.0`, literals,
   `.clone()`, `&`, `*` are pure;
 * `a >= b` is emitted as `le b a`, `a > b` as `lt b a`, `a != b` as `negb (eq a b)`; `&&`/`||` short-circuit when the
   right operand has an effect and are `andb`/`orb` otherwise;
 * `let` and assignment (`=`, `+=`, `-=`, `*=`, `/=`, to a local, an array cell, a field, a tuple of locals) become
   `let`/k_bind with the variable shadowed; an assignment to `b[0]` rebuilds the pair, one to `s.f` rebuilds the record;
 * an `if` (or `if let Some(x) = ..`) in statement position takes the REST of the block into both branches, so that
   `return` and assignments inside it need no join; `return e` ends the function with e;
 * `for i in lo..hi { body }` / `for x in vec { body }`: the body becomes its own definition `g_<fn>_loop<n>`, a function
   of the loop variable and the tuple of the variables the loop assigns, returning `Brk v` (a `return v` in the body) or
   `Cont state`; the loop is `k_for` / `k_foreach` over it;
 * a `&mut self` method returns the new `self`;
 * functions named in EXTERN for a target are not inlined there: the generated definition takes them as arguments.
Second part of the subset (units "tetris" and "raw2", generated files Gen/KernelsTetrisGen.v, Gen/KernelsRaw2Gen.v, over the
record [kxops] of coq/Base/KernelOpsX.v which extends [kops] by k_fail / k_unwrap / i_try_from_q):
 * a function returning `Result<T, E>` / `LayoutResult<T>` / `TrackResult<T>` has type [M T] like one returning `T`:
   `Ok(v)` is k_ret, `Err(e)`, `<X>Error::fail(msg)`, `self.fail(msg)`, a failing `self.assert(cond, msg)` are k_fail (the error value is ABSTRACT: neither
   messages nor error kinds are translated), `e?` is the computation e itself under k_bind, `r.unwrap()` is k_unwrap r,
   `T::try_from(x)?` / `x.try_into()?` is i_try_from_q; a Result may only be consumed where it is produced (`?`, `.unwrap()`,
   tail of the function, `return`): a `let` bound to a Result is outside the subset;
 * `enum` -> an inductive type g<Enum> with constructors g<Enum>_<Variant> (payloads of types outside the subset have type
   kopaque), `==` on a field-less enum that derives PartialEq -> the generated g<Enum>_eqb; tuple structs -> records with
   fields 0, 1, ..; a struct that has fields of types outside the subset (String, HashMap, ..) -> a record of the fields
   the translated functions of the unit USE (read, or set in a struct literal; a string-valued field expression of a
   literal is then not translated), any other struct -> a record of all its fields;
 * `match` -> a Gallina match, arms in order; a guard `p if g => e` becomes `p => if g then e else <the later arms>`;
   `if let p = e {..} else {..}` is the match with arms p and _; a match / if-let in statement position takes the rest of
   the block into every arm (like `if`);
 * operators on structs / enums go to the `impl std::ops::<Op><Rhs> for T` of the sources, chosen by the type of the right
   operand (generated name g_<T>_<op>_<Rhs> when T has several), `a[i]` to `impl Index`; `#[derive(Add, Sub, AddAssign,
   SubAssign)]` (derive_more) is read as the field-wise operation, `#[derive(PartialOrd)]` on a one-field struct as the
   comparison of that field;
 * generic structs are read at ONE instance per unit (GENERIC_INST, e.g. Xy<T> at T = PrimPitches): any other instance in a
   translated function is a type error of the translation;
 * `Option`: is_some / is_none / unwrap / expect (None: k_panic) / unwrap_or / ok_or(e)? / map_or(d, |x| e); `Vec`: push / pop /
   insert(i, x) (assignments to the receiver; insert is v_insert: a panic when i > len), len / is_empty / last / first,
   `v[i] = x` and `v[i].f = x` (read with v_get, written back with v_set), `for x in v.iter()`, `for (i, x) in ..` (tuple
   patterns), `.iter().enumerate()`, `.iter().position(|x| p)` (k_position for a closure without effects, k_position_m,
   element by element, otherwise), `.iter().map(|x| e)` with e without effects, `.sum::<T>()` for a T deriving
   derive_more's `Sum` (k_sum: `+` folded from the zero value); `T::default()` of a derived Default (zeros, empty Vecs,
   None); the operator methods `a.rem(b)`, `a.add(b)`, .. on integers; `Ptr<T>` is kptr and `p.read()?` the external
   operation ext_read_<T>;
 * `let r = &mut place;` makes r an ALIAS of the place: reads of r read the place again, `r.f = x` assigns to the place
   (what the place mentions must not be assigned while r lives; no alias inside loops);
 * statements whose receiver is `self.ctx` (the error-context stack: it only decorates messages) are skipped; a `&mut self`
   method that returns `Result<()>` and assigns to self returns the new self (`Ok(())`) or the error; any other `&mut self`
   method that returns a value must not assign to self;
 * EXTERN functions of a unit, and the functions / methods declared without body in its PRELUDE (items of other crates),
   are Section variables ext_<Type>_<fn> of the generated file, FOREIGN types are Section variables T_<Type>.
Third part of the subset (units with "sets": the dependency orderers, the GDSII exporter / importer, conv/raw.rs, conv/proto.rs; over
[kxops] plus the finite sets / maps of coq/Base/KernelOpsS.v):
 * `HashSet<K>` / `HashMap<K, V>` / `SlotMap<K, V>` are ABSTRACT: values of the carrier of a Section variable sops_<K> : ksetops K /
   mops_<K>_<V> : kmapops K V (declared after the types it mentions); `new()` / `with_capacity(n)` -> ks_empty / km_empty,
   `s.contains(x)` -> ks_contains, `m.get(k)` -> km_get (pure), `s.insert(x);` `s.remove(x);` `m.insert(k, v);` as statements assign
   ks_insert / ks_remove / km_insert to the place; `if [!] s.insert(x) {..}` / `if [!] s.remove(x) {..}` (the call is the WHOLE condition):
   the value is read off the set BEFORE the update (insert: not contained; remove: contained), then the update; iteration over a set /
   map is outside the subset; `PtrList<T>` is a Vec<Ptr<T>>; `[T; N]` for N other than 2 is a list;
 * ONE parameter borrowed `&mut` (self or another) in a function returning `()` / `Result<()>` whose body changes it (an assignment, a
   mutator, `&mut place`, a call that changes it) or that has no body: the function returns the new value of that parameter; a call
   statement `x.f(a)?;` / `T::f(a, &mut x)?;` / `let r = x.f(a)?;` of such a function assigns its result to the place passed (also through
   a `let r = &mut v[i];` alias and under `.unwrapper(self, msg)`); a `&mut` borrow of a place inside a loop makes the root of the place
   loop state; the index expressions of `&mut v[e]` are evaluated, and the cell looked up, where the reference is TAKEN;
 * a function that calls ITSELF: the call is a call of the Section variable rec_<Type>_<fn> of the function's own type (open
   recursion; the tie theorems put the model at fuel f there and obtain the model at fuel S f);
 * trait-generic code is read at one instance per unit: `P::Item` (ASSOC_INST), the type parameters of a generic function
   (FN_GENERIC_INST); the required methods of a trait parameter and `&impl Trait` parameters are declared in the unit's prelude, once per
   type used (the declaration is chosen by the argument types);
 * strings: with `String` among the foreign types of a unit a string is a value of T_String; a literal is `ext_str_lit "<text>"`;
   `use E::*;` inside a body lets the variants of E be written bare; a `for` variable that shadows a parameter / an earlier local is
   renamed inside its loop; `..Default::default()` of a derived Default fills the fields not written; `x.into()` goes through a derived
   `From` (derive_more on an enum: the variant with that payload) or an `impl From`; `o.unwrapper(self, msg)` / `self.unwrap(o, msg)` on an
   Option is ok_or; `v.iter().map(|x| f(x)).collect::<Result<Vec<_>, _>>()` is k_map_m (in order, up to the first error); `v.extend(w)` appends;
   `&[a, b, ..]` where a slice is expected is the list; methods of integers / f64 declared in the prelude (`i32::unsigned_abs`) are external;
 * `while` / `loop` are parsed (tools/rustsubset.py) but not translated in these units: a target containing one is reported as FAILED.
Fourth part of the subset (the two file-format codecs: units "gdsw", "gdsr" for gds21/src/write.rs, read.rs, units "lefw", "lefr" for
lef21/src/write.rs, read.rs; each feature is switched on by a flag of the unit, so the earlier units are generated as before; over [kxops],
coq/Base/KernelOpsS.v and the slice / loop operators of coq/Base/KernelOpsL.v):
 * "traits": `trait T { fn f(&self, ..) {..} }` is read like `impl T` with Self the foreign type T_<T> (the default methods of the trait);
   the required methods are declared in the prelude;
 * "join": an `if` / `if let` / `match` in statement position none of whose branches returns, breaks or continues is translated ONCE and
   joined: its value is the tuple of the locals it assigns (KJoin), the rest of the block follows it (no copy of the rest per branch); a
   match scrutinee is bound by `(fun m__ => ..) scrut`, guard fall-through by flat thunks `let k__n := fun _ : unit => ..`;
 * "self_state" (monadic self): the receiver of the methods of one type (GdsReader / GdsParser / LefWriter / LefParser) is the STATE of the
   monad M of the instance, the methods take no self parameter; `self.f` / `self.f = e` / `self.f += 1` go through ext_self_get_<f> /
   ext_self_put_<f>; "recv_methods": `self.<field>.m(a)` is the declared method `self.<field>_m(a)` (the lexer, the byte source);
   "fail_methods": calls that return the error value of the function; a `match r { Ok(x) => .., Err(e) => return Err(..) }` is `?`;
 * loops: `loop {..}` / `while c {..}` are k_loop (Base/KernelOpsL.v) ON FUEL: the body returns ctrl R (ctrl S S) (Brk r = return,
   Cont (Brk s) = break, Cont (Cont s) = continue) over the tuple S of the locals it assigns; a function that contains a loop, or calls one
   that does, takes `fuel__ : nat`, callees inside an iteration get the REMAINING fuel (the convention of the models: parse_elem f' ..);
   running out is k_nofuel (a Section variable); with "fuel_ext" the fuel of a loop is read from the state (ext_loop_fuel);
   `x = match .. { p => break, q => v };` is the statement match with the assignment pushed into its arms;
 * integers: `u16`; `b as i16` of a bool; `[x; N]`; `v[a..b]` with literal bounds as a value (k_slice) and as the target of
   `copy_from_slice` (k_splice); `Vec::with_capacity(e)` evaluates e; `v.try_into()` to `[T; N]` (k_vec_into_arr, N from the declared type);
   integer-literal patterns are guards; `FromPrimitive::from_u8` / `from_i16` by the expected type (declared in the prelude);
   turbofish type arguments and `<Vec<T>>::new()` are kept; `use E::{A, B};` / `use E::A;` inside a body;
 * "builders": for a struct with `#[derive(Builder)]` the builder XBuilder (every field an Option), its setters (`f(v)`; with
   `#[builder(setter(strip_option))]` the payload; `setter(into)`) and `build()` (`default` / `default = ".."` / missing field -> Err) are
   SYNTHESISED from the attributes, as derive_builder generates them;
 * "strings": the templates of `format!` / `format_args_f!` / `format_f!` / `write!`-style macros are parsed (tools/rustsubset.py
   fmt_pieces) into literal pieces and `{expr}` holes: ext_str_concat of ext_str_lit pieces and ext_display_<T> e (Display by the static
   type of the hole); `s.push_str(t)`, `v.join(sep)`, `String::new()` / `from`, `char`; "consts": `const`/`static` items of the file as
   Section variables; `<` / `>` on a foreign type is ext_<T>_lt; `x += e` on a foreign field type is ext add_assign; `enumstr!` items are
   enums; a block may end in an assignment without `;`;
 * "extern_in": a callee kept external inside named targets only (GdsPoint::parse_vec inside the element parsers).
Byte-level IO (`Read` / `Write` / `Seek`, the lexer, `Display` of foreign types, rust_decimal) stays external.
Anything else (closures elsewhere, string operations, trait objects, ...) is outside the subset: if a TARGET or
something it calls no longer fits, the script prints `FAILED family=<family> fn=<function>: <where and why>`, leaves that
function out of the generated file (so the tie lemmas about it no longer build) and exits 1 (a broken tie, DESIGN.md 2.3).

Honours VERIF_REPO / VERIF_COQ_DIR; rewrites its outputs only when the content changes."""
import os, sys
sys.path.insert(0, os.path.dirname(os.path.abspath(__file__)))
from rustsubset import Unsupported, N, Parser, tokenize, parse_source, parse_fn_body, type_key, parse_type_text

VERIF = os.path.dirname(os.path.dirname(os.path.abspath(__file__)))
REPO = os.environ.get("VERIF_REPO", "/repo")
COQ_DIR = os.environ.get("VERIF_COQ_DIR", os.path.join(VERIF, "coq"))
OUT = os.path.join(COQ_DIR, "Gen", "KernelsGen.v")

# source files read (structs, type aliases and function items are collected from all of them)
FILES = ["layout21raw/src/data.rs", "layout21raw/src/geom.rs", "layout21raw/src/bbox.rs", "gds21/src/data.rs"]
# only `type` aliases are taken from these (their functions are not candidates)
ALIAS_ONLY = {"layout21raw/src/data.rs"}
# the functions that MUST translate, by family (a family = one tie-proof file)
TARGETS = [
    # family "transform" (C12, C06, C07): layout21raw/src/geom.rs
    ("transform", "matmul"), ("transform", "matvec"), ("transform", "Transform::identity"), ("transform", "Transform::translate"),
    ("transform", "Transform::rotate"), ("transform", "Transform::reflect_vert"), ("transform", "Transform::from_instance"),
    ("transform", "Transform::cascade"), ("transform", "Point::transform"), ("transform", "sin_cos_degrees"),
    ("transform", "Rect::transform"),
    # family "contains" (C13): layout21raw/src/geom.rs, bbox.rs
    ("contains", "Point::new"), ("contains", "Rect::contains"), ("contains", "Path::contains"), ("contains", "Polygon::contains"),
    ("contains", "BoundBox::empty"), ("contains", "BoundBox::contains"), ("contains", "BoundBox::union"), ("contains", "Point::bbox"),
    ("contains", "Vec_Point::bbox"),
    # family "raw" (label placement of the GDSII export, Raw/RawGdsExport.v)
    ("raw", "Rect::center"), ("raw", "BoundBox::center"), ("raw", "Vec_Point::bbox"),
    # family "gds": gds21/src/data.rs
    ("gds", "GdsFloat64::decode"),
]
# callee kept abstract (an argument of the generated definition) in the given target
EXTERN = {"Transform::rotate": ["sin_cos_degrees"], "Transform::from_instance": ["sin_cos_degrees"]}

# ---- the units: one generated file each.  "raw" is the unit of the first version (over [kops], explicit extern arguments);
# the others are over [kxops] with Section variables for external functions and foreign types.
TETRIS_PRELUDE = """
"""
RAW2_PRELUDE = """
// rust_decimal::Decimal, as far as LefImporter::import_dist uses it
impl LefDecimal {
    fn from(x: u32) -> LefDecimal;
    fn fract(&self) -> LefDecimal;
    fn trunc(&self) -> LefDecimal;
    fn is_zero(&self) -> bool;
    fn mantissa(&self) -> i128;
}
impl std::ops::Mul<LefDecimal> for LefDecimal { fn mul(self, rhs: LefDecimal) -> LefDecimal; }
// the protobuf schema (vlsir::raw), as far as the translated converters use it
pub struct proto__Point { pub x: i64, pub y: i64 }
impl proto__Point { pub fn new(x: i64, y: i64) -> proto__Point { proto__Point { x, y } } }
pub struct proto__Rectangle { pub net: String, pub lower_left: Option<proto__Point>, pub width: i64, pub height: i64 }
// gds.rs: `fn import_element_layer(&mut self, elem: &impl gds21::HasLayer)`, at the type of the element import_boundary passes
impl GdsImporter { fn import_element_layer(&mut self, elem: &GdsBoundary) -> LayoutResult<(LayerKey, LayerPurpose)>; }
"""
ORDER_PRELUDE = """
// the trait `DepOrder` (layout21utils/src/dep_order.rs) as seen from the generic helper: the required methods of P
impl P {
    fn process(item: &Item, orderer: &mut DepOrderer<P>) -> Result<(), Error>;
    fn fail() -> Result<(), Error>;
}
"""
TORDER_PRELUDE = """
// layout21utils/src/dep_order.rs: the generic helper at P = PlaceOrder (its own tie is in the unit "order")
impl DepOrderer { fn push(&mut self, item: &Placeable) -> LayoutResult<()>; }
"""
TPORDER_PRELUDE = """
// layout21utils/src/dep_order.rs: the generic helper at P = CellOrder (its own tie is in the unit "order")
impl DepOrderer { fn push(&mut self, item: &Ptr<Cell>) -> LayoutResult<()>; }
"""
TCONVI_PRELUDE = """
// conv/raw.rs: `fn db_units(&self, pt: impl Into<UnitSpeced>) -> DbUnits`, at the type instance_intersects passes
impl RawExporter { fn db_units(&self, pt: PrimPitches) -> DbUnits; }
// cell.rs, outline.rs (their own ties: family tetris_place)
impl Cell { fn outline(&self) -> LayoutResult<&Outline>; }
impl Outline { fn max(&self, dir: Dir) -> PrimPitches; }
"""
RAWGDSX_PRELUDE = """
// layout21raw/src/data.rs: the layer table (a slot map and hash maps inside), as far as export_layerspec uses it
impl Layers { fn get(&self, key: LayerKey) -> Option<&Layer>; }
impl Layer { fn num(&self, purpose: &LayerPurpose) -> Option<i16>; }
"""
RAWGDSI_PRELUDE = """
// gds.rs: `fn import_element_layer(&mut self, elem: &impl gds21::HasLayer)`, at the types of the elements translated here
impl GdsImporter { fn import_element_layer(&mut self, elem: &GdsBox) -> LayoutResult<(LayerKey, LayerPurpose)>; }
impl GdsImporter { fn import_element_layer(&mut self, elem: &GdsPath) -> LayoutResult<(LayerKey, LayerPurpose)>; }
// core: i32::unsigned_abs, f64::abs
impl i32 { fn unsigned_abs(self) -> u32; }
impl f64 { fn abs(self) -> f64; }
"""
TPROTO_PRELUDE = """
// the protobuf schema (vlsir::tetris), as far as the translated converters use it
pub struct tproto__Outline { pub x: Vec<i64>, pub y: Vec<i64>, pub metals: i64 }
"""
TCONVP_PRELUDE = """
// conv/raw.rs: `fn db_units(&self, pt: impl Into<UnitSpeced>) -> DbUnits`, at the type export_cell_layer_period passes
impl RawExporter { fn db_units(&self, pt: PrimPitches) -> DbUnits; }
// stack.rs / tracks.rs: the operations on a period and on a track (their own ties: family tetris_tracks)
impl MetalLayer { fn to_layer_period(&self, index: usize, stop: Int) -> LayoutResult<LayerPeriod>; }
impl LayerPeriod { fn block(&mut self, start: DbUnits, stop: DbUnits, src: &Ptr<Instance>) -> TrackResult<()>; }
impl Track { fn cut(&mut self, start: DbUnits, stop: DbUnits, src: &TrackCross) -> TrackResult<()>; }
impl Track { fn set_net(&mut self, at: DbUnits, assn: &Assign) -> TrackResult<()>; }
"""
LEFW_PRELUDE = """
// write.rs: `write_line(&mut self, args: std::fmt::Arguments)`: one line of text at the current indentation (external)
impl LefWriter { fn write_line(&mut self, args: String) -> LefResult<()>; fn dest_flush(&mut self) -> LefResult<()>; }
// write.rs: `impl AddAssign<usize> / SubAssign<usize> for Indent` (the indentation level and its string: external)
impl Indent { fn add_assign(&mut self, rhs: usize); fn sub_assign(&mut self, rhs: usize); }
// write.rs: `fn display_option<T: Display>(opt: &Option<T>) -> String`, at the types it is used at
fn display_option(opt: &Option<LefBlockClassType>) -> String;
fn display_option(opt: &Option<LefPadClassType>) -> String;
fn display_option(opt: &Option<LefCoreClassType>) -> String;
"""
LEFR_PRELUDE = """
// the lexer as the parser uses it, the context stack (error reports only), the text of a token (external)
impl LefParser {
    fn lex_next_token(&mut self) -> LefResult<Option<Token>>;
    fn lex_peek_token(&self) -> Option<Token>;
    fn ctx_push(&mut self, c: LefParseContext);
    fn ctx_pop(&mut self);
    fn txt(&self, tok: &Token) -> String;
}
// enumstr! (layout21utils): `LefKey::parse` reads a keyword whatever its case
impl LefKey { fn parse(txt: &str) -> Option<LefKey>; }
// rust_decimal
impl LefDecimal { fn from_str(s: &str) -> LefResult<LefDecimal>; }
// data.rs: `LefPoint::new(x: impl Into<LefDecimal>, y: impl Into<LefDecimal>)`, at the type parse_point passes
impl LefPoint { pub fn new(x: LefDecimal, y: LefDecimal) -> LefPoint { LefPoint { x, y } } }
"""
LEFR2_PRELUDE = """
// the token-level helpers and the number / point / identifier parsers of read.rs: their own ties are the family lef_parse
// (Gen/KernelsLefReadGen.v); here they are external
impl LefParser {
    fn ctx_push(&mut self, c: LefParseContext);
    fn ctx_pop(&mut self);
    fn lex_peek_token(&self) -> Option<Token>;
    fn txt(&self, tok: &Token) -> String;
    fn advance(&mut self) -> LefResult<()>;
    fn matches(&self, ttype: TokenType) -> bool;
    fn expect(&mut self, ttype: TokenType) -> LefResult<Token>;
    fn peek_key(&self) -> LefResult<LefKey>;
    fn get_key(&mut self) -> LefResult<LefKey>;
    fn expect_key(&mut self, key: LefKey) -> LefResult<()>;
    fn parse_ident(&mut self) -> LefResult<String>;
    fn parse_number(&mut self) -> LefResult<LefDecimal>;
    fn parse_point(&mut self) -> LefResult<LefPoint>;
    fn parse_density(&mut self) -> LefResult<Vec<LefDensityGeometries>>;
}
// core: `txt.chars().collect::<Vec<char>>()` (the characters of a string, in order)
impl String { fn chars(&self) -> Chars; }
impl Chars { fn collect(self) -> Vec<char>; }
// data.rs: `LefDbuPerMicron::try_new` (rust_decimal: fract / trunc / mantissa)
impl LefDbuPerMicron { fn try_new(x: LefDecimal) -> LefResult<LefDbuPerMicron>; }
// read.rs: `fn parse_enum<T: EnumStr>(&mut self) -> LefResult<T>` (a name, upper-cased, through the enumstr! table of T), at each type it is called at
impl LefParser {
    fn parse_enum__LefAntennaModel(&mut self) -> LefResult<LefAntennaModel>;
    fn parse_enum__LefBlockClassType(&mut self) -> LefResult<LefBlockClassType>;
    fn parse_enum__LefClearanceStyle(&mut self) -> LefResult<LefClearanceStyle>;
    fn parse_enum__LefCoreClassType(&mut self) -> LefResult<LefCoreClassType>;
    fn parse_enum__LefDefSource(&mut self) -> LefResult<LefDefSource>;
    fn parse_enum__LefEndCapClassType(&mut self) -> LefResult<LefEndCapClassType>;
    fn parse_enum__LefMacroClassName(&mut self) -> LefResult<LefMacroClassName>;
    fn parse_enum__LefOnOff(&mut self) -> LefResult<LefOnOff>;
    fn parse_enum__LefOrient(&mut self) -> LefResult<LefOrient>;
    fn parse_enum__LefPadClassType(&mut self) -> LefResult<LefPadClassType>;
    fn parse_enum__LefPinShape(&mut self) -> LefResult<LefPinShape>;
    fn parse_enum__LefPinUse(&mut self) -> LefResult<LefPinUse>;
    fn parse_enum__LefPortClass(&mut self) -> LefResult<LefPortClass>;
    fn parse_enum__LefPropertyDefinitionObjectType(&mut self) -> LefResult<LefPropertyDefinitionObjectType>;
    fn parse_enum__LefSiteClass(&mut self) -> LefResult<LefSiteClass>;
    fn parse_enum__LefSymmetry(&mut self) -> LefResult<LefSymmetry>;
}
// data.rs: `LefMask::new(mask: impl Into<LefDecimal>)`, at the type parse_geometry_mask passes
impl LefMask { pub fn new(mask: LefDecimal) -> LefMask { LefMask { mask } } }
"""
GDSR_PRELUDE = """
// byteorder::ReadBytesExt on `self.source` (byte-level IO: external)
impl GdsReader { fn source_read_u16(&mut self) -> GdsResult<u16>; fn source_read_u8(&mut self) -> GdsResult<u8>; }
// num_traits::FromPrimitive (derived): the numbering of the two enums (its own tie: Gen/GdsTablesGen.v, C02_numbering_is_spec)
impl GdsRecordType { fn from_u8(n: u8) -> Option<GdsRecordType>; }
impl GdsDataType { fn from_u8(n: u8) -> Option<GdsDataType>; }
// the typed reads of read.rs (byte-level IO: external); `Result<_, io::Error>` is read like GdsResult
impl GdsReader {
    fn read_str(&mut self, len: u16) -> GdsResult<String>;
    fn read_bytes(&mut self, len: u16) -> GdsResult<Vec<u8>>;
    fn read_i16(&mut self, len: u16) -> GdsResult<Vec<i16>>;
    fn read_i32(&mut self, len: u16) -> GdsResult<Vec<i32>>;
    fn read_f64(&mut self, len: u16) -> GdsResult<Vec<f64>>;
}
"""
UNITS = [
    {"name": "raw", "out": "KernelsGen.v", "files": FILES, "alias_only": ALIAS_ONLY, "targets": TARGETS, "extern_args": EXTERN,
     "xops": False},
    {"name": "tetris", "out": "KernelsTetrisGen.v", "xops": True,
     "files": ["layout21tetris/src/coords.rs", "layout21tetris/src/validate.rs", "layout21tetris/src/stack.rs",
               "layout21tetris/src/tracks.rs", "layout21tetris/src/placer.rs", "layout21tetris/src/placement.rs",
               "layout21tetris/src/instance.rs", "layout21tetris/src/bbox.rs", "layout21tetris/src/cell.rs",
               "layout21tetris/src/outline.rs", "layout21tetris/src/array.rs",
               ("layout21raw/src/geom.rs", {"Dir"})],
     "alias_only": set(), "prelude": TETRIS_PRELUDE,
     "targets": [
         # family "tetris_stack" (C08): validate.rs, stack.rs
         ("tetris_stack", "ValidMetalLayer::track_start_width"), ("tetris_stack", "ValidMetalLayer::center"),
         ("tetris_stack", "ValidMetalLayer::span"), ("tetris_stack", "ValidStack::metal"), ("tetris_stack", "MetalLayer::entries"),
         ("tetris_stack", "LibValidator::validate_track_ref"), ("tetris_stack", "LibValidator::validate_track_cross"),
         ("tetris_stack", "ValidMetalLayer::track_index"), ("tetris_stack", "MetalLayer::to_layer_period_data"),
         ("tetris_stack", "MetalLayer::pitch"),
         # family "tetris_tracks" (C08): tracks.rs
         ("tetris_tracks", "Track::cut_or_block"),
         # family "tetris_place" (C09): instance.rs, placer.rs, bbox.rs, coords.rs, placement.rs
         ("tetris_place", "Instance::boundbox"), ("tetris_place", "Placer::resolve_instance_place"),
     ],
     "generic_inst": {"Xy": ["PrimPitches"], "BoundBox": ["PrimPitches"], "Place": ["Xy<PrimPitches>"]},
     "foreign": {"Cell", "Outline", "ArrayInstance"},
     "extern": {"Cell::outline", "Cell::boundbox_size", "Outline::xmax", "Outline::ymax", "ArrayInstance::boundbox"},
     "result_aliases": {"LayoutResult", "TrackResult"}, "skip_recv": {"self.ctx"}},
    {"name": "raw2", "out": "KernelsRaw2Gen.v", "xops": True,
     "files": ["layout21raw/src/data.rs", "layout21raw/src/geom.rs", "layout21raw/src/lef.rs", "layout21raw/src/proto.rs",
               "layout21raw/src/gds.rs", ("lef21/src/data.rs", {"LefPoint"}), ("gds21/src/data.rs", {"GdsBoundary", "GdsPoint"})],
     "alias_only": set(), "prelude": RAW2_PRELUDE,
     "targets": [
         # family "raw_lef" (C16): lef.rs
         ("raw_lef", "LefImporter::import_dist"), ("raw_lef", "LefImporter::import_point"),
         # family "raw_proto" (C14): proto.rs
         ("raw_proto", "ProtoExporter::export_point"), ("raw_proto", "ProtoExporter::export_rect"),
         ("raw_proto", "ProtoImporter::import_point"), ("raw_proto", "ProtoImporter::import_rect"),
         # family "raw_gds" (C06): gds.rs
         ("raw_gds", "GdsImporter::import_boundary"),
     ],
     "generic_inst": {}, "foreign": {"LefDecimal", "LayerKey"}, "extern": {"GdsImporter::import_point_vec"},
     "result_aliases": {"LayoutResult"}, "skip_recv": {"self.ctx"}},
    # ---- third part of the subset ("sets": HashSet / HashMap, `&mut` parameters, open recursion): the dependency orderers (C17)
    {"name": "order", "out": "KernelsOrderGen.v", "xops": True, "sets": True,
     "files": ["layout21utils/src/dep_order.rs"], "alias_only": set(), "prelude": ORDER_PRELUDE,
     "targets": [("order_generic", "DepOrderer::push"), ("order_generic", "DepOrderer::order")],
     "generic_inst": {"DepOrderer": ["P"]}, "foreign": {"P", "Item"}, "assoc_inst": {"P::Item": "Item"},
     "extern": set(), "result_aliases": set(), "skip_recv": set()},
    {"name": "raworder", "out": "KernelsRawOrderGen.v", "xops": True, "sets": True,
     "files": [("layout21raw/src/data.rs", {"Library", "Cell", "Layout", "Instance", "DepOrder"}),
               ("layout21raw/src/gds.rs", {"GdsDepOrder"}),
               ("gds21/src/data.rs", {"GdsLibrary", "GdsStruct", "GdsElement", "GdsStructRef", "GdsArrayRef"})],
     "alias_only": set(), "prelude": "",
     "targets": [("order_raw", "DepOrder::push"), ("order_raw", "DepOrder::order"),
                 ("order_raw", "GdsDepOrder::get"), ("order_raw", "GdsDepOrder::push"), ("order_raw", "GdsDepOrder::order")],
     "generic_inst": {}, "foreign": {"String"}, "aliases": {"str": "String"},
     "extern": set(), "result_aliases": {"LayoutResult"}, "skip_recv": set()},
    {"name": "torder", "out": "KernelsTetrisOrderGen.v", "xops": True, "sets": True,
     "files": [("layout21tetris/src/library.rs", {"Library", "DepOrder"}), ("layout21tetris/src/cell.rs", {"Cell"}),
               ("layout21tetris/src/layout.rs", {"Layout"}), ("layout21tetris/src/instance.rs", {"Instance"}),
               ("layout21tetris/src/placement.rs", {"Placeable", "Place", "RelativePlace", "RelAssign", "Side", "Align", "Separation", "SepBy"}),
               ("layout21tetris/src/coords.rs", {"Xy", "PrimPitches", "DbUnits", "LayerPitches", "UnitSpeced"}),
               ("layout21raw/src/geom.rs", {"Dir"}),
               ("layout21tetris/src/array.rs", {"ArrayInstance"}), ("layout21tetris/src/group.rs", {"GroupInstance"}),
               ("layout21tetris/src/placer.rs", {"PlaceOrder"})],
     "alias_only": set(), "prelude": TORDER_PRELUDE,
     "targets": [("order_tetris", "DepOrder::push"), ("order_tetris", "DepOrder::order"),
                 ("order_tetris", "PlaceOrder::process"), ("order_tetris", "PlaceOrder::fail")],
     "generic_inst": {"Xy": ["PrimPitches"], "Place": ["Xy<PrimPitches>"]}, "foreign": {"DepOrderer"},
     "extern": set(), "result_aliases": {"LayoutResult"}, "skip_recv": set()},
    {"name": "tporder", "out": "KernelsTetrisProtoOrderGen.v", "xops": True, "sets": True,
     "files": [("layout21tetris/src/cell.rs", {"Cell"}), ("layout21tetris/src/layout.rs", {"Layout"}),
               ("layout21tetris/src/instance.rs", {"Instance"}), ("layout21tetris/src/conv/proto.rs", {"CellOrder"})],
     "alias_only": set(), "prelude": TPORDER_PRELUDE,
     "targets": [("order_tetris", "CellOrder::process"), ("order_tetris", "CellOrder::fail")],
     "generic_inst": {}, "foreign": {"DepOrderer"},
     "extern": set(), "result_aliases": {"LayoutResult"}, "skip_recv": set()},
    # ---- conv/raw.rs (C08): Xy<T> is read at one instance per unit, hence two units
    {"name": "tconvx", "out": "KernelsTetrisConvXGen.v", "xops": True, "sets": True,
     "files": [("layout21tetris/src/conv/raw.rs", {"RawExporter"}), ("layout21tetris/src/validate.rs", {"ValidStack", "ValidMetalLayer"}),
               ("layout21tetris/src/stack.rs", {"MetalLayer"}), ("layout21tetris/src/tracks.rs", {"TrackRef", "TrackCross"}),
               ("layout21tetris/src/coords.rs", {"Xy", "DbUnits", "Int"}), ("layout21raw/src/geom.rs", {"Dir"})],
     "alias_only": set(), "prelude": "",
     "targets": [("tetris_conv", "RawExporter::track_cross_xy")],
     "generic_inst": {"Xy": ["DbUnits"]}, "foreign": set(),
     "extern": {"ValidStack::metal", "ValidMetalLayer::center"}, "result_aliases": {"LayoutResult"}, "skip_recv": {"self.ctx"},
     # the external `center` must know WHICH layer it is called on: the layer's index stays in the generated record
     "keep_fields": {"ValidMetalLayer": ["index"]}},
    {"name": "tconvi", "out": "KernelsTetrisConvIGen.v", "xops": True, "sets": True,
     "files": [("layout21tetris/src/conv/raw.rs", {"RawExporter"}), ("layout21tetris/src/validate.rs", {"ValidMetalLayer"}),
               ("layout21tetris/src/stack.rs", {"MetalLayer"}), ("layout21tetris/src/instance.rs", {"Instance"}),
               ("layout21tetris/src/placement.rs", {"Place"}),
               ("layout21tetris/src/coords.rs", {"Xy", "DbUnits", "PrimPitches", "Int"}), ("layout21raw/src/geom.rs", {"Dir"})],
     "alias_only": set(), "prelude": TCONVI_PRELUDE,
     "targets": [("tetris_conv", "RawExporter::instance_intersects")],
     "generic_inst": {"Xy": ["PrimPitches"], "Place": ["Xy<PrimPitches>"]}, "foreign": {"Cell", "Outline", "RelativePlace"},
     "extern": set(), "result_aliases": {"LayoutResult"}, "skip_recv": {"self.ctx"}},
    # ---- layout21raw/src/gds.rs, exporter side (C07)
    {"name": "rawgdsx", "out": "KernelsRawGdsExportGen.v", "xops": True, "sets": True,
     "files": [("layout21raw/src/gds.rs", {"GdsExporter", "Shape", "Rect", "Path", "Polygon"}),
               ("layout21raw/src/geom.rs", {"Point", "Rect", "Path", "Polygon", "Shape"}),
               ("layout21raw/src/bbox.rs", {"BoundBox", "Vec_Point"}),
               ("layout21raw/src/data.rs", {"Library", "Layer", "LayerPurpose", "Int"}),
               ("gds21/src/data.rs", {"GdsPoint", "GdsBoundary", "GdsPath", "GdsLayerSpec", "GdsElement"})],
     "alias_only": set(), "prelude": RAWGDSX_PRELUDE,
     "targets": [("raw_gdsx", "GdsExporter::export_point"), ("raw_gdsx", "GdsExporter::export_layerspec"),
                 ("raw_gdsx", "GdsExporter::export_shape"),
                 ("raw_gdsx", "Rect::label_location"), ("raw_gdsx", "Path::label_location"), ("raw_gdsx", "Polygon::label_location"),
                 ("raw_gdsx", "Shape::label_location")],
     "generic_inst": {}, "foreign": {"Layers", "LayerKey"},
     "extern": {"Polygon::contains", "Vec_Point::bbox", "BoundBox::center", "GdsPoint::vec"},
     "result_aliases": {"LayoutResult"}, "skip_recv": {"self.ctx"}},
    # ---- layout21raw/src/gds.rs, importer side (C06; import_boundary is in the unit raw2)
    {"name": "rawgdsi", "out": "KernelsRawGdsImportGen.v", "xops": True, "sets": True,
     "files": [("layout21raw/src/gds.rs", {"GdsImporter"}),
               ("layout21raw/src/geom.rs", {"Point", "Rect", "Path", "Polygon", "Shape"}),
               ("layout21raw/src/data.rs", {"Element", "Instance", "LayerPurpose", "Int"}),
               ("gds21/src/data.rs", {"GdsPoint", "GdsBox", "GdsPath", "GdsStructRef", "GdsStrans", "GdsUnits"}),
               ("layout21raw/src/data.rs", {"Units"})],
     "alias_only": set(), "prelude": RAWGDSI_PRELUDE,
     "targets": [("raw_gdsi", "GdsImporter::import_point"), ("raw_gdsi", "GdsImporter::import_point_vec"),
                 ("raw_gdsi", "GdsImporter::import_box"), ("raw_gdsi", "GdsImporter::import_path"),
                 ("raw_gdsi", "GdsImporter::import_instance"), ("raw_gdsi", "GdsImporter::import_units")],
     "generic_inst": {}, "foreign": {"String", "LayerKey", "Cell"}, "aliases": {"str": "String"},
     "extern": set(), "result_aliases": {"LayoutResult"}, "skip_recv": {"self.ctx"}},
    # ---- layout21tetris/src/conv/proto.rs, outline.rs (C19)
    {"name": "tproto", "out": "KernelsTetrisProtoGen.v", "xops": True, "sets": True,
     "files": [("layout21tetris/src/conv/proto.rs", {"ProtoExporter", "ProtoLibImporter"}), ("layout21tetris/src/outline.rs", {"Outline"}),
               ("layout21tetris/src/coords.rs", {"PrimPitches", "Int"}), ("layout21raw/src/geom.rs", {"Dir"})],
     "alias_only": set(), "prelude": TPROTO_PRELUDE,
     "targets": [("tetris_proto", "ProtoExporter::export_outline"), ("tetris_proto", "ProtoLibImporter::import_outline"),
                 ("tetris_proto", "Outline::from_prim_pitches")],
     "generic_inst": {}, "foreign": set(),
     "fn_generic_inst": {"ProtoExporter::export_dimensions": {"T": "PrimPitches"}, "ProtoExporter::export_dimension": {"T": "PrimPitches"}},
     "extern": set(), "result_aliases": {"LayoutResult"}, "skip_recv": {"self.ctx"}},
    # ---- conv/raw.rs (C08): one period of one layer of one cell (blockages, cuts with their span, assignments with their vias)
    {"name": "tconvp", "out": "KernelsTetrisConvPGen.v", "xops": True, "sets": True,
     "files": [("layout21tetris/src/conv/raw.rs", {"RawExporter", "TempPeriod", "TempCellLayer", "TempCell"}),
               ("layout21tetris/src/validate.rs", {"ValidStack", "ValidMetalLayer", "ValidAssign"}),
               ("layout21tetris/src/stack.rs", {"MetalLayer", "ViaLayer", "Assign", "LayerPeriod"}),
               ("layout21tetris/src/tracks.rs", {"TrackRef", "TrackCross"}),
               ("layout21tetris/src/coords.rs", {"Xy", "DbUnits", "PrimPitches", "Int"}),
               ("layout21raw/src/geom.rs", {"Dir", "Point", "Rect", "Polygon", "Path", "Shape"}),
               ("layout21raw/src/data.rs", {"Element", "LayerPurpose"})],
     "alias_only": set(), "prelude": TCONVP_PRELUDE,
     "targets": [("tetris_period", "RawExporter::assign_track"), ("tetris_period", "RawExporter::export_cell_layer_period")],
     "generic_inst": {"Xy": ["DbUnits"]},
     "foreign": {"Track", "AssignKey", "LayerKey", "String", "Instance", "Layout", "Library"},
     "extern": {"RawExporter::track_cross_xy", "RawExporter::export_track", "ValidStack::via_from"},
     "result_aliases": {"LayoutResult", "TrackResult"}, "skip_recv": {"self.ctx"}},
    # ---- fourth part of the subset (round 4): the two file-format codecs.  gds21/src/write.rs: the trait `Encode` (library -> records);
    # `Self` is abstract (T_Encode), `encode_record` / `encode_records` are its required methods (external)
    {"name": "gdsw", "out": "KernelsGdsWriteGen.v", "xops": True, "sets": True, "traits": True, "join": True,
     "files": [("gds21/src/write.rs", {"Encode"}),
               ("gds21/src/data.rs", {"GdsRecord", "GdsPoint", "GdsPath", "GdsBoundary", "GdsStructRef", "GdsArrayRef", "GdsTextElem", "GdsNode",
                                      "GdsBox", "GdsStrans", "GdsElemFlags", "GdsPlex", "GdsPresentation", "GdsProperty", "GdsDateTime",
                                      "GdsDateTimes", "GdsStruct", "GdsLibrary", "GdsElement", "GdsUnits", "Unsupported"})],
     "alias_only": set(), "prelude": "",
     "targets": [("gds_write", "Encode::encode_strans"), ("gds_write", "Encode::encode_boundary"), ("gds_write", "Encode::encode_path"),
                 ("gds_write", "Encode::encode_struct_ref"), ("gds_write", "Encode::encode_array_ref"), ("gds_write", "Encode::encode_text_elem"),
                 ("gds_write", "Encode::encode_node"), ("gds_write", "Encode::encode_box"), ("gds_write", "Encode::encode_element"),
                 ("gds_write", "Encode::encode_datetimes"), ("gds_write", "Encode::encode_struct"), ("gds_write", "Encode::encode_lib")],
     "generic_inst": {}, "foreign": {"String", "Encode"}, "aliases": {"str": "String"},
     "extern": set(), "result_aliases": {"GdsResult"}, "skip_recv": set()},
    # gds21/src/read.rs: GdsReader (record level; the byte-level reads of `self.source` are external) and GdsParser (records -> library).
    # Both are read with MONADIC SELF: the reader / parser object is the state of the effect M.
    {"name": "gdsr", "out": "KernelsGdsReadGen.v", "xops": True, "sets": True, "traits": True, "join": True,
     "self_state": {"GdsReader", "GdsParser"}, "fail_methods": {"fail", "invalid"},
     "recv_methods": {"self.source": "source_"},
     "files": [("gds21/src/read.rs", {"GdsReader", "GdsParser"}),
               ("gds21/src/data.rs", {"GdsRecord", "GdsRecordType", "GdsDataType", "GdsRecordHeader", "GdsPoint", "GdsPath", "GdsBoundary", "GdsStructRef",
                                      "GdsArrayRef", "GdsTextElem", "GdsNode", "GdsBox", "GdsStrans", "GdsElemFlags", "GdsPlex", "GdsPresentation",
                                      "GdsProperty", "GdsDateTime", "GdsDateTimes", "GdsStruct", "GdsLibrary", "GdsElement", "GdsUnits", "Unsupported"})],
     "alias_only": set(), "prelude": GDSR_PRELUDE,
     "targets": [("gds_read", "GdsRecordType::valid"), ("gds_read", "GdsReader::read_record_header"), ("gds_read", "GdsReader::read_record_content"),
                 ("gds_read", "GdsReader::read_record"),
                 # family "gds_parse" (C01, C03, C10): GdsParser, records -> library (`next` / `peek` external: the record-level reader above)
                 ("gds_parse", "GdsPoint::parse"), ("gds_parse", "GdsPoint::parse_vec"), ("gds_parse", "GdsParser::parse_datetimes"),
                 ("gds_parse", "GdsParser::parse_property"), ("gds_parse", "GdsParser::parse_strans"),
                 ("gds_parse", "GdsParser::parse_boundary"), ("gds_parse", "GdsParser::parse_path"), ("gds_parse", "GdsParser::parse_text_elem"),
                 ("gds_parse", "GdsParser::parse_node"), ("gds_parse", "GdsParser::parse_box"), ("gds_parse", "GdsParser::parse_struct_ref"),
                 ("gds_parse", "GdsParser::parse_array_ref"), ("gds_parse", "GdsParser::parse_struct"), ("gds_parse", "GdsParser::parse_lib")],
     "generic_inst": {}, "foreign": {"String"}, "aliases": {"str": "String"}, "builders": True,
     # `GdsPoint::parse_vec` has its own tie (a length bound on the vector); the element parsers take it as an argument
     "extern_in": {("GdsParser::parse_%s" % n): {"GdsPoint::parse_vec"} for n in ("boundary", "path", "node", "box", "array_ref")},
     "extern": {"GdsReader::read_str", "GdsReader::read_bytes", "GdsReader::read_i16", "GdsReader::read_i32", "GdsReader::read_f64",
                "GdsParser::next", "GdsParser::peek"},
     "result_aliases": {"GdsResult"}, "skip_recv": {"self.ctx"}},
    # lef21/src/write.rs: LefWriter with MONADIC SELF (indentation and session version are the state, `write_line` external: one line of text);
    # strings are values of T_String built from literal pieces, `Display` of values (external per type) and concatenation
    {"name": "lefw", "out": "KernelsLefWriteGen.v", "xops": True, "sets": True, "join": True, "strings": True,
     "self_state": {"LefWriter"}, "recv_methods": {"self.dest": "dest_"}, "consts": {"V5P4": "LefDecimal"},
     "files": [("lef21/src/write.rs", {"LefWriter", "LefWriterSession"}),
               ("lef21/src/data.rs", {"LefLibrary", "LefMacro", "LefMacroClass", "LefForeign", "LefExtension", "LefPin", "LefPinDirection", "LefPinAntennaAttr", "LefPort",
                                      "LefLayerGeometries", "LefDensityGeometries", "LefDensityRectangle", "LefVia", "LefViaDef", "LefViaDefData", "LefFixedViaDef",
                                      "LefGeneratedViaDef", "LefRowCol", "LefOffset", "LefViaLayerGeometries", "LefViaShape", "LefLayerSpacing", "LefProperty",
                                      "LefPropertyRange", "LefPropertyDefinition", "LefGeometry", "LefStepPattern", "LefShape", "LefPoint", "LefMask", "LefDbuPerMicron",
                                      "LefUnits", "LefSite", "Unsupported", "LefKey", "LefOnOff", "LefClearanceStyle", "LefDefSource", "LefSymmetry", "LefOrient",
                                      "LefPinUse", "LefPinShape", "LefMacroClassName", "LefPadClassType", "LefEndCapClassType", "LefBlockClassType", "LefCoreClassType",
                                      "LefPortClass", "LefSiteClass", "LefAntennaModel", "LefPropertyDefinitionObjectType"})],
     "alias_only": set(), "prelude": LEFW_PRELUDE,
     "targets": [("lef_write", "LefWriter::format_mask"), ("lef_write", "LefWriter::format_geom"), ("lef_write", "LefWriter::write_geom"),
                 ("lef_write", "LefWriter::write_layer_geom"), ("lef_write", "LefWriter::write_property"), ("lef_write", "LefWriter::write_density"),
                 ("lef_write", "LefWriter::write_symmetries"), ("lef_write", "LefWriter::write_macro_class"), ("lef_write", "LefWriter::write_units"),
                 ("lef_write", "LefWriter::write_site"), ("lef_write", "LefWriter::write_port"), ("lef_write", "LefWriter::write_pin"),
                 ("lef_write", "LefWriter::write_via_shape"), ("lef_write", "LefWriter::write_via_layer_geom"), ("lef_write", "LefWriter::write_via"),
                 ("lef_write", "LefWriter::write_macro"), ("lef_write", "LefWriter::format_numeric_prop_def"), ("lef_write", "LefWriter::write_lib")],
     "generic_inst": {}, "foreign": {"String", "LefDecimal", "Indent"}, "aliases": {"str": "String"},
     "extern": {"LefWriter::write_line"},
     "result_aliases": {"LefResult"}, "skip_recv": set()},
    # lef21/src/read.rs: LefParser with MONADIC SELF (the token stream, the session version, the context stack are the state); the lexer
    # (`self.lex.next_token()` / `peek_token()`), `txt`, the error helpers and rust_decimal are external; every loop starts with the fuel the
    # state gives it (ext_loop_fuel)
    {"name": "lefr", "out": "KernelsLefReadGen.v", "xops": True, "sets": True, "join": True, "strings": True, "builders": True, "fuel_ext": True,
     "self_state": {"LefParser"}, "fail_methods": {"fail", "fail_msg"}, "recv_methods": {"self.ctx": "ctx_", "self.lex": "lex_"},
     "files": [("lef21/src/read.rs", {"LefParser", "Token", "SourceLocation", "TokenType", "LefParseContext", "LefParseErrorType"}),
               ("lef21/src/data.rs", {"LefDensityGeometries", "LefDensityRectangle", "LefPoint", "LefKey"})],
     "alias_only": set(), "prelude": LEFR_PRELUDE,
     "targets": [("lef_parse", "LefParser::advance"), ("lef_parse", "LefParser::matches"), ("lef_parse", "LefParser::expect"),
                 ("lef_parse", "LefParser::peek_key"), ("lef_parse", "LefParser::get_key"), ("lef_parse", "LefParser::expect_key"),
                 ("lef_parse", "LefParser::parse_ident"), ("lef_parse", "LefParser::parse_number"), ("lef_parse", "LefParser::parse_point"),
                 ("lef_parse", "LefParser::parse_density")],
     "generic_inst": {}, "foreign": {"String", "LefDecimal"}, "aliases": {"str": "String"},
     "extern": {"LefParser::txt"},
     "result_aliases": {"LefResult"}, "skip_recv": set()},
    # lef21/src/read.rs, second part (families lef_parse2 ..): the statement parsers.  The helpers tied in the unit "lefr" are EXTERNAL here
    {"name": "lefr2", "out": "KernelsLefRead2Gen.v", "self_field_ext": {"self.session.lef_version": ("session_lef_version", "LefDecimal")},
     "consts": {"V5P4": "LefDecimal", "V5P6": "LefDecimal"}, "let_annot": True, "foreign_eq": True, "builder_err": True, "turbo_methods": {"parse_enum"}, "xops": True, "sets": True, "join": True, "strings": True, "builders": True, "fuel_ext": True,
     "self_state": {"LefParser"}, "fail_methods": {"fail", "fail_msg"}, "recv_methods": {"self.ctx": "ctx_", "self.lex": "lex_"},
     "files": [("lef21/src/read.rs", {"LefParser", "Token", "SourceLocation", "TokenType", "LefParseContext", "LefParseErrorType"}),
               ("lef21/src/data.rs", {"LefPoint", "LefKey", "LefUnits", "LefSymmetry", "LefMacroClass", "LefMacroClassName", "LefPadClassType", "LefEndCapClassType",
                                      "LefBlockClassType", "LefCoreClassType", "LefSite", "LefSiteClass", "LefProperty", "LefPinDirection", "LefMask", "LefStepPattern",
                                      "LefShape", "LefGeometry", "Unsupported", "LefLayerGeometries", "LefLayerSpacing", "LefVia", "LefViaShape", "LefViaLayerGeometries", "LefPort", "LefPortClass",
                                      "LefPropertyDefinition", "LefPropertyRange", "LefPropertyDefinitionObjectType", "LefPin", "LefPinUse", "LefPinShape", "LefAntennaModel", "LefPinAntennaAttr",
                                      "LefMacro", "LefForeign", "LefOrient", "LefDefSource", "LefDensityGeometries", "LefDensityRectangle", "LefViaDef", "LefViaDefData", "LefFixedViaDef",
                                      "LefGeneratedViaDef", "LefRowCol", "LefOffset", "LefLibrary", "LefExtension", "LefOnOff", "LefClearanceStyle"})],
     "alias_only": set(), "prelude": LEFR2_PRELUDE,
     "targets": [("lef_parse2", "LefParser::parse_units"), ("lef_parse2", "LefParser::parse_size"), ("lef_parse2", "LefParser::parse_symmetries"),
                 ("lef_parse2", "LefParser::parse_macro_class"), ("lef_parse2", "LefParser::parse_site_def"), ("lef_parse2", "LefParser::parse_property"),
                 ("lef_parse2", "LefParser::parse_pin_direction"), ("lef_parse2", "LefParser::parse_geometry_mask"), ("lef_parse2", "LefParser::parse_iterate"),
                 ("lef_parse2", "LefParser::parse_step_pattern"), ("lef_parse2", "LefParser::parse_point_list"), ("lef_parse2", "LefParser::parse_geometry_tail"),
                 ("lef_parse2", "LefParser::parse_geometry"),
                 ("lef_parse3", "LefParser::parse_layer_geometries"), ("lef_parse3", "LefParser::parse_via_shape"), ("lef_parse3", "LefParser::parse_via_layer_geometries"),
                 ("lef_parse3", "LefParser::parse_obstructions"), ("lef_parse3", "LefParser::parse_port"), ("lef_parse3", "LefParser::parse_property_definition_tail"),
                 ("lef_parse3", "LefParser::parse_property_definitions"),
                 ("lef_parse_lib", "LefParser::parse_pin"), ("lef_parse_macro", "LefParser::parse_macro"),
                 ("lef_parse2", "LefParser::parse_bus_bit_chars"), ("lef_parse2", "LefParser::parse_divider_char"),
                 ("lef_parse_via", "LefParser::parse_via")],
     "generic_inst": {}, "foreign": {"String", "LefDecimal", "LefDbuPerMicron", "Chars"}, "aliases": {"str": "String"},
     "extern": {"LefParser::txt", "LefParser::advance", "LefParser::matches", "LefParser::expect", "LefParser::peek_key", "LefParser::get_key",
                "LefParser::expect_key", "LefParser::parse_ident", "LefParser::parse_number", "LefParser::parse_point", "LefParser::parse_density"},
     "result_aliases": {"LefResult"}, "skip_recv": set()},
]

INT_TAG = {"isize": "Isize", "usize": "Usize", "i128": "I128", "u64": "U64", "i64": "I64", "i32": "I32", "u32": "U32",
           "i16": "I16", "u8": "U8", "u16": "U16"}
RESERVED = {"M", "F", "I", "ops", "fst", "snd", "negb", "andb", "orb", "Some", "None", "true", "false", "tt", "nil", "cons",
            "list", "option", "bool", "unit", "Z", "pair", "fix", "end", "in", "at", "as", "match", "exists", "fun", "let",
            "if", "then", "else", "return", "with", "Type", "Set", "Prop", "forall", "struct", "where", "using", "Brk", "Cont",
            "ctrl", "kops", "nat", "O", "S", "cofix", "for", "xops", "kxops", "kptr", "kopaque", "app", "rev", "length"}

def mangle(name):
    return name + "_" if (name in RESERVED or name.startswith("g_") or name.startswith("ext_") or name.startswith("t__")
                          or name.startswith("T_") or name.startswith("m__")) else name

class Val:
    """a translated expression: kind 'P' (pure Gallina term of the value's type) or 'M' (term of type M <type>).
    A value of type ("res", T) (a Rust Result) is always of kind 'M' with a term of type M T."""
    def __init__(self, kind, term, ty, fail=False):
        self.kind, self.term, self.ty, self.fail = kind, term, ty, fail

class Ctx:
    """what `Self`, the type parameters and the associated types mean at some place"""
    def __init__(self, self_ty=None, impl_generics=(), assoc=None, fn_generics=(), fn_name=None):
        self.self_ty, self.impl_generics, self.assoc, self.fn_generics = self_ty, list(impl_generics), assoc or {}, list(fn_generics)
        self.fn_name = fn_name

OP_METHOD = {"+": "add", "-": "sub", "*": "mul", "/": "div", "%": "rem"}
DERIVABLE = {"add": ("Add", "AddAssign"), "sub": ("Sub", "SubAssign")}

class World:
    def __init__(self, unit=None):
        self.unit = unit or UNITS[0]
        self.structs, self.fns, self.aliases, self.enums, self.meta = {}, {}, {}, {}, {}
        self.struct_src, self.fn_src = {}, {}
        self.overloads = {}
        self.bad_structs = {}
        self.generic_inst = {k: [parse_type_text(t) for t in v] for k, v in self.unit.get("generic_inst", {}).items()}
        self.foreign = set(self.unit.get("foreign", ()))
        self.result_aliases = set(self.unit.get("result_aliases", ()))
        for k, v in self.unit.get("aliases", {}).items():
            self.aliases[k] = parse_type_text(v)
        self.assoc_inst = {k: parse_type_text(v) for k, v in self.unit.get("assoc_inst", {}).items()}
    def load(self, rel, only=None, text=None):
        if text is None:
            path = os.path.join(REPO, rel)
            try:
                text = open(path, encoding="utf8").read()
            except OSError as ex:
                raise Unsupported("cannot read %s: %s" % (path, ex))
        out = parse_source(text, rel)
        for k, v in out.get("enumstr", {}).items():
            if only is None or k in only:
                self.__dict__.setdefault("enumstr", {})[k] = v
        for k, v in out["aliases"].items():
            if only is None or k in only:
                self.aliases[k] = v
        if rel in self.unit.get("alias_only", ()):
            return
        for kind, store in (("structs", self.structs), ("enums", self.enums)):
            for k, v in out[kind].items():
                if only is not None and k not in only:
                    continue
                if not self.unit.get("xops") and (kind == "enums" or out["meta"][k]["tuple"]):
                    continue        # the first unit knows nothing of enums and tuple structs (its output must not move)
                if (k in self.structs and (kind != "structs" or self.structs[k] != v)) or (k in self.enums and (kind != "enums" or self.enums[k] != v)):
                    msg = "type %s is defined differently in %s and %s" % (k, self.struct_src[k], rel)
                    if not self.unit.get("xops"):
                        raise Unsupported(msg.replace("type", "struct", 1))
                    self.bad_structs[k] = msg
                    continue
                store[k] = v; self.struct_src[k] = rel; self.meta[k] = out["meta"][k]
        if not self.unit.get("xops"):
            # first version: the last definition of a name in a file stands for it; the same name in two files is a clash
            for k, v in out["fns"].items():
                v = [f for f in out["allfns"] if f.name == k][-1]
                if k in self.fns:
                    self.fns[k].clash = True
                    continue
                v.clash = False
                self.fns[k] = v; self.fn_src[k] = rel
            return
        for f in out["allfns"] + (out.get("traitfns", []) if self.unit.get("traits") else []):
            if only is not None and f.name.split("::")[0] not in only:
                continue
            f.clash = False
            f.uname = f.name
            self.overloads.setdefault(f.name, []).append(f)
            self.fn_src[f.name] = rel
    def synth_builders(self):
        """derive_builder: for every struct S with `#[derive(Builder)]` the struct `SBuilder` (every field an Option), its setters
        (`setter(into)` / `strip_option`: a value of an `Option<T>` field may be given as T or as Option<T>: the two setters f and
        f__whole) and `build()` (fields in declaration order: a missing field is the error, or the default value under
        `#[builder(default)]`), written as Rust text and read like the sources"""
        def dflt(txt):
            t = txt.replace(" ", "")
            if t.startswith("Option<"):
                return "None"
            if t.startswith("Vec<"):
                return "Vec::new()"
            if t in INT_TAG:
                return "0"
            if t == "bool":
                return "false"
            return "%s::default()" % t
        for name in list(self.structs):
            meta = self.meta.get(name, {})
            if "Builder" not in meta.get("derives", ()) or meta.get("tuple") or any(ft is None for _, ft in self.structs[name]):
                continue
            ftxt, fb = meta.get("field_text", {}), meta.get("field_builder", {})
            fields = [f for f, _ in self.structs[name]]
            bn = name + "Builder"
            L = ["#[derive(Default)]", "pub struct %s { %s }" % (bn, ", ".join("%s: Option<%s>" % (f, ftxt[f]) for f in fields)), "impl %s {" % bn]
            for f in fields:
                others = ", ".join("%s: self.%s" % (g, g) for g in fields if g != f)
                t = ftxt[f].replace(" ", "")
                def setter(nm, pty, val):
                    return "    fn %s(self, value: %s) -> %s { %s { %s: Some(%s)%s } }" % (nm, pty, bn, bn, f, val, (", " + others) if others else "")
                if t.startswith("Option<"):
                    inner = ftxt[f].strip()[len("Option"):].strip()[1:-1].strip()
                    L.append(setter(f, inner, "Some(value)"))
                    L.append(setter(f + "__whole", ftxt[f], "value"))
                else:
                    L.append(setter(f, ftxt[f], "value"))
            parts = []
            for f in fields:
                miss = dflt(ftxt[f]) if "default" in fb.get(f, ()) else 'return Err(String::from("%s"))' % f
                parts.append("%s: match self.%s { Some(v) => v, None => %s }" % (f, f, miss))
            L.append("    fn build(self) -> Result<%s, String> { Ok(%s { %s }) }" % (name, name, ", ".join(parts)))
            L.append("}")
            self.load("<derive(Builder) of %s, %s>" % (name, self.struct_src[name]), text="\n".join(L))

    def finish(self):
        """after all files: the plain name of an overloaded function is ambiguous; operator impls get the type of the
        right operand into their name"""
        if self.unit.get("builders"):
            self.synth_builders()
        if not self.unit.get("xops"):
            return
        for name, lst in self.overloads.items():
            pre = [f for f in lst if f.fname.startswith("<prelude")]
            if pre and len(pre) < len(lst):
                lst[:] = pre        # a declaration of the prelude REPLACES the item of the sources (a signature outside the subset)
            self.fns[name] = lst[0]
            if len(lst) > 1:
                seen = set()
                for f in lst:
                    f.clash = True
                    if f.trait is not None and f.trait[0] == "gen":
                        f.uname = name + "_" + "_".join(type_key(a) for a in f.trait[2])
                    elif self.unit.get("sets") and all(q[1] is not None for q in f.params if q[0] != "self"):
                        # several declarations of one method in the prelude (a parameter `&impl Trait` at each type used)
                        f.uname = name + "__" + "_".join(type_key(q[1]) for q in f.params if q[0] != "self")
                    if f.uname in seen:
                        f.uname = None
                    seen.add(f.uname)

    def fn_ctx(self, f):
        return Ctx(f.self_ty, f.impl_generics, f.assoc, f.fn_generics, f.name)
    def struct_ctx(self, name):
        gens = self.meta.get(name, {}).get("generics", [])
        return Ctx(("gen", name, tuple(("named", g) for g in gens)) if gens else ("named", name), gens)

    def tparam(self, n, ctx):
        if ctx is None:
            return None
        if n in ctx.impl_generics:
            st = ctx.self_ty
            if st is not None and st[0] == "gen" and st[1] in self.generic_inst:
                for i, a in enumerate(st[2]):
                    if a == ("named", n) and i < len(self.generic_inst[st[1]]):
                        return self.resolve(self.generic_inst[st[1]][i])
            raise Unsupported("type parameter %s of a generic impl that is not instantiated for this unit (GENERIC_INST)" % n)
        if n in ctx.fn_generics:
            inst = self.unit.get("fn_generic_inst", {}).get(ctx.fn_name, {}).get(n)
            if inst is not None:
                return self.resolve(parse_type_text(inst))      # a generic function read at ONE instance per unit (FN_GENERIC_INST)
            raise Unsupported("type parameter %s of a generic function" % n)
        return None

    def nominal(self, n, args, ctx):
        if n in self.bad_structs:
            raise Unsupported(self.bad_structs[n])
        if n in self.foreign:
            return ("foreign", n)
        if n in self.structs or n in self.enums:
            gens = self.meta[n]["generics"]
            if gens:
                inst = self.generic_inst.get(n)
                if inst is None or len(inst) != len(gens):
                    raise Unsupported("generic type %s is not instantiated for this unit (GENERIC_INST)" % n)
                if args:
                    if len(args) != len(gens):
                        raise Unsupported("%s takes %d type arguments" % (n, len(gens)))
                    for a, i in zip(args, inst):
                        if self.resolve(a, ctx) != self.resolve(i):
                            raise Unsupported("%s<%s> is not the instance of %s fixed for this unit" % (n, type_key(a), n))
            elif args:
                raise Unsupported("%s takes no type arguments" % n)
            return ("struct", n) if n in self.structs else ("enum", n)
        if not self.unit.get("xops"):
            raise Unsupported("type %s is not a struct or alias of the translated files" % n)
        raise Unsupported("type %s is not a struct, enum or alias of the translated files" % n)

    def resolve(self, ty, ctx=None):
        """expand aliases, Self, type parameters and associated types; named types must be known structs / enums"""
        if ty is None:
            raise Unsupported("a type outside the subset is needed here")
        if ctx is not None and not isinstance(ctx, Ctx):
            ctx = Ctx(ctx)          # first version: the second argument was the self type
        k = ty[0]
        if k == "self":
            if ctx is None or ctx.self_ty is None:
                raise Unsupported("`Self` outside an impl")
            return self.resolve(ctx.self_ty, ctx)
        if k == "assoc":
            if ctx is None or ctx.assoc.get(ty[1]) is None:
                raise Unsupported("the associated type Self::%s is not defined (in the subset) in this impl" % ty[1])
            return self.resolve(ctx.assoc[ty[1]], ctx)
        if k == "passoc":
            key = "%s::%s" % (ty[1], ty[2])
            if key not in self.assoc_inst:
                raise Unsupported("the associated type %s of a type parameter is not instantiated for this unit (ASSOC_INST)" % key)
            return self.resolve(self.assoc_inst[key])
        if k == "named" and ty[1] == "char" and self.unit.get("strings"):
            return ("char",)        # a Unicode scalar value (its carrier is the integers'; its Display is its own)
        if k == "named":
            sub = self.tparam(ty[1], ctx)
            if sub is not None:
                return sub
            if ty[1] in self.aliases:
                return self.resolve(self.aliases[ty[1]])
            return self.nominal(ty[1], (), ctx)
        if k == "gen":
            n, args = ty[1], ty[2]
            if n in self.result_aliases and len(args) >= 1:
                return ("res", self.resolve(args[0], ctx))
            if n == "Ptr" and len(args) == 1 and self.unit.get("xops"):
                return ("ptr", self.resolve(args[0], ctx))
            if self.unit.get("sets"):
                if n == "PtrList" and len(args) == 1:
                    return ("vec", ("ptr", self.resolve(args[0], ctx)))       # layout21utils: PtrList<T>(Vec<Ptr<T>>), used through Deref
                if n == "HashSet" and len(args) == 1:
                    return ("hset", self.resolve(args[0], ctx))
                if n in ("HashMap", "SlotMap") and len(args) == 2:
                    return ("hmap", self.resolve(args[0], ctx), self.resolve(args[1], ctx))       # (a SlotMap: lookups by key only)
            if not self.unit.get("xops"):
                raise Unsupported("generic type %s<..> is outside the subset" % n)
            return self.nominal(n, args, ctx)
        if k == "res":
            return ("res", self.resolve(ty[1], ctx))
        if k == "arr":
            if self.unit.get("sets") and ty[2] != 2:
                return ("vec", self.resolve(ty[1], ctx))       # `[T; N]` for N other than 2: a list (indexing is checked)
            return ("arr", self.resolve(ty[1], ctx), ty[2])
        if k == "tup":
            return ("tup", tuple(self.resolve(t, ctx) for t in ty[1]))
        if k in ("vec", "opt", "hset"):
            return (k, self.resolve(ty[1], ctx))
        if k == "hmap":
            return (k, self.resolve(ty[1], ctx), self.resolve(ty[2], ctx))
        return ty
    def resolve_or_opaque(self, ty, ctx=None):
        try:
            return self.resolve(ty, ctx)
        except Unsupported:
            return ("opaque",)

def cty(ty):
    k = ty[0]
    if k == "f64":
        return "F"
    if k == "int" or k == "char":
        return "I"
    if k == "bool":
        return "bool"
    if k == "unit":
        return "unit"
    if k == "arr":
        if ty[2] != 2:
            raise Unsupported("arrays of length %d (only [T; 2] is in the subset)" % ty[2])
        return "(%s * %s)" % (cty(ty[1]), cty(ty[1]))
    if k == "tup":
        return "(" + " * ".join(cty(t) for t in ty[1]) + ")"
    if k == "struct":
        return "(g%s F I)" % ty[1]
    if k == "vec":
        return "(list %s)" % cty(ty[1])
    if k == "opt":
        return "(option %s)" % cty(ty[1])
    if k == "enum":
        return "(g%s F I)" % ty[1]
    if k == "ptr":
        return "kptr"
    if k == "foreign":
        return "T_%s" % ty[1]
    if k == "opaque":
        return "kopaque"
    if k == "hset":
        return "(ks_t %s)" % opsvar(ty)
    if k == "hmap":
        return "(km_t %s)" % opsvar(ty)
    raise Unsupported("type %r has no Gallina rendering" % (ty,))

def opsvar(ty):
    """name of the Section variable with the operations of the finite sets / maps of this key (and value) type"""
    if ty[0] == "hset":
        return "sops_" + type_key(ty[1])
    return "mops_%s_%s" % (type_key(ty[1]), type_key(ty[2]))

def tag(ty):
    if ty[0] != "int" or ty[1] not in INT_TAG:
        raise Unsupported("integer type %r is not supported" % (ty,))
    return INT_TAG[ty[1]]

def untyped_int(e):
    if e.kind == "int":
        return e.suffix is None
    if e.kind == "un" and e.op == "-":
        return untyped_int(e.e)
    if e.kind == "bin" and e.op in ("+", "-", "*", "/", "%"):
        return untyped_int(e.l) and untyped_int(e.r)
    return False

FMT_ARGS_COUNT = [False]      # set per unit: do the arguments of `format!` count as uses (only where templates are translated)

def names_used(node, acc):
    """identifiers that occur as single-segment paths (and `self`) in an AST"""
    if isinstance(node, N):
        if node.kind == "fmt" and not FMT_ARGS_COUNT[0]:
            return acc
        if node.kind == "fmt":
            for kind_, x_ in (node.pieces or []):
                if kind_ == "hole":
                    names_used(x_, acc)
            return acc
        if node.kind == "path" and len(node.segs) == 1:
            acc.add(node.segs[0])
        for k, v in node.__dict__.items():
            if k in ("kind", "line"):
                continue
            names_used(v, acc)
    elif isinstance(node, (list, tuple)):
        for x in node:
            names_used(x, acc)
    return acc

MUTATORS = ("push", "pop", "insert")      # Vec methods that are assignments to their receiver

def has_kind(node, kind):
    if isinstance(node, N):
        if node.kind == kind:
            return True
        return any(has_kind(v, kind) for k, v in node.__dict__.items() if k not in ("kind", "line"))
    if isinstance(node, (list, tuple)):
        return any(has_kind(x, kind) for x in node)
    return False

def mutates_self(node, skip_recv):
    """does the body assign to self (directly, through a Vec method, or through `&mut self.place`)?"""
    if isinstance(node, N):
        if node.kind == "assign" and node.lhs.kind != "tuple" and lvalue_root(node.lhs) == "self":
            return True
        if node.kind == "mcall" and node.name in MUTATORS and lvalue_root(node.recv) == "self" and place_text(node.recv) not in skip_recv:
            return True
        if node.kind == "refmut" and lvalue_root(node) == "self":
            return True
        return any(mutates_self(v, skip_recv) for k, v in node.__dict__.items() if k not in ("kind", "line"))
    if isinstance(node, (list, tuple)):
        return any(mutates_self(x, skip_recv) for x in node)
    return False

def lvalue_root(e):
    while e.kind in ("field", "index", "tupidx", "refmut"):
        e = e.e
    if e.kind == "path" and len(e.segs) == 1:
        return e.segs[0]
    return None

def assigned_roots(node, acc):
    if isinstance(node, N):
        if node.kind == "assign":
            if node.lhs.kind == "tuple":
                for x in node.lhs.es:
                    r = lvalue_root(x)
                    if r:
                        acc.append(r)
            else:
                r = lvalue_root(node.lhs)
                if r:
                    acc.append(r)
        if node.kind == "mcall" and node.name in MUTATORS:
            r = lvalue_root(node.recv)
            if r:
                acc.append(r)
        for k, v in node.__dict__.items():
            if k in ("kind", "line"):
                continue
            assigned_roots(v, acc)
    elif isinstance(node, (list, tuple)):
        for x in node:
            assigned_roots(x, acc)
    return acc

def let_names(node, acc):
    if isinstance(node, N):
        if node.kind == "let":
            pat_names(node.pat, acc)
        if node.kind == "for":
            pat_names(node.pat, acc)
        if node.kind == "if" and node.letvar:
            acc.add(node.letvar)
        if node.kind == "if" and getattr(node, "letpat", None) is not None:
            pat_names(node.letpat, acc)
        if node.kind == "match":
            for p_, g_, b_ in node.arms:
                pat_names(p_, acc)
        if node.kind == "closure":
            for p_ in node.params:
                pat_names(p_, acc)
        for k, v in node.__dict__.items():
            if k in ("kind", "line"):
                continue
            let_names(v, acc)
    elif isinstance(node, (list, tuple)):
        for x in node:
            let_names(x, acc)
    return acc

def pat_names(p, acc):
    if p.kind == "pvar":
        acc.add(p.name)
    elif p.kind in ("ptup", "pts"):
        for q in p.pats:
            pat_names(q, acc)
    elif p.kind == "pstruct":
        for _, q in p.fields:
            pat_names(q, acc)
    elif p.kind == "por":
        for q in p.alts:
            pat_names(q, acc)
    return acc

def unify(a, b):
    """the common type of a and b, None standing for `not known` / `diverges`; raises ValueError when there is none"""
    if a is None:
        return b
    if b is None:
        return a
    if a == b:
        return a
    if a[0] == b[0] and a[0] in ("res", "opt", "vec", "hset"):
        return (a[0], unify(a[1], b[1]))
    if a[0] == b[0] == "hmap":
        return ("hmap", unify(a[1], b[1]), unify(a[2], b[2]))
    if a[0] == b[0] == "tup" and len(a[1]) == len(b[1]):
        return ("tup", tuple(unify(x, y) for x, y in zip(a[1], b[1])))
    raise ValueError

def coq_string(text):
    """the text of a Coq string literal (Coq reads `""` as one quote; every other character stands for itself)"""
    return text.replace('"', '""')

def unescape(body, node, g):
    """the characters of a Rust string literal (the escapes the sources use)"""
    out, i = "", 0
    while i < len(body):
        c = body[i]
        if c == "\\":
            n = body[i + 1:i + 2]
            if n == "n":
                out += "\n"
            elif n == "t":
                out += "\t"
            elif n in ('"', "\\", "'"):
                out += n
            else:
                g.err(node, "the escape `\\%s` in a string literal is outside the subset" % n)
            i += 2
            continue
        out += c; i += 1
    return out

def unify_or_none(a, b):
    try:
        return unify(a, b)
    except ValueError:
        return None

def place_text(e):
    """`self.ctx` for the expression self.ctx; None for anything that is not a chain of fields from a name"""
    if e.kind == "refmut":
        return place_text(e.e)
    if e.kind == "path" and len(e.segs) == 1:
        return e.segs[0]
    if e.kind == "field":
        b = place_text(e.e)
        return None if b is None else b + "." + e.name
    return None

# ---- exhaustiveness of a list of patterns (Maranget's usefulness), on normalised patterns:
#      ("w",) wildcard / binding, ("c", constructor, [sub-patterns]), ("o", [alternatives])
def useful(rows, q, tys, ctors_of):
    """is the pattern vector q useful after the rows (all of the types tys)?"""
    if not q:
        return not rows
    rows2 = []
    for r in rows:          # expand or-patterns in the first column
        if r[0][0] == "o":
            for alt in r[0][1]:
                rows2.append([alt] + r[1:])
        else:
            rows2.append(r)
    rows = rows2
    q0 = q[0]
    if q0[0] == "o":
        return any(useful(rows, [alt] + q[1:], tys, ctors_of) for alt in q0[1])
    ctors = ctors_of(tys[0])       # [(name, [payload types])] or None (infinite / unknown)
    def specialise(c, arity, rws):
        out = []
        for r in rws:
            if r[0][0] == "w":
                out.append([("w",)] * arity + r[1:])
            elif r[0][0] == "c" and r[0][1] == c:
                out.append(list(r[0][2]) + r[1:])
        return out
    if q0[0] == "c":
        sub_tys = None
        if ctors is not None:
            for cn, ts in ctors:
                if cn == q0[1]:
                    sub_tys = ts
        if sub_tys is None:
            sub_tys = [None] * len(q0[2])
        return useful(specialise(q0[1], len(q0[2]), rows), list(q0[2]) + q[1:], list(sub_tys) + tys[1:], ctors_of)
    heads = {r[0][1] for r in rows if r[0][0] == "c"}
    if ctors is not None and ctors and all(cn in heads for cn, _ in ctors):
        return any(useful(specialise(cn, len(ts), rows), [("w",)] * len(ts) + q[1:], list(ts) + tys[1:], ctors_of) for cn, ts in ctors)
    return useful([r[1:] for r in rows if r[0][0] == "w"], q[1:], tys[1:], ctors_of)

def rename_var(node, old, new):
    """rename every occurrence (binding or use) of the local `old` inside node, in place"""
    if isinstance(node, N):
        if node.kind == "path" and node.segs == [old]:
            node.segs = [new]
        if node.kind == "pvar" and node.name == old:
            node.name = new
        if node.kind == "if" and node.letvar == old:
            node.letvar = new
        for k, v in list(node.__dict__.items()):
            if k in ("kind", "line"):
                continue
            if isinstance(v, tuple) and not isinstance(v, N):
                v2 = list(v)
                rename_var(v2, old, new)
                # tuples hold (name, node) pairs: the nodes were renamed in place
            else:
                rename_var(v, old, new)
    elif isinstance(node, (list, tuple)):
        for x in node:
            rename_var(x, old, new)

def rename_shadowing_loops(node, bound, counter):
    """a `for` variable that has the name of a parameter or of a local bound earlier gets a fresh name inside its loop
    (the translation moves the rest of a block into branches and loop bodies into their own definitions: the outer name
    must stay visible under its own name after the loop)"""
    if isinstance(node, N):
        if node.kind == "let":
            rename_shadowing_loops(node.init, bound, counter)
            pat_names(node.pat, bound)
            return
        if node.kind == "for":
            rename_shadowing_loops(node.lo, bound, counter)
            rename_shadowing_loops(node.hi, bound, counter)
            for nm in sorted(pat_names(node.pat, set())):
                if nm in bound:
                    counter[0] += 1
                    new = "%s__l%d" % (nm, counter[0])
                    rename_var(node.pat, nm, new)
                    rename_var(node.body, nm, new)
            pat_names(node.pat, bound)
            rename_shadowing_loops(node.body, bound, counter)
            return
        for k, v in node.__dict__.items():
            if k not in ("kind", "line"):
                rename_shadowing_loops(v, bound, counter)
    elif isinstance(node, (list, tuple)):
        for x in node:
            rename_shadowing_loops(x, bound, counter)

def self_name(ty):
    """the name of the type of an impl (`GdsReader` for `impl<R> GdsReader<R>`)"""
    if ty is None:
        return None
    if ty[0] in ("named", "gen"):
        return ty[1]
    return None

def is_fail_return(body, fail_methods):
    """is this arm body `return Err(..)` / `return self.fail(..)` (possibly in a block)?"""
    b = body
    if b.kind == "block" and len(b.stmts) == 1:
        b = b.stmts[0]
        if b.kind == "exprstmt":
            b = b.e
    if b.kind != "return" or b.e is None:
        return False
    r = b.e
    if r.kind == "call" and r.path == ["Err"]:
        return True
    if r.kind == "mcall" and r.recv.kind == "path" and r.recv.segs == ["self"] and r.name in fail_methods:
        return True
    return False

class FnGen:
    def __init__(self, tr, fn):
        self.tr, self.w, self.fn = tr, tr.w, fn
        self.unit = tr.unit
        self.x = bool(self.unit.get("xops"))
        self.ctx = self.w.fn_ctx(fn) if self.x else Ctx(fn.self_ty)
        self.mon_name = self_name(fn.self_ty) if self_name(fn.self_ty) in tr.unit.get("self_state", ()) else None
        if self.mon_name is not None:
            try:
                self.self_ty = self.w.resolve(fn.self_ty, self.ctx)
            except Unsupported:
                self.self_ty = None
        else:
            self.self_ty = self.w.resolve(fn.self_ty, self.ctx) if fn.self_ty is not None else None
        self.fail_methods = set(tr.unit.get("fail_methods", ())) | {"fail"}
        self.fueled = tr.needs_fuel(fn)
        self.used_fuel = False
        self.use_names = {}
        self.arr_hint = None
        self.hint_ty = None
        self.tmp = 0
        self.aux = []
        self.nloop = 0
        self.externs = self.unit.get("extern_args", {}).get(fn.name, [])
        self.mut_self = False
        self.structs_used = set()
        self.sets = bool(self.unit.get("sets"))
        self.mut_name = "self"
        self.mut_params = ["self"]
        self.glob_enums = set()
        self.nhoist = 0

    def err(self, node, msg):
        raise Unsupported("%s:%d: in fn %s: %s" % (self.fn.fname, getattr(node, "line", self.fn.line), self.fn.name, msg))
    def fresh(self):
        self.tmp += 1
        return "t__%d" % self.tmp
    def res(self, ty, node=None):
        try:
            t = self.w.resolve(ty, self.ctx)
        except Unsupported as ex:
            self.err(node or self.fn, str(ex))
        self.note_struct(t)
        return t
    def note_struct(self, t):
        if t is None:
            return
        if t[0] in ("struct", "enum"):
            self.structs_used.add(t[1])
        elif t[0] == "foreign":
            self.tr.foreign_used.add(t[1])
        elif t[0] in ("arr", "vec", "opt", "res", "ptr"):
            self.note_struct(t[1])
        elif t[0] == "hset":
            self.note_struct(t[1])
            if t[1] is not None:
                self.tr.ops_used[opsvar(t)] = t
        elif t[0] == "hmap":
            self.note_struct(t[1]); self.note_struct(t[2])
            if t[1] is not None and t[2] is not None:
                self.tr.ops_used[opsvar(t)] = t
        elif t[0] == "tup":
            for x in t[1]:
                self.note_struct(x)
    def mk(self, sn):
        """the record constructor; in the second part of the subset with its (phantom) parameters, which Coq cannot always infer"""
        return "@mk_g%s F I" % sn if self.x else "mk_g%s" % sn
    def fields_of(self, sn):
        """the kept fields of struct sn: [(name, resolved type)]"""
        return self.tr.kept_fields(sn)

    # ---- plumbing
    def ret(self, term):
        return "(k_ret ops %s)" % term
    def toM(self, v):
        return v.term if v.kind == "M" else self.ret(v.term)
    def seq(self, vals, build):
        names, binders = [], []
        for v in vals:
            if v.kind == "P":
                names.append(v.term)
            else:
                t = self.fresh()
                binders.append((t, v.term)); names.append(t)
        r = build(names)
        if not binders:
            return r
        body = self.toM(r)
        for t, e in reversed(binders):
            body = "(k_bind ops %s (fun %s => %s))" % (e, t, body)
        return Val("M", body, r.ty)

    def same(self, a, b, node, what):
        try:
            return unify(a, b)
        except ValueError:
            self.err(node, "type mismatch in %s: %r against %r" % (what, a, b))

    # ---- patterns
    def pat_str(self, p):
        if p.kind == "pvar":
            return mangle(p.name)
        if p.kind == "pwild":
            return "_"
        return "(" + ", ".join(self.pat_str(q) for q in p.pats) + ")"
    def pat_bind(self, p, ty, env, node):
        if p.kind == "pvar":
            env[p.name] = ty
        elif p.kind == "ptup":
            if ty is None or ty[0] != "tup" or len(ty[1]) != len(p.pats):
                self.err(node, "tuple pattern against the type %r" % (ty,))
            for q, t in zip(p.pats, ty[1]):
                self.pat_bind(q, t, env, node)
    def let_(self, p, v, restf, env, node):
        """bind pattern p to v, then the rest (a function of the extended environment)"""
        env2 = dict(env)
        self.pat_bind(p, v.ty, env2, node)
        r = restf(env2)
        ps = self.pat_str(p)
        if p.kind == "ptup":
            ps = "'" + ps
        if v.kind == "P":
            return Val(r.kind, "(let %s := %s in %s)" % (ps, v.term, r.term), r.ty)
        return Val("M", "(k_bind ops %s (fun %s => %s))" % (v.term, ps, self.toM(r)), r.ty)

    # ---- expressions
    def ex(self, e, env, expect=None):
        k = e.kind
        if k == "int":
            if e.suffix:
                ty = ("int", e.suffix)
            elif expect is not None and expect[0] == "int":
                ty = expect
            elif expect is not None and expect[0] == "f64":
                self.err(e, "integer literal where an f64 is expected")
            else:
                ty = ("int", "i32")
            tag(ty)
            return Val("P", "(i_lit ops %d)" % e.val if e.val >= 0 else "(i_lit ops (%d))" % e.val, ty)
        if k == "float":
            if e.mant == 0:
                return Val("P", "(f_zero ops)", ("f64",))
            if e.mant == 1 and e.e10 == 0:
                return Val("P", "(f_one ops)", ("f64",))
            return Val("P", "(f_lit ops %d (%d))" % (e.mant, e.e10), ("f64",))
        if k == "bool":
            return Val("P", "true" if e.val else "false", ("bool",))
        if k == "path":
            return self.ex_path(e, env)
        if k == "field":
            sfe = self.unit.get("self_field_ext")
            if sfe and self.mon_name is not None and "self" not in env and place_text(e) in sfe:
                # monadic self: a field of the state that the unit keeps outside the generated record (`self.session.lef_version`), read by an external operation
                nm_, tyt_ = sfe[place_text(e)]
                ty_ = self.res(parse_type_text(tyt_), e)
                self.tr.externs_used.setdefault("ext_self_%s" % nm_, ("M %s" % cty(ty_), "the field %s of the state, read" % place_text(e)))
                return Val("M", "ext_self_%s" % nm_, ty_)
            b = self.ex(e.e, env)
            def build(ns):
                ty = b.ty
                if ty is None or ty[0] != "struct":
                    self.err(e, "field .%s of a value of type %r" % (e.name, ty))
                return self.proj(ty[1], e.name, ns[0], e)
            return self.seq([b], build)
        if k == "tupidx":
            b = self.ex(e.e, env)
            def build(ns):
                ty = b.ty
                if ty is not None and ty[0] == "struct" and self.w.meta.get(ty[1], {}).get("tuple"):
                    return self.proj(ty[1], str(e.idx), ns[0], e)
                if ty is None or ty[0] != "tup" or e.idx >= len(ty[1]):
                    self.err(e, "tuple index .%d of a value of type %r" % (e.idx, ty))
                return Val("P", self.tup_proj(ns[0], len(ty[1]), e.idx), ty[1][e.idx])
            return self.seq([b], build)
        if k == "index":
            b = self.ex(e.e, env)
            if b.ty is not None and b.ty[0] == "arr":
                if e.idx.kind != "int" or e.idx.val not in (0, 1) or b.ty[2] != 2:
                    self.err(e, "index into a fixed array must be the literal 0 or 1 of a [T; 2]")
                return self.seq([b], lambda ns: Val("P", "(%s %s)" % ("fst" if e.idx.val == 0 else "snd", ns[0]), b.ty[1]))
            if b.ty is not None and b.ty[0] == "vec" and e.idx.kind == "range":
                lo, hi = self.range_lits(e.idx)
                self.tr.need_l = True
                return self.seq([b], lambda ns: Val("M", "(k_slice ops %s %d %d)" % (ns[0], lo, hi), b.ty))
            if b.ty is not None and b.ty[0] == "vec":
                i = self.ex(e.idx, env, ("int", "usize"))
                if i.ty != ("int", "usize"):
                    self.err(e, "Vec index of type %r" % (i.ty,))
                return self.seq([b, i], lambda ns: Val("M", "(v_get ops %s %s)" % (ns[0], ns[1]), b.ty[1]))
            if self.x and b.ty is not None and b.ty[0] in ("struct", "enum", "foreign"):
                f = self.pick_overload(b.ty[1], "index", e.idx, env, e)
                return self.emit_call(f[0], [e.idx], b, env, e, arg_vals=f[1])
            self.err(e, "index into a value of type %r" % (b.ty,))
        if k == "un":
            if e.op == "-":
                if untyped_int(e) and e.e.kind == "int":
                    ty = expect if (expect is not None and expect[0] == "int") else ("int", "i32")
                    tag(ty)
                    return Val("P", "(i_lit ops (-%d))" % e.e.val, ty)
                a = self.ex(e.e, env, expect)
                if self.x and a.ty is not None and a.ty[0] in ("struct", "enum", "foreign"):
                    return self.emit_call(self.callee("%s::neg" % a.ty[1], e), [], a, env, e)
                if a.ty == ("f64",):
                    return self.seq([a], lambda ns: Val("M", "(f_neg ops %s)" % ns[0], a.ty))
                if a.ty is not None and a.ty[0] == "int":
                    return self.seq([a], lambda ns: Val("M", "(i_neg ops %s %s)" % (tag(a.ty), ns[0]), a.ty))
                self.err(e, "unary minus on %r" % (a.ty,))
            a = self.ex(e.e, env, expect)
            if self.x and a.ty is not None and a.ty[0] in ("struct", "enum", "foreign"):
                return self.emit_call(self.callee("%s::not" % a.ty[1], e), [], a, env, e)
            if a.ty != ("bool",):
                self.err(e, "`!` on %r (only bool is in the subset)" % (a.ty,))
            return self.seq([a], lambda ns: Val("P", "(negb %s)" % ns[0], ("bool",)))
        if k == "bin":
            return self.ex_bin(e, env, expect)
        if k == "cast":
            a = self.ex(e.e, env, None if not untyped_int(e.e) else None)
            to = self.res(e.ty, e)
            if a.ty is None:
                self.err(e, "cast of a diverging expression")
            if a.ty[0] == "int" and to == ("f64",):
                return self.seq([a], lambda ns: Val("M", "(i_to_f ops %s %s)" % (tag(a.ty), ns[0]), to))
            if a.ty == ("f64",) and to[0] == "int":
                return self.seq([a], lambda ns: Val("M", "(f_to_i ops %s %s)" % (tag(to), ns[0]), to))
            if a.ty[0] == "int" and to[0] == "int":
                if a.ty == to:
                    return a
                return self.seq([a], lambda ns: Val("M", "(i_cast ops %s %s %s)" % (tag(a.ty), tag(to), ns[0]), to))
            if a.ty == to:
                return a
            if self.sets and a.ty == ("bool",) and to[0] == "int":
                tag(to)     # `b as u8`: 1 for true, 0 for false
                return self.seq([a], lambda ns: Val("P", "(if %s then (i_lit ops 1) else (i_lit ops 0))" % ns[0], to))
            self.err(e, "cast from %r to %r" % (a.ty, to))
        if k == "call":
            return self.ex_call(e, env, expect)
        if k == "mcall":
            return self.ex_mcall(e, env, expect)
        if k == "tuple":
            exps = expect[1] if (expect is not None and expect[0] == "tup" and len(expect[1]) == len(e.es)) else [None] * len(e.es)
            vs = [self.ex(x, env, t) for x, t in zip(e.es, exps)]
            if not vs:
                return Val("P", "tt", ("unit",))
            if any(v.ty is None for v in vs):
                self.err(e, "diverging component in a tuple")
            return self.seq(vs, lambda ns: Val("P", "(" + ", ".join(ns) + ")", ("tup", tuple(v.ty for v in vs))))
        if k == "array" and self.sets and expect is not None and expect[0] == "vec":
            # `&[a, b, ..]` where a slice is expected: the list of the elements
            vs = []
            elt = expect[1]
            for x in e.es:
                v = self.ex(x, env, elt)
                elt = self.same(elt, v.ty, e, "array literal")
                vs.append(v)
            return self.seq(vs, lambda ns: Val("P", "(" + " :: ".join(ns + ["nil"]) + ")", ("vec", elt)))
        if k == "repeat" and self.unit.get("join"):
            elt = expect[1] if (expect is not None and expect[0] in ("vec", "arr")) else None
            v = self.ex(e.e, env, elt)
            if v.ty is None:
                self.err(e, "`[x; n]` of a diverging expression")
            if e.n == 2 and not (expect is not None and expect[0] == "vec"):
                return self.seq([v], lambda ns: Val("P", "(%s, %s)" % (ns[0], ns[0]), ("arr", v.ty, 2)))
            return self.seq([v], lambda ns: Val("P", "(List.repeat %s %d)" % (ns[0], e.n), ("vec", v.ty)))
        if k == "array" and self.unit.get("join") and len(e.es) != 2 and (expect is None or expect[0] == "vec"):
            elt = expect[1] if expect is not None else None
            vs = []
            for x in e.es:
                v = self.ex(x, env, elt)
                elt = self.same(elt, v.ty, e, "array literal")
                vs.append(v)
            if elt is None:
                self.err(e, "cannot type an empty array literal")
            return self.seq(vs, lambda ns: Val("P", "(" + " :: ".join(ns + ["nil"]) + ")", ("vec", elt)))
        if k == "array":
            elt = expect[1] if (expect is not None and expect[0] == "arr") else None
            if len(e.es) != 2:
                self.err(e, "array literal of length %d (only [T; 2] is in the subset)" % len(e.es))
            vs = []
            for x in e.es:
                v = self.ex(x, env, elt)
                elt = self.same(elt, v.ty, e, "array literal")
                vs.append(v)
            return self.seq(vs, lambda ns: Val("P", "(%s, %s)" % (ns[0], ns[1]), ("arr", elt, 2)))
        if k == "veclit":
            elt = expect[1] if (expect is not None and expect[0] == "vec") else None
            vs = []
            for x in e.es:
                v = self.ex(x, env, elt)
                elt = self.same(elt, v.ty, e, "vec! literal")
                vs.append(v)
            if elt is None:
                self.err(e, "cannot type an empty vec! literal")
            return self.seq(vs, lambda ns: Val("P", "(" + " :: ".join(ns + ["nil"]) + ")", ("vec", elt)))
        if k == "structlit":
            name = e.name
            segs = getattr(e, "segs", [name])
            if self.x and len(segs) >= 2:
                en = segs[-2]
                if en == "Self" and self.self_ty is not None and self.self_ty[0] == "enum":
                    en = self.self_ty[1]
                if en in self.w.enums:
                    return self.variant_value(en, name, dict(e.fields), e.fields, env, e)
            if name == "Self":
                if self.self_ty is None or self.self_ty[0] != "struct":
                    self.err(e, "`Self { .. }` outside a struct impl")
                name = self.self_ty[1]
            elif name in self.w.aliases:
                t = self.res(("named", name), e)
                name = t[1] if t[0] == "struct" else name
            if name not in self.w.structs:
                self.err(e, "struct literal of unknown struct %s" % name)
            self.structs_used.add(name)
            decl = self.w.structs[name]
            given = dict(e.fields)
            base = getattr(e, "base", None)
            defaulted = []
            if base is not None:
                # `..Default::default()` of a derived Default: the fields not written take their default values
                if not (self.sets and base.kind == "call" and base.path == ["Default", "default"] and not base.args
                        and "Default" in self.w.meta[name]["derives"] and "%s::default" % name not in self.w.fns):
                    self.err(e, "struct update syntax other than `..Default::default()` of a derived Default is outside the subset")
                if set(given) - {f for f, _ in decl} or len(set(given)) != len(e.fields):
                    self.err(e, "struct literal %s lists unknown or repeated fields" % name)
                defaulted = [f for f, _ in decl if f not in given]
            elif set(given) != {f for f, _ in decl} or len(e.fields) != len(decl):
                self.err(e, "struct literal %s does not list exactly the declared fields" % name)
            kept = dict(self.tr.literal_fields(name))
            # Rust evaluates the field expressions in the order WRITTEN; the record is built in declaration order
            written = []
            for f, x in e.fields:
                if f in kept:
                    v = self.ex(x, env, kept[f])
                    self.same(kept[f], v.ty, e, "field %s of %s" % (f, name))
                    written.append((f, v))
                elif not self.skippable(x):
                    self.err(e, "field %s of %s has a type outside the subset and its value is not a plain string expression" % (f, name))
            dflt = {f: self.default_term(kept[f], e) for f in defaulted if f in kept}
            def build(ns):
                m = {f: n for (f, _), n in zip(written, ns)}
                m.update(dflt)
                return Val("P", "(%s%s)" % (self.mk(name), "".join(" " + m[f] for f, _ in decl if f in kept)), ("struct", name))
            return self.seq([v for _, v in written], build)
        if k == "fmt" and self.unit.get("strings"):
            return self.ex_fmt(e, env)
        if k == "fmt" and self.x:
            return Val("P", "kopaque_any", ("opaque",))       # (as `format!` was read before the templates were kept)
        if k == "str" and self.unit.get("strings") and e.val.startswith('"') and (expect is None or expect == ("foreign", "String")):
            return self.str_lit(e, unescape(e.val[1:-1], e, self))
        if k == "str":
            if self.sets and "String" in self.w.foreign and expect == ("foreign", "String"):
                lit = e.val
                if not (lit.startswith('"') and lit.endswith('"')) or "\\" in lit:
                    self.err(e, "string literal with escapes / raw string where a String value is needed")
                self.tr.externs_used.setdefault("ext_str_lit", ("String.string -> T_String", "string literals"))
                self.tr.foreign_used.add("String")
                self.tr.need_string = True
                return Val("P", '(ext_str_lit "%s"%%string)' % lit[1:-1].replace('"', '""'), ("foreign", "String"))
            return Val("P", "kopaque_any", ("opaque",))
        if k == "refmut":
            return self.ex(e.e, env, expect)
        if k == "try":
            return self.ex_try(e, env, expect)
        if k == "match":
            esc = [r for r in assigned_roots(e, []) if r in env and r not in let_names(e, set())]
            if esc:
                self.err(e, "assignment to %s inside a match that is used as a value" % ", ".join(sorted(set(esc))))
            return self.match_(e, None, env, KValue(self, expect), value=True)
        if k == "closure":
            self.err(e, "a closure here is outside the subset (only as the argument of map_or / position)")
        if k in ("break", "continue"):
            self.err(e, "`%s` is outside the subset" % k)
        if k in ("block", "if"):
            # a block used as a VALUE: what it assigns would not flow out of it in this translation
            esc = [r for r in assigned_roots(e, []) if r in env and r not in let_names(e, set())]
            if esc:
                self.err(e, "assignment to %s inside a block that is used as a value" % ", ".join(sorted(set(esc))))
            if k == "block":
                return self.stmts(e.stmts, env, KValue(self, expect))
            return self.stmts([N("exprstmt", e.line, e=e, semi=False)], env, KValue(self, expect))
        if k == "macro":
            if e.name in ("unimplemented", "unreachable", "todo", "panic"):
                return Val("M", "(k_panic ops)", None)
            if self.x and e.name == "format":
                return Val("P", "kopaque_any", ("opaque",))
            self.err(e, "macro %s! is outside the subset" % e.name)
        if k == "return":
            self.err(e, "`return` inside an expression (only as a statement of a block in tail position)")
        self.err(e, "expression kind %s is outside the subset" % k)

    def str_lit(self, node, text):
        """a string literal as a value of T_String"""
        self.tr.externs_used.setdefault("ext_str_lit", ("String.string -> T_String", "string literals"))
        self.tr.foreign_used.add("String")
        self.tr.need_string = True
        return Val("P", '(ext_str_lit "%s"%%string)' % coq_string(text), ("foreign", "String"))

    def display(self, v, node):
        """`Display` of a value (`{x}` in a template, `x.to_string()`): a String is itself; any other type goes through the external
        ext_display_<Type> (the `Display` impl of the sources / of `enumstr!` / of another crate)"""
        ty = v.ty
        if ty == ("foreign", "String"):
            return v
        if ty is None:
            self.err(node, "Display of a diverging expression")
        if ty[0] in ("struct", "enum", "foreign"):
            key, cy = ty[1], cty(ty)
        elif ty[0] == "int":
            key, cy = "int", "I"
        elif ty == ("bool",):
            key, cy = "bool", "bool"
        elif ty[0] == "char":
            key, cy = "char", "I"
        else:
            self.err(node, "Display of a value of type %r" % (ty,))
        name = "ext_display_%s" % key
        self.note_struct(ty)
        self.tr.foreign_used.add("String")
        self.tr.externs_used.setdefault(name, ("%s -> T_String" % cy, "impl Display for %s" % key))
        return self.seq([v], lambda ns: Val("P", "(%s %s)" % (name, ns[0]), ("foreign", "String")))

    def concat(self, vals, node):
        self.tr.foreign_used.add("String")
        self.tr.externs_used.setdefault("ext_str_concat", ("(list T_String) -> T_String", "concatenation of strings (format!, push_str)"))
        return self.seq(vals, lambda ns: Val("P", "(ext_str_concat (%s))" % " :: ".join(ns + ["nil"]), ("foreign", "String")))

    def ex_fmt(self, e, env):
        """`format!` / `format_f!` / `format_args_f!`: the pieces of the template in order: literal text, `{expr}` holes (inline
        expressions, parsed like the sources) and `{}` holes (the positional arguments), each under Display"""
        vals = []
        if e.pieces is None:
            self.err(e, "format template outside the subset: %s" % e.why)
        for kind, x in e.pieces:
            if kind == "lit":
                vals.append(self.str_lit(e, x))
            else:
                vals.append(self.display(self.ex(x, env), e))
        return self.concat(vals, e)

    def proj(self, sn, fname, term, node):
        decl = dict(self.w.structs[sn])
        if fname not in decl:
            self.err(node, "struct %s has no field %s" % (sn, fname))
        try:
            ft = self.w.resolve(decl[fname], self.w.struct_ctx(sn) if self.x else self.ctx)
        except Unsupported as ex:
            self.err(node, "field %s of %s: %s" % (fname, sn, ex))
        self.tr.use_field(sn, fname)
        self.note_struct(ft)
        self.structs_used.add(sn)
        return Val("P", "(g%s_%s %s)" % (sn, fname, term), ft)

    def skippable(self, x):
        """an expression that only builds a string (its evaluation has no effect the models follow)"""
        if x.kind in ("str",):
            return True
        if x.kind == "macro" and x.name == "format":
            return True
        if x.kind == "fmt":
            return True
        if place_text(x) is not None:
            return True
        if x.kind == "mcall" and x.name in ("into", "to_string", "clone", "to_owned", "as_str") and not x.args:
            return self.skippable(x.recv)
        if x.kind == "call" and len(x.path) == 2 and x.path[0] == "String" and x.path[1] in ("from", "new"):
            return all(self.skippable(a) for a in x.args)
        return False

    def default_term(self, ty, node):
        """the value of a derived `Default::default()`"""
        if ty[0] == "vec":
            return "nil"
        if ty[0] == "opt":
            return "None"
        if ty[0] == "int":
            return "(i_lit ops 0)"
        if ty == ("bool",):
            return "false"
        if ty == ("f64",):
            return "(f_zero ops)"
        if ty[0] == "struct" and "Default" in self.w.meta[ty[1]]["derives"] and ("%s::default" % ty[1] not in self.w.fns
                or (self.unit.get("let_annot") and len(self.w.fns["%s::default" % ty[1]].params) > 1)):     # (a builder's setter of a field called `default`)
            fields = self.tr.literal_fields(ty[1])
            if len(fields) != len(self.w.structs[ty[1]]):
                self.err(node, "%s::default(): the struct has fields of types outside the subset" % ty[1])
            self.structs_used.add(ty[1])
            return "(%s%s)" % (self.mk(ty[1]), "".join(" " + self.default_term(ft, node) for _, ft in fields))
        self.err(node, "Default::default() at the type %r" % (ty,))

    def fail_val(self):
        if self.unit.get("builder_err") and self.fn.name.endswith("Builder::build") and self.fn.fname.startswith("<derive(Builder)"):
            # derive_builder: `build()` on an uninitialised field is an error of its own (no `self.fail`, no parser state in it)
            self.tr.need_build_err = True
            return Val("M", "(k_build_err _)", ("res", None), fail=True)
        return Val("M", "(k_fail xops)", ("res", None), fail=True)

    def variant_value(self, en, vn, given, written_order, env, node):
        """the value `En::Vn(args)` / `En::Vn { f: e, .. }` / `En::Vn`; given: positional list or field dict"""
        kind, tys, names = self.tr.variant(en, vn, node, self)
        self.structs_used.add(en)
        if kind == "unit":
            if given:
                self.err(node, "%s::%s takes no arguments" % (en, vn))
            return Val("P", "(@g%s_%s F I)" % (en, vn), ("enum", en))
        if kind == "struct":
            if not isinstance(given, dict) or set(given) != set(names):
                self.err(node, "%s::%s { .. } does not list exactly the declared fields" % (en, vn))
            order = [f for f, _ in written_order]
            exprs = [given[f] for f in order]
            pos = [names.index(f) for f in order]
        else:
            if isinstance(given, dict) or len(given) != len(tys):
                self.err(node, "%s::%s takes %d arguments" % (en, vn, len(tys)))
            exprs, pos = list(given), list(range(len(tys)))
        vals = []
        raw = [v_ for v_ in self.w.enums[en] if v_[0] == vn][0][2]
        for x, i in zip(exprs, pos):
            rt_ = raw[i][1] if kind == "struct" else raw[i]
            self.arr_hint = rt_[2] if (rt_ is not None and rt_[0] == "arr") else None
            if tys[i] == ("opaque",):
                if not self.skippable(x):
                    self.err(node, "argument %d of %s::%s has a type outside the subset and is not a plain string expression" % (i, en, vn))
                vals.append(Val("P", "kopaque_any", ("opaque",)))
            else:
                v = self.ex(x, env, tys[i])
                self.same(tys[i], v.ty, node, "argument %d of %s::%s" % (i, en, vn))
                vals.append(v)
        def build(ns):
            m = dict(zip(pos, ns))
            return Val("P", "(@g%s_%s F I %s)" % (en, vn, " ".join(m[i] for i in range(len(tys)))), ("enum", en))
        return self.seq(vals, build)

    def ex_try(self, e, env, expect):
        v = self.ex(e.e, env, ("res", expect))
        if v.ty is not None and v.ty[0] == "tryres":
            fr, to = v.ty[1], v.ty[2]
            return self.seq([Val(v.kind, v.term, fr)], lambda ns: Val("M", "(i_try_from_q xops %s %s %s)" % (tag(fr), tag(to), ns[0]), to))
        if v.ty is not None and v.ty[0] == "tryarr":
            return self.seq([Val(v.kind, v.term, v.ty[1])], lambda ns: Val("M", "(k_vec_into_arr_q xops %d %s)" % (v.ty[2], ns[0]), v.ty[1]))
        if v.ty is None or v.ty[0] != "res":
            self.err(e, "`?` on a value of type %r" % (v.ty,))
        return Val("M", v.term, v.ty[1], fail=v.fail)

    def eq_term(self, ty, a, b, node):
        """pure boolean term for `a == b` at a type with a derived / primitive equality"""
        if ty == ("f64",):
            return "(f_eq ops %s %s)" % (a, b)
        if ty is not None and ty[0] == "int":
            return "(i_eq ops %s %s)" % (a, b)
        if ty == ("bool",):
            return "(Bool.eqb %s %s)" % (a, b)
        if ty is not None and ty[0] == "enum" and "PartialEq" in self.w.meta[ty[1]]["derives"]:
            if all(v[1] == "unit" for v in self.w.enums[ty[1]]):
                self.tr.enum_eq.add(ty[1])
                self.structs_used.add(ty[1])
                return "(g%s_eqb %s %s)" % (ty[1], a, b)
        if ty is not None and ty[0] == "struct" and "PartialEq" in self.w.meta[ty[1]]["derives"]:
            kept = self.fields_of(ty[1])
            if len(kept) == len(self.w.structs[ty[1]]) and kept:
                parts = []
                for f, ft in kept:
                    self.tr.use_field(ty[1], f)
                    parts.append(self.eq_term(ft, "(g%s_%s %s)" % (ty[1], f, a), "(g%s_%s %s)" % (ty[1], f, b), node))
                t = parts[-1]
                for q in reversed(parts[:-1]):
                    t = "(andb %s %s)" % (q, t)
                return t
        self.err(node, "`==` at the type %r (no primitive or derived, field-by-field equality in the subset)" % (ty,))

    def pick_overload(self, tname, method, rhs_node, env, node):
        """the impl of an operator method of type tname for this right operand: (fn item, [translated operand] or None)"""
        cands = list(self.w.overloads.get("%s::%s" % (tname, method), []))
        if not cands:
            d = self.tr.derived(tname, method)
            if d is not None:
                cands = [d]
        if not cands:
            self.err(node, "no `%s` for the type %s in the translated files (impl std::ops / derive)" % (method, tname))
        if len(cands) == 1:
            return cands[0], None
        def rhs_ty(f):
            try:
                ps = self.tr.signature(f)["params"]
                return ps[1][1] if len(ps) == 2 else None
            except Unsupported:
                return None
        if untyped_int(rhs_node):
            ints = [f for f in cands if (rhs_ty(f) or ("?",))[0] == "int"]
            if len(ints) == 1:
                return ints[0], None
            self.err(node, "`%s` of %s with an integer literal: %d impls take an integer" % (method, tname, len(ints)))
        r = self.ex(rhs_node, env)
        hit = [f for f in cands if rhs_ty(f) is not None and rhs_ty(f) == r.ty]
        if len(hit) != 1:
            self.err(node, "`%s` of %s with a right operand of type %r: %d impls fit" % (method, tname, r.ty, len(hit)))
        return hit[0], [r]

    def tup_proj(self, term, n, i):
        # Coq tuples are left-nested pairs: (a, b, c) = ((a, b), c)
        t = term
        for _ in range(n - 1 - i):
            t = "(fst %s)" % t
        if i == 0:
            return t if n > 1 else term
        return "(snd %s)" % t

    def ex_path(self, e, env):
        segs = e.segs
        if self.sets and len(segs) > 2 and all(x[:1].islower() for x in segs[:-2]):
            segs = segs[-2:]
        if len(segs) == 1:
            nm = segs[0]
            if nm in env:
                if env[nm] is not None and env[nm][0] == "alias":
                    return self.ex(env[nm][1], env)      # `let nm = &mut place;`: every use reads the place
                return Val("P", mangle(nm), env[nm])
            if self.x and nm == "None":
                return Val("P", "None", ("opt", None))
            if nm in self.use_names and self.use_names[nm] in self.w.enums:
                return self.variant_value(self.use_names[nm], nm, [], [], env, e)
            if nm in self.unit.get("consts", {}):
                # a `static` / `lazy_static!` of the sources: an external constant
                ty = self.res(parse_type_text(self.unit["consts"][nm]), e)
                self.tr.externs_used.setdefault("ext_const_%s" % nm, (cty(ty), "static %s" % nm))
                return Val("P", "ext_const_%s" % nm, ty)
            if nm == "self" and self.mon_name is not None and self.mon_name in self.w.structs:
                # monadic self: the fields of the state are read through ext_self_get
                ty = ("struct", self.mon_name)
                self.structs_used.add(self.mon_name)
                self.tr.self_getput = ty
                return Val("M", "ext_self_get", ty)
            self.err(e, "unknown name %s" % nm)
        if self.x and len(segs) == 2:
            en = segs[0]
            if en == "Self" and self.self_ty is not None and self.self_ty[0] == "enum":
                en = self.self_ty[1]
            if en in self.w.enums and en not in self.w.bad_structs:
                return self.variant_value(en, segs[1], [], [], env, e)
        if len(segs) == 2 and segs[1] in ("MAX", "MIN"):
            t = self.res(("named", segs[0]) if segs[0] not in INT_TAG else ("int", segs[0]), e)
            if t[0] == "int":
                return Val("P", "(i_%sval ops %s)" % ("max" if segs[1] == "MAX" else "min", tag(t)), t)
        self.err(e, "path %s is outside the subset" % "::".join(segs))

    ARITH_F = {"+": "f_add", "-": "f_sub", "*": "f_mul", "/": "f_div"}
    ARITH_I = {"+": "i_add", "-": "i_sub", "*": "i_mul", "/": "i_div", "%": "i_rem", "&": "i_and", "|": "i_or",
               "<<": "i_shl", ">>": "i_shr"}

    def operands(self, e, env, expect):
        """both operands typed alike (an unsuffixed integer literal takes the type of the other side)"""
        if untyped_int(e.l) and not untyped_int(e.r):
            r = self.ex(e.r, env, expect)
            l = self.ex(e.l, env, r.ty)
        else:
            l = self.ex(e.l, env, expect)
            r = self.ex(e.r, env, l.ty if l.ty is not None else expect)
        return l, r

    def arith(self, op, lt, node):
        if lt == ("f64",):
            if op not in self.ARITH_F:
                self.err(node, "operator %s on f64" % op)
            return lambda a, b: "(%s ops %s %s)" % (self.ARITH_F[op], a, b)
        if lt is not None and lt[0] == "int":
            return lambda a, b: "(%s ops %s %s %s)" % (self.ARITH_I[op], tag(lt), a, b)
        self.err(node, "operator %s on %r" % (op, lt))

    def ex_bin(self, e, env, expect):
        op = e.op
        if op in ("&&", "||"):
            l = self.ex(e.l, env, ("bool",))
            r = self.ex(e.r, env, ("bool",))
            if l.ty != ("bool",) or r.ty != ("bool",):
                self.err(e, "%s on %r, %r" % (op, l.ty, r.ty))
            if r.kind == "P":
                f = "andb" if op == "&&" else "orb"
                return self.seq([l], lambda ns: Val("P", "(%s %s %s)" % (f, ns[0], r.term), ("bool",)))
            if op == "&&":
                return self.seq([l], lambda ns: Val("M", "(if %s then %s else %s)" % (ns[0], r.term, self.ret("false")), ("bool",)))
            return self.seq([l], lambda ns: Val("M", "(if %s then %s else %s)" % (ns[0], self.ret("true"), r.term), ("bool",)))
        if op in ("==", "!=", "<", "<=", ">", ">="):
            l, r = self.operands(e, env, None)
            ty = self.same(l.ty, r.ty, e, "comparison")
            if self.unit.get("strings") and ty is not None and ty[0] == "foreign" and op in ("<", "<=", ">", ">="):
                # PartialOrd of a type of another crate: the external strict order (a <= b read as not (b < a): total orders only)
                nm_ = "ext_%s_lt" % ty[1]
                self.tr.externs_used.setdefault(nm_, ("%s -> %s -> bool" % (cty(ty), cty(ty)), "impl PartialOrd for %s: `<`" % ty[1]))
                def build_f(ns):
                    t = {"<": "(%s %s %s)" % (nm_, ns[0], ns[1]), ">": "(%s %s %s)" % (nm_, ns[1], ns[0]),
                         "<=": "(negb (%s %s %s))" % (nm_, ns[1], ns[0]), ">=": "(negb (%s %s %s))" % (nm_, ns[0], ns[1])}[op]
                    return Val("P", t, ("bool",))
                return self.seq([l, r], build_f)
            if self.unit.get("foreign_eq") and ty is not None and ty[0] == "foreign" and op in ("==", "!="):
                # PartialEq of a type of another crate (`txt == ident` on strings): the external equality test
                nm_ = "ext_%s_eq" % ty[1]
                self.tr.externs_used.setdefault(nm_, ("%s -> %s -> bool" % (cty(ty), cty(ty)), "impl PartialEq for %s: `==`" % ty[1]))
                return self.seq([l, r], lambda ns: Val("P", ("(%s %s %s)" if op == "==" else "(negb (%s %s %s))") % (nm_, ns[0], ns[1]), ("bool",)))
            if self.unit.get("strings") and ty is not None and ty[0] == "opt" and op in ("==", "!=") and (e.l.kind == "path" and e.l.segs == ["None"] or e.r.kind == "path" and e.r.segs == ["None"]):
                other = l if (e.r.kind == "path" and e.r.segs == ["None"]) else r
                tf = ("false", "true") if op == "==" else ("true", "false")
                return self.seq([other], lambda ns: Val("P", "(match %s with Some _ => %s | None => %s end)" % (ns[0], tf[0], tf[1]), ("bool",)))
            if self.x and ty is not None and ty[0] in ("struct", "enum"):
                if op in ("==", "!="):
                    def build_eq(ns):
                        t = self.eq_term(ty, ns[0], ns[1], e)
                        return Val("P", t if op == "==" else "(negb %s)" % t, ("bool",))
                    return self.seq([l, r], build_eq)
                # a derived PartialOrd on a one-field struct compares that field
                kept = self.fields_of(ty[1]) if ty[0] == "struct" else []
                if not ("PartialOrd" in self.w.meta[ty[1]]["derives"] and len(kept) == 1 and len(self.w.structs[ty[1]]) == 1
                        and kept[0][1][0] in ("int", "f64")):
                    self.err(e, "`%s` at the type %r" % (op, ty))
                fn_, ft_ = kept[0]
                self.tr.use_field(ty[1], fn_)
                pfx = "f_" if ft_ == ("f64",) else "i_"
                def build_ord(ns):
                    a, b = ["(g%s_%s %s)" % (ty[1], fn_, n) for n in ns]
                    t = {"<": "(%slt ops %s %s)" % (pfx, a, b), "<=": "(%sle ops %s %s)" % (pfx, a, b),
                         ">": "(%slt ops %s %s)" % (pfx, b, a), ">=": "(%sle ops %s %s)" % (pfx, b, a)}[op]
                    return Val("P", t, ("bool",))
                return self.seq([l, r], build_ord)
            if ty == ("f64",):
                p = "f_"
            elif ty is not None and ty[0] == "int":
                p = "i_"
            else:
                self.err(e, "comparison of %r" % (ty,))
            def build(ns):
                a, b = ns
                t = {"==": "(%seq ops %s %s)" % (p, a, b), "!=": "(negb (%seq ops %s %s))" % (p, a, b),
                     "<": "(%slt ops %s %s)" % (p, a, b), "<=": "(%sle ops %s %s)" % (p, a, b),
                     ">": "(%slt ops %s %s)" % (p, b, a), ">=": "(%sle ops %s %s)" % (p, b, a)}[op]
                return Val("P", t, ("bool",))
            return self.seq([l, r], build)
        if op in ("<<", ">>"):
            l = self.ex(e.l, env, expect)
            r = self.ex(e.r, env, None)
            if l.ty is None or l.ty[0] != "int" or r.ty is None or r.ty[0] != "int":
                self.err(e, "shift of %r by %r" % (l.ty, r.ty))
            return self.seq([l, r], lambda ns: Val("M", "(%s ops %s %s %s)" % (self.ARITH_I[op], tag(l.ty), ns[0], ns[1]), l.ty))
        if op in ("+", "-", "*", "/", "%", "&", "|"):
            if self.x and op in OP_METHOD and not untyped_int(e.l):
                l0 = self.ex(e.l, env, expect if not untyped_int(e.r) else None)
                if l0.ty is not None and l0.ty[0] in ("struct", "enum", "foreign"):
                    f, rv = self.pick_overload(l0.ty[1], OP_METHOD[op], e.r, env, e)
                    return self.emit_call(f, [e.r], l0, env, e, arg_vals=rv)
                # an operand of a primitive type: as before (the left operand is translated again, with no other effect)
            l, r = self.operands(e, env, expect)
            ty = self.same(l.ty, r.ty, e, "operator " + op)
            f = self.arith(op, ty, e)
            return self.seq([l, r], lambda ns: Val("M", f(ns[0], ns[1]), ty))
        self.err(e, "operator %s is outside the subset" % op)

    def callee(self, qn, node):
        if qn not in self.w.fns:
            self.err(node, "call to %s, which is not a function of the translated files" % qn)
        f = self.w.fns[qn]
        if f.clash:
            self.err(node, "%s is defined more than once (ambiguous)" % qn)
        return f

    def is_extern(self, f):
        if not self.x:
            return f.name in self.externs
        return (f.body_range is None or f.name in self.unit.get("extern", ())
                or f.name in self.unit.get("extern_in", {}).get(self.fn.name, ()))

    def emit_call(self, f, args_nodes, recv_val, env, node, arg_vals=None):
        """call of the translated (or extern) function item f; recv_val: already translated receiver or None;
        arg_vals: the already translated arguments, when the caller had to translate them to choose f"""
        sig = self.tr.signature(f)
        params = sig["params"]
        vals = []
        pi = 0
        if recv_val is not None:
            if not params or params[0][0] != "self":
                self.err(node, "%s is not a method" % f.name)
            if sig["mut_self"]:
                self.err(node, "call of the `&mut self` method %s is outside the subset" % f.name)
            self.same(params[0][1], recv_val.ty, node, "receiver of %s" % f.name)
            vals.append(recv_val); pi = 1
        if len(params) - pi != len(args_nodes):
            self.err(node, "%s takes %d arguments, %d given" % (f.name, len(params) - pi, len(args_nodes)))
        raw_ps = [q for q in f.params if q[0] != "self"]
        for i, ((pn, pt), a) in enumerate(zip(params[pi:], args_nodes)):
            if i < len(raw_ps) and raw_ps[i][1] is not None and raw_ps[i][1][0] == "arr":
                self.arr_hint = raw_ps[i][1][2]
            v = arg_vals[i] if arg_vals is not None else self.ex(a, env, pt)
            self.arr_hint = None
            self.same(pt, v.ty, node, "argument %s of %s" % (pn, f.name))
            vals.append(v)
        if self.is_extern(f):
            head = "ext_" + self.tr.uname(f).replace("::", "_")
            if self.x:
                self.tr.use_extern(f, self)
        else:
            if self.unit.get("extern_args", {}).get(f.name):
                self.err(node, "%s has abstract callees and cannot be called from a translated function" % f.name)
            self.tr.need_fn(f)
            head = "g_" + self.tr.uname(f).replace("::", "_")
            if self.tr.needs_fuel(f):
                self.used_fuel = True
                head += " fuel__"
        self.note_struct(sig["ret"])
        if not vals:
            return Val("M", head if " " not in head else "(%s)" % head, sig["ret"])
        return self.seq(vals, lambda ns: Val("M", "(%s %s)" % (head, " ".join(ns)), sig["ret"]))

    def ctor_call(self, e, env, expect):
        """calls that build a value: Some / Ok / Err / X::fail, tuple structs, enum variants, T::from; None if e is no such call"""
        segs = e.path
        if segs == ["Some"] and len(e.args) == 1:
            v = self.ex(e.args[0], env, expect[1] if (expect is not None and expect[0] == "opt") else None)
            return self.seq([v], lambda ns: Val("P", "(Some %s)" % ns[0], ("opt", v.ty)))
        if segs == ["Ok"] and len(e.args) == 1:
            v = self.ex(e.args[0], env, expect[1] if (expect is not None and expect[0] == "res") else None)
            if v.ty is not None and v.ty[0] in ("res", "tryres"):
                self.err(e, "Ok(..) of a Result")
            return self.seq([v], lambda ns: Val("M", self.ret(ns[0]), ("res", v.ty)))
        if segs == ["Err"] and len(e.args) == 1:
            return self.fail_val()
        if len(segs) == 2 and segs[1] == "fail" and segs[0].endswith("Error"):
            return self.fail_val()
        if len(segs) == 2 and segs[1] == "from" and len(e.args) == 1 and segs[0] in ("f64",) + tuple(INT_TAG):
            a = self.ex(e.args[0], env)
            if a.ty is None or a.ty[0] != "int":
                self.err(e, "%s::from of a value of type %r" % (segs[0], a.ty))
            if segs[0] == "f64":
                return self.seq([a], lambda ns: Val("M", "(i_to_f ops %s %s)" % (tag(a.ty), ns[0]), ("f64",)))
            to = ("int", segs[0])
            if a.ty == to:
                return a
            return self.seq([a], lambda ns: Val("M", "(i_cast ops %s %s %s)" % (tag(a.ty), tag(to), ns[0]), to))
        if len(segs) == 2 and segs[1] == "default" and not e.args:
            head = segs[0]
            if head == "Default" and self.unit.get("let_annot") and expect is not None and expect[0] == "struct":
                head = expect[1]        # `let x: T = Default::default();`: the annotation names the type (a builder's setter may be called `default` too)
                if head in self.w.structs and head not in self.w.bad_structs and "Default" in self.w.meta[head]["derives"]:
                    return Val("P", self.default_term(("struct", head), e), ("struct", head))
            if head == "Self" and self.self_ty is not None and self.self_ty[0] == "struct":
                head = self.self_ty[1]
            if head in self.w.structs and head not in self.w.bad_structs and "Default" in self.w.meta[head]["derives"] \
                    and "%s::default" % head not in self.w.fns:
                return Val("P", self.default_term(("struct", head), e), ("struct", head))
        if self.unit.get("strings") and segs == ["String", "new"] and not e.args:
            return self.str_lit(e, "")
        if self.unit.get("strings") and segs == ["String", "from"] and len(e.args) == 1:
            return self.ex(e.args[0], env, ("foreign", "String"))
        if segs == ["Vec", "new"] and not e.args and self.unit.get("join") and getattr(e, "targs", None) and len(e.targs) == 1:
            return Val("P", "nil", ("vec", self.res(e.targs[0], e)))
        if segs == ["Vec", "new"] and not e.args:
            if self.sets and expect is None and getattr(self, "hint_ty", None) is not None and self.hint_ty[0] == "vec":
                expect = self.hint_ty
            return Val("P", "nil", expect if (expect is not None and expect[0] == "vec") else ("vec", None))
        if self.sets and len(segs) == 2 and segs[0] in ("Vec", "HashSet", "HashMap") and segs[1] in ("new", "with_capacity") \
                and len(e.args) == (1 if segs[1] == "with_capacity" else 0):
            cap = None
            if e.args:
                c = self.ex(e.args[0], env, ("int", "usize"))
                if c.kind != "P":
                    if not self.unit.get("traits"):
                        self.err(e, "the capacity of %s::with_capacity must be an expression without effects" % segs[0])
                    cap = c       # evaluated for its effect (an overflow of the arithmetic), the value is not used
            kind = {"Vec": "vec", "HashSet": "hset", "HashMap": "hmap"}[segs[0]]
            if expect is None and kind == "vec" and getattr(e, "targs", None) and len(e.targs) == 1 and self.unit.get("join"):
                expect = ("vec", self.res(e.targs[0], e))       # `Vec::<T>::with_capacity(n)`
            if expect is None:
                expect = getattr(self, "hint_ty", None)      # `let x = HashMap::new();`: the type of the field / parameter x goes to
            if expect is None or expect[0] != kind or any(t is None for t in expect[1:]):
                self.err(e, "the element type of this %s::%s() cannot be determined here (annotate the `let`)" % (segs[0], segs[1]))
            self.note_struct(expect)
            if kind == "vec":
                if cap is not None:
                    return self.seq([cap], lambda ns: Val("P", "nil", expect))
                return Val("P", "nil", expect)
            return Val("P", "(%s_empty %s)" % ("ks" if kind == "hset" else "km", opsvar(expect)), expect)
        if self.sets and segs == ["Ptr", "clone"] and len(e.args) == 1:
            return self.ex(e.args[0], env, expect)
        # tuple struct / enum variant
        head = None
        if len(segs) == 1:
            head = segs[0]
            if head == "Self" and self.self_ty is not None and self.self_ty[0] == "struct":
                head = self.self_ty[1]
            elif head in self.w.aliases:
                try:
                    t = self.w.resolve(("named", head), self.ctx)
                    head = t[1] if t[0] == "struct" else head
                except Unsupported:
                    pass
            if head in self.w.structs and self.w.meta[head]["tuple"] and head not in self.w.bad_structs:
                fields = self.tr.literal_fields(head)
                decl = self.w.structs[head]
                if len(fields) != len(decl) or len(e.args) != len(decl):
                    self.err(e, "tuple struct %s(..): %d fields, %d in the subset, %d given" % (head, len(decl), len(fields), len(e.args)))
                self.structs_used.add(head)
                vs = []
                for (fn_, ft_), a in zip(fields, e.args):
                    v = self.ex(a, env, ft_)
                    self.same(ft_, v.ty, e, "field %s of %s" % (fn_, head))
                    vs.append(v)
                return self.seq(vs, lambda ns: Val("P", "(%s %s)" % (self.mk(head), " ".join(ns)), ("struct", head)))
            return None
        if len(segs) == 2:
            en = segs[0]
            if en == "Self" and self.self_ty is not None and self.self_ty[0] == "enum":
                en = self.self_ty[1]
            if en in self.w.enums and en not in self.w.bad_structs and any(v[0] == segs[1] for v in self.w.enums[en]):
                return self.variant_value(en, segs[1], list(e.args), [], env, e)
        return None

    def ex_call(self, e, env, expect):
        segs = e.path
        if self.x and len(segs) > 2 and all(x[:1].islower() for x in segs[:-2]):
            # `lef21::LefDecimal::from`: module qualifiers of a function path are dropped
            segs = segs[-2:]
            e = N("call", e.line, path=segs, args=e.args)
        if self.unit.get("join") and len(segs) == 2 and segs[0] == "FromPrimitive" and expect is not None and expect[0] == "opt" \
                and expect[1] is not None and expect[1][0] == "enum":
            # num_traits::FromPrimitive: the impl is chosen by the type the value goes to
            segs = [expect[1][1], segs[1]]
            e = N("call", e.line, path=segs, args=e.args)
        if len(segs) == 2 and segs[1] == "try_from" and len(e.args) == 1:
            to = self.res(("named", segs[0]) if segs[0] not in INT_TAG else ("int", segs[0]), e)
            a = self.ex(e.args[0], env)
            if to[0] != "int" or a.ty is None or a.ty[0] != "int":
                self.err(e, "try_from between %r and %r" % (a.ty, to))
            return Val(a.kind, a.term, ("tryres", a.ty, to))
        if self.x:
            r = self.ctor_call(e, env, expect)
            if r is not None:
                return r
        if len(segs) == 1:
            qn = segs[0]
        elif len(segs) == 2:
            head = segs[0]
            if head == "Self":
                if self.self_ty is None:
                    self.err(e, "`Self::` outside an impl")
                head = type_key(self.fn.self_ty) if not self.x else (self.self_ty[1] if self.self_ty[0] in ("struct", "enum", "foreign") else type_key(self.fn.self_ty))
            elif self.x and head in self.w.aliases:
                try:
                    t = self.w.resolve(("named", head), self.ctx)
                    if t[0] in ("struct", "enum", "foreign"):
                        head = t[1]
                except Unsupported:
                    pass
            qn = "%s::%s" % (head, segs[1])
        else:
            self.err(e, "call path %s" % "::".join(segs))
        if self.x and qn in self.w.overloads and len(self.w.overloads[qn]) > 1 and len(e.args) == 1:
            # several `T::from(..)`-like functions: the one whose parameter has the type of the argument
            a = self.ex(e.args[0], env)
            hit = []
            for f in self.w.overloads[qn]:
                try:
                    ps = self.tr.signature(f)["params"]
                except Unsupported:
                    continue
                if len(ps) == 1 and ps[0][1] == a.ty:
                    hit.append(f)
            if len(hit) == 1:
                return self.emit_call(hit[0], e.args, None, env, e, arg_vals=[a])
        return self.emit_call(self.callee(qn, e), e.args, None, env, e)

    TRANSPARENT = ("iter", "iter_mut", "into_iter", "as_ref", "as_mut", "to_owned", "borrow", "borrow_mut", "deref", "as_slice", "to_vec")

    def ex_mcall(self, e, env, expect):
        name = e.name
        rm = self.unit.get("recv_methods")
        if rm and place_text(e.recv) in rm:
            # `self.source.read_u8()`: a method of a field whose type is outside the subset is a method of self, declared in the prelude
            e = N("mcall", e.line, recv=N("path", e.line, segs=["self"]), name=rm[place_text(e.recv)] + name, args=e.args, turbo=e.turbo)
            name = e.name
        if (getattr(e, "turbo_ty", None) is not None and name in self.unit.get("turbo_methods", ()) and e.recv.kind == "path" and e.recv.segs == ["self"]):
            # `self.parse_enum::<T>()`: a generic method read at each type it is called at, declared in the prelude as `parse_enum__T`
            e = N("mcall", e.line, recv=e.recv, name="%s__%s" % (name, e.turbo_ty), args=e.args, turbo=False)
            name = e.name
        if self.x and name in self.fail_methods and e.recv.kind == "path" and e.recv.segs == ["self"]:
            return self.fail_val()
        if self.mon_name is not None and e.recv.kind == "path" and e.recv.segs == ["self"]:
            # monadic self: the receiver is the state of the effect; the method takes no self argument
            f = self.w.fns.get("%s::%s" % (self.mon_name, name))
            if f is None or f.clash:
                self.err(e, "call of self.%s, which is not a (uniquely defined) method of %s in the translated files" % (name, self.mon_name))
            return self.emit_call(f, e.args, None, env, e)
        if self.x and name == "assert" and e.recv.kind == "path" and e.recv.segs == ["self"] and len(e.args) == 2 and self.skippable(e.args[1]):
            # ErrorHelper::assert(cond, msg): Ok(()) when cond holds, else the error
            c = self.ex(e.args[0], env, ("bool",))
            if c.ty != ("bool",):
                self.err(e, "self.assert on a condition of type %r" % (c.ty,))
            return self.seq([c], lambda ns: Val("M", "(if %s then %s else (k_fail xops))" % (ns[0], self.ret("tt")), ("res", ("unit",))))
        if self.sets and name == "unwrap" and e.recv.kind == "path" and e.recv.segs == ["self"] and len(e.args) == 2 and self.skippable(e.args[1]):
            # ErrorHelper::unwrap(opt, msg): the value of a Some, the error for a None
            o = self.ex(e.args[0], env)
            if o.ty is None or o.ty[0] != "opt":
                self.err(e, "self.unwrap on a value of type %r" % (o.ty,))
            return self.seq([o], lambda ns: Val("M", "(match %s with Some x__ => %s | None => (k_fail xops) end)" % (ns[0], self.ret("x__")), ("res", o.ty[1])))
        if self.x and name == "try_into" and not e.args:
            hint_n = self.arr_hint
            r = self.ex(e.recv, env)
            if self.unit.get("join") and r.ty is not None and r.ty[0] == "vec":
                # Vec<T> -> [T; N]: N is read off the declared type of the place the value goes to
                if hint_n is None:
                    self.err(e, ".try_into() of a Vec: the length of the target array is not known here")
                return Val(r.kind, r.term, ("tryarr", r.ty, hint_n))
            to = expect[1] if (expect is not None and expect[0] == "res") else None
            if to is None:
                to = getattr(self, "hint_ty", None)
            if r.ty is None or r.ty[0] != "int" or to is None or to[0] != "int":
                self.err(e, ".try_into() from %r to %r (the target type must be known where it is written)" % (r.ty, to))
            return Val(r.kind, r.term, ("tryres", r.ty, to))
        if self.sets and name in ("into", "to_string", "to_owned") and not e.args and e.recv.kind == "str" \
                and (expect if expect is not None else getattr(self, "hint_ty", None)) == ("foreign", "String"):
            return self.ex(e.recv, env, ("foreign", "String"))
        if self.sets and name == "collect" and not e.args and e.recv.kind == "mcall" and e.recv.name == "map" and len(e.recv.args) == 1 \
                and e.recv.args[0].kind == "closure" and len(e.recv.args[0].params) == 1 and e.recv.args[0].params[0].kind == "pvar":
            # `v.iter().map(|x| f(x)).collect::<Result<Vec<_>, _>>()` with a closure that can fail: element by element, in
            # order, up to the first error
            base = self.ex(e.recv.recv, env)
            if base.ty is not None and base.ty[0] == "vec":
                cp = e.recv.args[0].params[0]
                env2 = dict(env); env2[cp.name] = base.ty[1]
                b = self.ex(e.recv.args[0].body, env2)
                if b.ty is not None and b.ty[0] == "res":
                    return self.seq([base], lambda ns: Val("M", "(k_map_m ops (fun %s => %s) %s)" % (mangle(cp.name), b.term, ns[0]), ("res", ("vec", b.ty[1]))))
        if self.unit.get("strings") and name == "join" and len(e.args) == 1:
            r0 = self.ex(e.recv, env)
            if r0.ty is not None and r0.ty == ("vec", ("foreign", "String")):
                sep = self.ex(e.args[0], env, ("foreign", "String"))
                self.tr.externs_used.setdefault("ext_str_join", ("T_String -> (list T_String) -> T_String", "[String]::join"))
                return self.seq([r0, sep], lambda ns: Val("P", "(ext_str_join %s %s)" % (ns[1], ns[0]), ("foreign", "String")))
        if self.unit.get("strings") and name in ("to_string", "to_str", "to_owned", "as_str", "into", "clone") and not e.args:
            r0 = self.ex(e.recv, env, ("foreign", "String") if e.recv.kind == "str" else None)
            if r0.ty == ("foreign", "String"):
                return r0
            if name in ("to_string", "to_str") and r0.ty is not None and r0.ty[0] in ("struct", "enum", "foreign", "int"):
                return self.display(r0, e)
        if self.unit.get("join") and name == "ok_or" and len(e.args) == 1 and expect is not None and expect[0] == "res" and expect[1] is not None:
            r = self.ex(e.recv, env, ("opt", expect[1]))
        else:
            r = self.ex(e.recv, env)
        ty = r.ty
        if ty is None:
            self.err(e, "method call on a diverging expression")
        if name == "clone" and not e.args:
            return r
        if self.unit.get("join") and ty[0] == "tryarr":
            if name != "unwrap":
                self.err(e, "only `.unwrap()` / `?` may follow a Vec's try_into")
            self.tr.need_l = True
            return self.seq([Val(r.kind, r.term, ty[1])], lambda ns: Val("M", "(k_vec_into_arr xops %d %s)" % (ty[2], ns[0]), ty[1]))
        if self.sets and name == "unwrapper" and len(e.args) == 2 and e.args[0].kind == "path" and e.args[0].segs == ["self"] and self.skippable(e.args[1]):
            # layout21utils Unwrapper: an Option's None / a Result's Err becomes the helper's error
            if ty[0] == "opt":
                return self.seq([r], lambda ns: Val("M", "(match %s with Some x__ => %s | None => (k_fail xops) end)" % (ns[0], self.ret("x__")), ("res", ty[1])))
            if ty[0] == "res":
                return r
            self.err(e, ".unwrapper on a value of type %r" % (ty,))
        if self.sets and name in ("copied", "cloned", "collect") and not e.args and ty[0] == "vec":
            return r
        if self.sets and name == "into" and not e.args:
            to = expect if expect is not None else getattr(self, "hint_ty", None)
            if to is not None and to[0] == "res":
                to = to[1]
            if to is not None and to != ty and to[0] in ("struct", "enum"):
                conv = self.conversion(ty, to, r, env, e)
                if conv is not None:
                    return conv
        if self.x and name in self.TRANSPARENT and not e.args and ty[0] in ("vec", "opt", "struct", "enum", "foreign", "ptr"):
            return r
        if self.sets and ty[0] == "hset":
            if name == "contains" and len(e.args) == 1:
                a = self.ex(e.args[0], env, ty[1])
                self.same(ty[1], a.ty, e, ".contains")
                return self.seq([r, a], lambda ns: Val("P", "(ks_contains %s %s %s)" % (opsvar(ty), ns[0], ns[1]), ("bool",)))
            if name in ("insert", "remove"):
                self.err(e, "HashSet::%s used for its value is in the subset only as the whole condition of an `if` (up to one `!`)" % name)
            self.err(e, "HashSet method .%s is outside the subset" % name)
        if self.sets and ty[0] == "hmap":
            if name == "get" and len(e.args) == 1:
                a = self.ex(e.args[0], env, ty[1])
                self.same(ty[1], a.ty, e, ".get")
                return self.seq([r, a], lambda ns: Val("P", "(km_get %s %s %s)" % (opsvar(ty), ns[0], ns[1]), ("opt", ty[2])))
            if name == "contains_key" and len(e.args) == 1:
                a = self.ex(e.args[0], env, ty[1])
                self.same(ty[1], a.ty, e, ".contains_key")
                return self.seq([r, a], lambda ns: Val("P", "(match km_get %s %s %s with Some _ => true | None => false end)" % (opsvar(ty), ns[0], ns[1]), ("bool",)))
            self.err(e, "HashMap method .%s is outside the subset" % name)
        if ty[0] == "tryres":
            if name != "unwrap":
                self.err(e, "only `.unwrap()` may follow try_from")
            return self.seq([r], lambda ns: Val("M", "(i_try_from ops %s %s %s)" % (tag(ty[1]), tag(ty[2]), ns[0]), ty[2]))
        if self.x and ty[0] == "res":
            if name in ("unwrap", "expect"):
                return Val("M", "(k_unwrap xops %s)" % r.term, ty[1])
            self.err(e, "Result method .%s is outside the subset" % name)
        if self.x and ty[0] == "ptr":
            if name in ("read", "write") and not e.args:
                key = type_key(ty[1])
                self.tr.use_read(key, ty[1], self)
                return self.seq([r], lambda ns: Val("M", "(ext_read_%s %s)" % (key, ns[0]), ("res", ty[1])))
            self.err(e, "Ptr method .%s is outside the subset" % name)
        if self.x and ty[0] == "opt":
            if name in ("is_some", "is_none") and not e.args:
                tf = ("true", "false") if name == "is_some" else ("false", "true")
                return self.seq([r], lambda ns: Val("P", "(match %s with Some _ => %s | None => %s end)" % (ns[0], tf[0], tf[1]), ("bool",)))
            if name in ("unwrap", "expect"):
                return self.seq([r], lambda ns: Val("M", "(match %s with Some x__ => %s | None => (k_panic ops) end)" % (ns[0], self.ret("x__")), ty[1]))
            if name == "ok_or" and len(e.args) == 1:
                return self.seq([r], lambda ns: Val("M", "(match %s with Some x__ => %s | None => (k_fail xops) end)" % (ns[0], self.ret("x__")), ("res", ty[1])))
            if name == "unwrap_or" and len(e.args) == 1:
                d = self.ex(e.args[0], env, ty[1])
                self.same(ty[1], d.ty, e, ".unwrap_or")
                return self.seq([r, d], lambda ns: Val("P", "(match %s with Some x__ => x__ | None => %s end)" % (ns[0], ns[1]), unify(ty[1], d.ty)))
            if name == "map_or" and len(e.args) == 2 and e.args[1].kind == "closure" and len(e.args[1].params) == 1 \
                    and e.args[1].params[0].kind in ("pvar", "pwild"):
                d = self.ex(e.args[0], env, expect)
                cp = e.args[1].params[0]
                env2 = dict(env)
                if cp.kind == "pvar":
                    env2[cp.name] = ty[1]
                b = self.ex(e.args[1].body, env2, d.ty)
                rt = self.same(d.ty, b.ty, e, ".map_or")
                pn = mangle(cp.name) if cp.kind == "pvar" else "_"
                def build(ns):
                    if b.kind == "P":
                        return Val("P", "(match %s with Some %s => %s | None => %s end)" % (ns[0], pn, b.term, ns[1]), rt)
                    return Val("M", "(match %s with Some %s => %s | None => %s end)" % (ns[0], pn, b.term, self.ret(ns[1])), rt)
                return self.seq([r, d], build)
            self.err(e, "Option method .%s is outside the subset" % name)
        if ty[0] == "int":
            if name in ("min", "max") and len(e.args) == 1:
                a = self.ex(e.args[0], env, ty)
                self.same(ty, a.ty, e, "." + name)
                return self.seq([r, a], lambda ns: Val("P", "(i_%s ops %s %s)" % (name, ns[0], ns[1]), ty))
            if self.x and name in ("add", "sub", "mul", "div", "rem") and len(e.args) == 1:
                # the operator methods of std::ops on integers: `a.rem(b)` is `a % b`
                a = self.ex(e.args[0], env, ty)
                self.same(ty, a.ty, e, "." + name)
                fop = self.arith({"add": "+", "sub": "-", "mul": "*", "div": "/", "rem": "%"}[name], ty, e)
                return self.seq([r, a], lambda ns: Val("M", fop(ns[0], ns[1]), ty))
            if self.x and name == "into" and not e.args and expect is not None and expect[0] == "int":
                if expect == ty:
                    return r
                return self.seq([r], lambda ns: Val("M", "(i_cast ops %s %s %s)" % (tag(ty), tag(expect), ns[0]), expect))
            if self.sets and "%s::%s" % (ty[1], name) in self.w.fns:
                return self.emit_call(self.w.fns["%s::%s" % (ty[1], name)], e.args, r, env, e)
            self.err(e, "integer method .%s is outside the subset" % name)
        if ty == ("f64",):
            if name in ("round", "to_radians", "sin", "cos") and not e.args:
                return self.seq([r], lambda ns: Val("M", "(f_%s ops %s)" % (name, ns[0]), ty))
            if name == "rem_euclid" and len(e.args) == 1:
                a = self.ex(e.args[0], env, ty)
                self.same(ty, a.ty, e, ".rem_euclid")
                return self.seq([r, a], lambda ns: Val("M", "(f_rem_euclid ops %s %s)" % (ns[0], ns[1]), ty))
            if name == "powi" and len(e.args) == 1:
                a = self.ex(e.args[0], env, ("int", "i32"))
                if a.ty != ("int", "i32"):
                    self.err(e, ".powi exponent of type %r" % (a.ty,))
                return self.seq([r, a], lambda ns: Val("M", "(f_powi ops %s %s)" % (ns[0], ns[1]), ty))
            if self.sets and "f64::%s" % name in self.w.fns:
                return self.emit_call(self.w.fns["f64::%s" % name], e.args, r, env, e)
            self.err(e, "f64 method .%s is outside the subset" % name)
        if ty[0] == "vec" and name == "len" and not e.args:
            return self.seq([r], lambda ns: Val("P", "(v_len ops %s)" % ns[0], ("int", "usize")))
        if self.x and ty[0] == "vec":
            if name == "is_empty" and not e.args:
                return self.seq([r], lambda ns: Val("P", "(match %s with nil => true | cons _ _ => false end)" % ns[0], ("bool",)))
            if name in ("last", "first") and not e.args:
                return self.seq([r], lambda ns: Val("P", "(k_%s %s)" % (name, ns[0]), ("opt", ty[1])))
            if name == "position" and len(e.args) == 1 and e.args[0].kind == "closure" and len(e.args[0].params) == 1 \
                    and e.args[0].params[0].kind == "pvar":
                cp = e.args[0].params[0]
                env2 = dict(env); env2[cp.name] = ty[1]
                b = self.ex(e.args[0].body, env2, ("bool",))
                if b.ty != ("bool",):
                    self.err(e, "the closure of .position(..) must be a boolean expression")
                if b.kind == "P":
                    return self.seq([r], lambda ns: Val("P", "(k_position ops (fun %s => %s) %s)" % (mangle(cp.name), b.term, ns[0]), ("opt", ("int", "usize"))))
                # a closure with effects (arithmetic that can overflow, calls): evaluated element by element, in order
                return self.seq([r], lambda ns: Val("M", "(k_position_m ops (fun %s => %s) %s)" % (mangle(cp.name), b.term, ns[0]), ("opt", ("int", "usize"))))
            if name == "map" and len(e.args) == 1 and e.args[0].kind == "closure" and len(e.args[0].params) == 1 \
                    and e.args[0].params[0].kind == "pvar":
                # `v.iter().map(|x| e)` with a closure without effects: the list of the values
                cp = e.args[0].params[0]
                env2 = dict(env); env2[cp.name] = ty[1]
                b = self.ex(e.args[0].body, env2)
                if b.kind != "P" or b.ty is None or b.ty[0] in ("res", "tryres"):
                    self.err(e, "the closure of .map(..) must be an expression without effects")
                return self.seq([r], lambda ns: Val("P", "(List.map (fun %s => %s) %s)" % (mangle(cp.name), b.term, ns[0]), ("vec", b.ty)))
            if name == "sum" and not e.args and ty[1] is not None and ty[1][0] == "struct" and "Sum" in self.w.meta[ty[1][1]]["derives"]:
                # derive_more `Sum`: the fold of `+` from the all-zero value, left to right
                f = self.tr.derived(ty[1][1], "add") or (self.w.overloads.get("%s::add" % ty[1][1]) or [None])[0]
                if f is None:
                    self.err(e, ".sum() of %s: no `+`" % ty[1][1])
                self.tr.need_fn(f)
                zero = self.default_term(ty[1], e) if "Default" in self.w.meta[ty[1][1]]["derives"] else None
                if zero is None:
                    self.err(e, ".sum() of %s: no Default" % ty[1][1])
                return self.seq([r], lambda ns: Val("M", "(k_sum ops (fun a__ b__ => g_%s a__ b__) %s %s)" % (self.tr.uname(f).replace("::", "_"), zero, ns[0]), ty[1]))
            if name == "enumerate" and not e.args:
                return self.seq([r], lambda ns: Val("P", "(k_enumerate ops %s)" % ns[0], ("vec", ("tup", (("int", "usize"), ty[1])))))
        if self.x and name == "into" and not e.args and (expect is None or expect == ty):
            return r
        if ty[0] in ("struct", "vec") or (self.x and ty[0] in ("enum", "foreign")):
            if ty[0] == "vec":
                key = type_key(("vec", ("named", ty[1][1]))) if ty[1][0] == "struct" else None
            else:
                key = ty[1]
            if key is None:
                self.err(e, "method .%s on %r" % (name, ty))
            qn_ = "%s::%s" % (key, name)
            if self.unit.get("builders") and qn_ + "__whole" in self.w.fns and len(e.args) == 1:
                # a builder setter of an `Option<T>` field: given a T or an Option<T>
                av = self.ex(e.args[0], env)
                fw = self.w.fns[qn_ + "__whole"]
                if av.ty is not None and av.ty[0] == "opt" and self.tr.signature(fw)["params"][1][1] == unify_or_none(self.tr.signature(fw)["params"][1][1], av.ty):
                    return self.emit_call(fw, e.args, r, env, e, arg_vals=[av])
                return self.emit_call(self.callee(qn_, e), e.args, r, env, e, arg_vals=[av])
            if self.sets and len(self.w.overloads.get(qn_, [])) > 1:
                # several declarations (a parameter `&impl Trait`, declared in the prelude at each type used): by the argument types
                avs = [self.ex(a, env) for a in e.args]
                hit = []
                for f2 in self.w.overloads[qn_]:
                    try:
                        ps2 = [q for q in self.tr.signature(f2)["params"] if q[0] != "self"]
                    except Unsupported:
                        continue
                    if len(ps2) == len(avs) and all(q[1] == a.ty for q, a in zip(ps2, avs)):
                        hit.append(f2)
                if len(hit) == 1:
                    return self.emit_call(hit[0], e.args, r, env, e, arg_vals=avs)
            return self.emit_call(self.callee(qn_, e), e.args, r, env, e)
        self.err(e, "method .%s on a value of type %r" % (name, ty))

    # ---- statements
    def stmts(self, lst, env, K):
        if not lst:
            return K.end(None, env)
        s, rest = lst[0], lst[1:]
        k = s.kind
        if k == "let" and self.x and s.init.kind == "refmut" and s.pat.kind == "pvar" and s.ty is None and lvalue_root(s.init) is not None:
            # `let r = &mut place;`: r is the place (reads go to it, assignments through r are assignments to it)
            place = s.init.e
            if self.sets:
                # the index expressions of the place are evaluated, and the cell is looked up (bounds check), where the
                # reference is TAKEN: effectful indices become locals first, then the place is read once
                pre = []
                def hoist(n):
                    if n.kind == "index":
                        hoist(n.e)
                        if not (n.idx.kind in ("int",) or (n.idx.kind == "path" and len(n.idx.segs) == 1)):
                            self.nhoist += 1
                            nm = "ix__%d" % self.nhoist
                            pre.append(N("let", s.line, pat=N("pvar", s.line, name=nm), ty=None, init=n.idx))
                            n.idx = N("path", s.line, segs=[nm])
                    elif n.kind in ("field", "tupidx"):
                        hoist(n.e)
                hoist(place)
                if pre:
                    return self.stmts(pre + [s] + list(rest), env, K)
            moved = set(assigned_roots(rest, [])) & (names_used(place, set()) - {lvalue_root(place)})
            if moved:
                self.err(s, "the place behind `&mut` mentions %s, assigned while the reference lives" % sorted(moved))
            v = self.ex(place, env)
            if v.ty is None:
                self.err(s, "`&mut` of a diverging expression")
            env2 = dict(env); env2[s.pat.name] = ("alias", place, v.ty)
            if self.sets and v.kind == "M":
                r_ = self.stmts(rest, env2, K)
                return Val("M", "(k_bind ops %s (fun _ => %s))" % (v.term, self.toM(r_)), r_.ty)
            return self.stmts(rest, env2, K)
        if k == "let" and self.sets and s.pat.kind in ("pvar", "pwild"):
            # `let res = place.f(..)?;` where f changes the place and returns (): the call as a statement, then res = ()
            r = self.mut_stmt(N("exprstmt", s.line, e=s.init, semi=True),
                              [N("let", s.line, pat=s.pat, ty=None, init=N("tuple", s.line, es=[]))] + list(rest), env, K)
            if r is not None:
                return r
        if k == "let":
            expect = self.res(s.ty, s) if s.ty is not None else None
            self.arr_hint = s.ty[2] if (s.ty is not None and s.ty[0] == "arr") else None
            if self.x and expect is None and s.pat.kind == "pvar":
                # `let x = e.try_into()?;`: the target type is that of the parameter x is passed to
                self.hint_ty = self.infer_from_use(s.pat.name, rest, env)
                if self.sets and self.hint_ty is None and rest and rest[-1].kind == "exprstmt" and not rest[-1].semi:
                    # .. or that of the function's value, when the block ends in `x` / `Ok(x)`
                    t_ = rest[-1].e
                    if t_.kind == "call" and t_.path == ["Ok"] and len(t_.args) == 1:
                        t_ = t_.args[0]
                    if t_.kind == "path" and t_.segs == [s.pat.name] and K.ret_ty is not None:
                        self.hint_ty = Translator.plain(K.ret_ty)
                if self.unit.get("join") and self.hint_ty is None and rest and rest[-1].kind == "return" and rest[-1].e is not None \
                        and rest[-1].e.kind == "path" and rest[-1].e.segs == [s.pat.name] and K.ret_ty is not None:
                    self.hint_ty = Translator.plain(K.ret_ty)
                if self.unit.get("join") and self.hint_ty is not None and s.init.kind == "repeat":
                    expect = self.hint_ty
                if self.sets and self.hint_ty is not None and s.init.kind in ("match", "block", "if"):
                    expect = self.hint_ty       # the value of the block flows into x
            if self.unit.get("join") and expect is None and self.hint_ty is not None and s.init.kind == "try" and s.init.e.kind == "mcall" \
                    and s.init.e.name == "ok_or":
                expect = self.hint_ty
            v = self.ex(s.init, env, expect)
            self.hint_ty = None
            self.arr_hint = None
            if expect is not None:
                t_ = self.same(expect, v.ty, s, "let")
                if self.unit.get("let_annot") and v.ty is not None and t_ is not None and v.ty[0] in ("opt", "vec") and v.ty[1] is None:
                    v = Val(v.kind, v.term, t_)       # `let x: Option<T> = None;`: the annotation gives the element type
            if v.ty is None:
                if self.x:
                    return v       # `let x = <something that always fails / panics>`: nothing after it runs
                self.err(s, "let bound to a diverging expression")
            if v.ty[0] == "res":
                self.err(s, "a `let` bound to a Result (it must be consumed where it is produced: `?`, `.unwrap()`)")
            if self.sets and v.ty[0] in ("opt", "vec") and v.ty[1] is None and s.pat.kind == "pvar":
                t2 = self.infer_from_assign(s.pat.name, rest, env)
                if t2 is not None and t2[0] == v.ty[0]:
                    v = Val(v.kind, v.term, t2)
                elif t2 is None and v.ty[0] == "vec" and self.unit.get("let_annot"):
                    t3 = self.infer_from_push(s.pat.name, rest, env)
                    if t3 is not None:
                        v = Val(v.kind, v.term, ("vec", t3))
                    else:
                        t4 = self.infer_from_self_call(s.pat.name, rest)
                        if t4 is not None and t4[0] == "vec":
                            v = Val(v.kind, v.term, t4)
            if self.x and v.ty[0] in ("opt", "vec") and v.ty[1] is None:
                self.err(s, "the type of this `let` cannot be determined here (annotate it)")
            if v.ty[0] == "tryres":
                self.err(s, "a try_from result must be unwrapped at once")
            return self.let_(s.pat, v, lambda env2: self.stmts(rest, env2, K), env, s)
        if k == "assign" and self.mon_name is not None and s.lhs.kind != "tuple" and lvalue_root(s.lhs) == "self" and "self" not in env \
                and self.mon_name in self.w.structs:
            # monadic self: `self.f op= e;` reads the state, changes the field, writes the state back
            ty = ("struct", self.mon_name)
            self.structs_used.add(self.mon_name)
            self.tr.self_getput = ty
            env2 = dict(env); env2["self"] = ty
            inner = self.stmts([s, N("selfput", s.line)] + list(rest), env2, K)
            return Val("M", "(k_bind ops ext_self_get (fun self => %s))" % self.toM(inner), inner.ty)
        if k == "selfput":
            env2 = {k_: v_ for k_, v_ in env.items() if k_ != "self"}
            r_ = self.stmts(rest, env2, K)
            return Val("M", "(k_bind ops (ext_self_put self) (fun _ => %s))" % self.toM(r_), r_.ty)
        if k == "assign" and self.unit.get("join") and s.op == "=" and s.rhs.kind in ("match", "if", "block") and self.needs_push(s.rhs):
            return self.stmts([N("exprstmt", s.line, e=self.push_assign(s.rhs, s.lhs), semi=True)] + list(rest), env, K)
        if k == "assign":
            return self.assign(s, rest, env, K)
        if k == "exprstmt" and s.e.kind in ("break", "continue") and self.unit.get("join"):
            return K.brk(env) if s.e.kind == "break" else K.cont(env)
        if k == "return":
            if s.e is None:
                return K.ret(None, env)
            v = self.ex(s.e, env, K.ret_ty)
            return K.ret(v, env)
        if k == "for":
            return self.for_(s, rest, env, K)
        if k == "use" and self.sets:
            if s.glob:
                self.glob_enums.add(s.segs[-1])       # `use E::*;`: the variants of E may be written without `E::`
            for n_ in getattr(s, "names", None) or []:
                self.use_names[n_] = s.segs[-1]       # `use E::{A, B};`
            if not s.glob and not getattr(s, "names", None) and len(s.segs) >= 2 and s.segs[-2] in self.w.enums:
                self.use_names[s.segs[-1]] = s.segs[-2]       # `use E::A;`
            return self.stmts(rest, env, K)
        if k == "while" and self.sets:
            return self.while_(s, rest, env, K)
        if k == "exprstmt" and self.sets:
            r = self.mut_stmt(s, rest, env, K)
            if r is not None:
                return r
        if k == "exprstmt":
            e = s.e
            if self.x and e.kind == "mcall" and place_text(e.recv) in self.unit.get("skip_recv", ()):
                # the error-context stack only decorates messages
                if not rest and not s.semi:
                    return K.end(None, env)
                return self.stmts(rest, env, K)
            if self.x and e.kind == "mcall" and e.name in MUTATORS and lvalue_root(e.recv) is not None:
                if (e.name == "push" and len(e.args) != 1) or (e.name == "pop" and e.args) or (e.name == "insert" and len(e.args) != 2):
                    self.err(e, "arguments of .%s" % e.name)
                a = N("assign", e.line, lhs=e.recv, op=e.name, rhs=(e.args[0] if len(e.args) == 1 else list(e.args) if e.args else None))
                return self.stmts([a] + rest, env, K)
            if e.kind == "if":
                return self.if_(e, rest if (rest or s.semi) else None, env, K)
            if e.kind == "match":
                return self.match_(e, rest if (rest or s.semi) else None, env, K)
            if e.kind == "block":
                inner = list(e.stmts)
                self.no_capture(inner, rest, s)
                if rest or s.semi:
                    inner = self.as_stmts(inner)
                return self.stmts(inner + rest, env, K)
            if e.kind == "return":
                return self.stmts([N("return", e.line, e=e.e)], env, K)
            if not rest and not s.semi:
                v = self.ex(e, env, K.val_ty)
                return K.end(v, env)
            v = self.ex(e, env)
            if self.x:
                if v.ty is None and v.kind == "M":
                    return v       # a panic / an error: nothing after it runs
                if v.ty is not None and v.ty[0] == "res":
                    self.err(s, "a Result that is not used")
            r = self.stmts(rest, env, K)
            if v.kind == "P":
                return r
            if v.ty is None:
                return v       # a panic: nothing after it runs
            return Val("M", "(k_bind ops %s (fun _ => %s))" % (v.term, self.toM(r)), r.ty)
        self.err(s, "statement kind %s is outside the subset" % k)

    # ---- third part of the subset: sets, maps, `&mut` parameters, open recursion
    def conversion(self, fr, to, v, env, node):
        """`x.into()` from the type fr to the struct / enum `to`: a derived `From` (derive_more on an enum: the variant whose
        payload has that type) or an `impl From<fr> for to` of the sources; None when there is none"""
        if to[0] == "enum" and "From" in self.w.meta[to[1]]["derives"]:
            hits = []
            for vn, kind, fields in self.w.enums[to[1]]:
                if kind == "tuple" and len(fields) == 1:
                    k_, tys, _ = self.tr.variant(to[1], vn, node, self)
                    if tys[0] == fr:
                        hits.append(vn)
            if len(hits) == 1:
                self.structs_used.add(to[1])
                return self.seq([v], lambda ns: Val("P", "(@g%s_%s F I %s)" % (to[1], hits[0], ns[0]), to))
        for f2 in self.w.overloads.get("%s::from" % to[1], []):
            try:
                ps2 = self.tr.signature(f2)["params"]
            except Unsupported:
                continue
            if len(ps2) == 1 and ps2[0][1] == fr:
                sig = self.tr.signature(f2)
                if self.is_extern(f2):
                    head = "ext_" + self.tr.uname(f2).replace("::", "_")
                    self.tr.use_extern(f2, self)
                else:
                    self.tr.need_fn(f2)
                    head = "g_" + self.tr.uname(f2).replace("::", "_")
                return self.seq([v], lambda ns: Val("M", "(%s %s)" % (head, ns[0]), sig["ret"]))
        return None

    def infer_from_assign(self, name, rest, env):
        """the type of the first value assigned to the local `name` in rest (`name = e;`), or None"""
        found = []
        def walk(n):
            if found:
                return
            if isinstance(n, N):
                if n.kind == "assign" and n.op == "=" and n.lhs.kind == "path" and n.lhs.segs == [name]:
                    try:
                        t = self.ex(n.rhs, env).ty
                    except Unsupported:
                        t = None
                    if t is not None:
                        found.append(t)
                    return
                for k_, v_ in n.__dict__.items():
                    if k_ not in ("kind", "line"):
                        walk(v_)
            elif isinstance(n, (list, tuple)):
                for x in n:
                    walk(x)
        walk(rest)
        return found[0] if found else None

    def infer_from_self_call(self, name, rest):
        """the declared value type of the method in the first `name = self.m(..)?;` of rest (monadic self), or None"""
        found = []
        def walk(n):
            if found:
                return
            if isinstance(n, N):
                if n.kind == "assign" and n.op == "=" and n.lhs.kind == "path" and n.lhs.segs == [name]:
                    r = n.rhs
                    if r.kind == "try":
                        r = r.e
                    if r.kind == "mcall" and r.recv.kind == "path" and r.recv.segs == ["self"] and self.mon_name is not None:
                        f = self.w.fns.get("%s::%s" % (self.mon_name, r.name))
                        if f is not None and not f.clash:
                            try:
                                t = self.tr.signature(f)["ret"]
                            except Unsupported:
                                t = None
                            if t is not None and t[0] == "res":
                                t = t[1]
                            if t is not None:
                                found.append(t)
                    return
                for k_, v_ in n.__dict__.items():
                    if k_ not in ("kind", "line"):
                        walk(v_)
            elif isinstance(n, (list, tuple)):
                for x in n:
                    walk(x)
        walk(rest)
        return found[0] if found else None

    def infer_from_push(self, name, rest, env):
        """the element type of the local vector `name` from the first `name.push(e)` in rest: a struct literal names its type, any other
        argument is translated in the environment of the `let` (a call like `self.parse_x()?`), or None"""
        found = []
        def walk(n):
            if found:
                return
            if isinstance(n, N):
                if n.kind == "mcall" and n.name == "push" and n.recv.kind == "path" and n.recv.segs == [name] and len(n.args) == 1:
                    a = n.args[0]
                    t = None
                    if a.kind == "structlit" and len(a.segs) == 1 and a.name in self.w.structs:
                        t = ("struct", a.name)
                    else:
                        try:
                            t = self.ex(a, env).ty
                        except Unsupported:
                            t = None
                        if t is not None and t[0] == "res":
                            t = t[1]
                    if t is not None:
                        found.append(t)
                    return
                for k_, v_ in n.__dict__.items():
                    if k_ not in ("kind", "line"):
                        walk(v_)
            elif isinstance(n, (list, tuple)):
                for x in n:
                    walk(x)
        walk(rest)
        return found[0] if found else None

    def place_ty(self, node, env):
        """the type of a place expression (None when it is not a chain of fields / indices from a local)"""
        if lvalue_root(node) is None or lvalue_root(node) not in env:
            return None
        try:
            return self.ex(node, env).ty
        except Unsupported:
            return None

    def hoist_set_cond(self, e, rest, env, K):
        """`if [!] s.insert(x) {..}` / `if [!] s.remove(x) {..}`: the value of the call is read off the set BEFORE the update"""
        c, neg = e.cond, False
        if c.kind == "un" and c.op == "!":
            c, neg = c.e, True
        if not (c.kind == "mcall" and c.name in ("insert", "remove") and len(c.args) == 1):
            return None
        t = self.place_ty(c.recv, env)
        if t is None or t[0] != "hset":
            return None
        self.nhoist += 1
        hn = "h__%d" % self.nhoist
        l = e.line
        was_in = N("path", l, segs=[hn])
        # insert: value = !contained ; remove: value = contained
        val_is_neg = (c.name == "insert")
        cond = was_in if (val_is_neg == neg) else N("un", l, op="!", e=was_in)
        pre = [N("let", l, pat=N("pvar", l, name=hn), ty=None,
                 init=N("mcall", l, recv=c.recv, name="contains", args=list(c.args), turbo=False)),
               N("exprstmt", l, e=c, semi=True)]
        e2 = N("if", l, letvar=None, letpat=None, cond=cond, then=e.then, els=e.els)
        if rest is None:
            return self.stmts(pre + [N("exprstmt", l, e=e2, semi=False)], env, K)
        return self.stmts(pre + [N("exprstmt", l, e=e2, semi=True)] + list(rest), env, K)

    def store(self, place, newv, rest, env, K, node):
        """assign the (possibly effectful) value newv to the place, then the rest"""
        root = lvalue_root(place)
        if root is None or root not in env:
            self.err(node, "a `&mut` argument that is not a place rooted at a local")
        if env[root] is not None and env[root][0] == "alias":
            place = self.subst_root(place, env[root][1])
            root = lvalue_root(place)
        if root in self.mut_params:
            self.mut_self = True
        newroot = self.seq([newv], lambda ns: self.upd(place, ns[0], env))
        return self.let_(N("pvar", node.line, name=root), newroot, lambda env2: self.stmts(rest, env2, K), env, node)

    def callee_of_call(self, e):
        """the function item a path call refers to, or None"""
        segs = e.path
        if len(segs) > 2 and all(x[:1].islower() for x in segs[:-2]):
            segs = segs[-2:]
        if len(segs) == 1:
            qn = segs[0]
        elif len(segs) == 2:
            head = segs[0]
            if head == "Self" and self.self_ty is not None and self.self_ty[0] in ("struct", "enum", "foreign"):
                head = self.self_ty[1]
            qn = "%s::%s" % (head, segs[1])
        else:
            return None
        f = self.w.fns.get(qn)
        return None if (f is None or f.clash) else f

    def mut_stmt(self, s, rest, env, K):
        """statements that change a place through a call: set / map mutators, calls of functions with a `&mut` parameter"""
        e = s.e
        tried = e.kind == "try"
        c = e.e if tried else e
        if c.kind == "mcall" and c.name == "unwrapper" and len(c.args) == 2 and self.skippable(c.args[1]) and c.recv.kind in ("mcall", "call"):
            c = c.recv          # `x.f(..).unwrapper(self, msg)?`: the error is converted, the value is that of the call
        if c.kind == "mcall" and not tried and c.name == "copy_from_slice" and len(c.args) == 1 and self.unit.get("join"):
            t = self.place_ty(c.recv, env)
            if t is not None and t[0] == "vec":
                cur = self.ex(c.recv, env)
                a = self.ex(c.args[0], env, t)
                self.same(t, a.ty, c, ".copy_from_slice")
                self.tr.need_l = True
                newv = self.seq([cur, a], lambda ns: Val("M", "(k_copy_from_slice ops %s %s)" % (ns[0], ns[1]), t))
                return self.store(c.recv, newv, rest, env, K, s)
            return None
        if c.kind == "mcall" and not tried and c.name == "push_str" and len(c.args) == 1 and self.unit.get("strings"):
            t = self.place_ty(c.recv, env)
            if t == ("foreign", "String"):
                cur = self.ex(c.recv, env)
                a = self.ex(c.args[0], env, t)
                self.same(t, a.ty, c, ".push_str")
                return self.store(c.recv, self.concat([cur, a], c), rest, env, K, s)
            return None
        if c.kind == "mcall" and not tried and c.name == "extend" and len(c.args) == 1:
            t = self.place_ty(c.recv, env)
            if t is not None and t[0] == "vec":
                cur = self.ex(c.recv, env)
                a = self.ex(c.args[0], env, t)
                self.same(t, a.ty, c, ".extend")
                newv = self.seq([cur, a], lambda ns: Val("P", "(app %s %s)" % (ns[0], ns[1]), t))
                return self.store(c.recv, newv, rest, env, K, s)
            return None
        if c.kind == "mcall" and not tried and c.name in ("insert", "remove"):
            t = self.place_ty(c.recv, env)
            if t is not None and t[0] == "hset" and len(c.args) == 1:
                cur = self.ex(c.recv, env)
                a = self.ex(c.args[0], env, t[1])
                self.same(t[1], a.ty, c, "." + c.name)
                newv = self.seq([cur, a], lambda ns: Val("P", "(ks_%s %s %s %s)" % (c.name, opsvar(t), ns[0], ns[1]), t))
                return self.store(c.recv, newv, rest, env, K, s)
            if t is not None and t[0] == "hmap" and c.name == "insert" and len(c.args) == 2:
                cur = self.ex(c.recv, env)
                a = self.ex(c.args[0], env, t[1])
                b = self.ex(c.args[1], env, t[2])
                self.same(t[1], a.ty, c, ".insert (key)")
                self.same(t[2], b.ty, c, ".insert (value)")
                newv = self.seq([cur, a, b], lambda ns: Val("P", "(km_insert %s %s %s %s)" % (opsvar(t), ns[0], ns[1], ns[2]), t))
                return self.store(c.recv, newv, rest, env, K, s)
            return None
        f, pairs = None, None
        if c.kind == "mcall":
            t = self.place_ty(c.recv, env)
            if t is None or t[0] not in ("struct", "enum", "foreign"):
                return None
            f = self.w.fns.get("%s::%s" % (t[1], c.name))
            if f is None or f.clash:
                return None
            nodes = [c.recv] + list(c.args)
        elif c.kind == "call":
            f = self.callee_of_call(c)
            if f is None:
                return None
            nodes = list(c.args)
        else:
            return None
        sig = self.tr.signature(f)
        mn = sig.get("mut_name")
        if mn is None:
            return None
        params = sig["params"]
        if len(params) != len(nodes):
            self.err(c, "%s takes %d arguments, %d given" % (f.name, len(params), len(nodes)))
        if sig["mut_res"] and not tried:
            self.err(s, "the Result of %s is not used" % f.name)
        if not sig["mut_res"] and tried:
            self.err(s, "`?` on %s, which returns ()" % f.name)
        vals, place = [], None
        for (pn, pt), a in zip(params, nodes):
            if pn == mn:
                place = a.e if a.kind == "refmut" else a
            v = self.ex(a, env, pt)
            self.same(pt, v.ty, c, "argument %s of %s" % (pn, f.name))
            vals.append(v)
        pty = dict(params)[mn]
        if f is self.fn:
            # the function calls itself: open recursion through a Section variable
            head = "rec_" + self.tr.uname(f).replace("::", "_")
            self.tr.use_extern(f, self, name=head)
        elif self.is_extern(f):
            head = "ext_" + self.tr.uname(f).replace("::", "_")
            self.tr.use_extern(f, self)
        else:
            self.tr.need_fn(f)
            head = "g_" + self.tr.uname(f).replace("::", "_")
        newv = self.seq(vals, lambda ns: Val("M", "(%s %s)" % (head, " ".join(ns)), pty))
        return self.store(place, newv, rest, env, K, s)

    def while_(self, s, rest, env, K):
        """`loop { body }` / `while c { body }` on fuel: k_loop over the body, a function of the remaining fuel and of the locals it assigns"""
        if not self.unit.get("join"):
            self.err(s, "`while` / `loop` are parsed but not translated yet")
        self.nloop += 1
        nloop = self.nloop
        body = self.as_stmts(list(s.body.stmts))
        if s.cond is not None:
            l = s.line
            body = [N("exprstmt", l, e=N("if", l, letvar=None, letpat=None, cond=N("un", l, op="!", e=s.cond),
                                         then=N("block", l, stmts=[N("exprstmt", l, e=N("break", l), semi=True)]), els=None), semi=True)] + body
        bound_in = let_names(body, set())
        state = []
        for r in self.assigned_x(body):
            if r in env and r not in bound_in and r not in state:
                state.append(r)
        if any(n in state for n in self.mut_params):
            self.mut_self = True
        used = names_used(body, set())
        for n in env:
            if n in used and env[n] is not None and env[n][0] == "alias" and n not in bound_in:
                self.err(s, "the `&mut` alias %s is used inside a loop" % n)
        free = [n for n in env if n in used and n not in state and not (env[n] is not None and env[n][0] == "alias")]
        st_ty = [env[n] for n in state]
        def tup(names):
            return "tt" if not names else "(" + ", ".join(mangle(n) for n in names) + ")" if len(names) > 1 else mangle(names[0])
        s_cty = "unit" if not state else cty(("tup", tuple(st_ty))) if len(state) > 1 else cty(st_ty[0])
        plain_ret = Translator.plain(K.ret_ty)
        r_cty = cty(plain_ret) if plain_ret is not None else "unit"
        kl = KWhile(self, K.ret_ty, state)
        b = self.stmts(body, dict(env), kl)
        lname = "g_%s_loop%d" % (self.tr.uname(self.fn).replace("::", "_"), nloop)
        params = "".join(" (%s : %s)" % (mangle(n), cty(env[n])) for n in free)
        unpack = "" if not state else ("let %s%s := st__ in " % ("'" if len(state) > 1 else "", tup(state)))
        self.aux.append("(* body of loop %d of %s (line %d): `loop` / `while` on fuel, state %s *)\nDefinition %s (fuel__ : nat)%s (st__ : %s) : M (ctrl %s (ctrl %s %s)) :=\n  %s%s.\n"
                        % (nloop, self.fn.name, s.line, tup(state), lname, params, s_cty, r_cty, s_cty, s_cty, unpack, self.toM(b)))
        self.tr.need_nofuel = True
        self.tr.need_l = True
        bodyf = "(fun fuel__ st__ => %s fuel__%s st__)" % (lname, "".join(" " + mangle(n) for n in free))
        after = self.stmts(rest, dict(env), K)
        if K.ret_ty is not None and K.ret_ty[0] == "res":
            brk = K.ret(Val("M", "(k_ret ops v__)", K.ret_ty), env)
        elif isinstance(K, (KValue, KJoin)):
            brk = Val("M", "(k_panic ops)", None)
        else:
            brk = K.ret(Val("P", "v__", K.ret_ty), env)
        ty = after.ty if after.ty is not None else brk.ty
        loop = "(k_loop ops (k_nofuel _) fuel__ %s %s)" % (bodyf, tup(state))
        if self.unit.get("fuel_ext"):
            # the fuel of a loop is what the state says when the loop is entered (external: the models take it off the unread input)
            self.tr.externs_used.setdefault("ext_loop_fuel", ("M nat", "the fuel a `loop` / `while` starts with"))
            loop = "(k_bind ops ext_loop_fuel (fun fuel__ => %s))" % loop
        cont_pat = "_" if not state else tup(state) if len(state) == 1 else "st__"
        cont = "(let '%s := st__ in %s)" % (tup(state), self.toM(after)) if len(state) > 1 else self.toM(after)
        return Val("M", "(k_bind ops %s (fun r__ => match r__ with Brk v__ => %s | Cont %s => %s end))" % (loop, self.toM(brk), cont_pat, cont), ty)

    def assigned_x(self, body):
        """the roots a loop body assigns, calls that change a place included"""
        acc = assigned_roots(body, [])
        if not self.sets:
            return acc
        def walk(n):
            if isinstance(n, N):
                if n.kind == "mcall" and n.name in ("remove", "extend", "copy_from_slice", "push_str"):
                    r = lvalue_root(n.recv)
                    if r:
                        acc.append(r)
                if n.kind == "refmut":
                    # a `&mut` borrow of a place (an argument, or `let r = &mut place;`): what is borrowed may change
                    r = lvalue_root(n)
                    if r:
                        acc.append(r)
                if n.kind == "mcall" and n.recv.kind == "path" and len(n.recv.segs) == 1:
                    for lst in self.w.overloads.values():
                        if any(f2.short == n.name and any(pn == "self" and m for pn, _, m in f2.params)
                               and (f2 is self.fn or self.tr.really_mut(f2, None)) for f2 in lst):
                            acc.append(n.recv.segs[0])
                            break
                if n.kind == "call":
                    f2 = self.callee_of_call(n)
                    if f2 is not None:
                        ps2 = [q for q in f2.params if q[0] != "self"]
                        for i, a in enumerate(n.args):
                            a0 = a.e if a.kind == "refmut" else a
                            if i < len(ps2) and ps2[i][2] and lvalue_root(a0):
                                acc.append(lvalue_root(a0))
                for k_, v_ in n.__dict__.items():
                    if k_ not in ("kind", "line"):
                        walk(v_)
            elif isinstance(n, (list, tuple)):
                for x in n:
                    walk(x)
        walk(body)
        return acc

    def as_stmts(self, lst):
        """a block whose value is not used: its tail expression is a statement"""
        if lst and lst[-1].kind == "exprstmt" and not lst[-1].semi:
            return lst[:-1] + [N("exprstmt", lst[-1].line, e=lst[-1].e, semi=True)]
        return lst

    def no_capture(self, inner, rest, node):
        """the rest of the enclosing block is moved INTO the branch: a name bound in the branch must not be used after it"""
        if not rest:
            return
        bound = let_names(inner, set())
        used = names_used(rest, set())
        clash = bound & used
        if clash and self.unit.get("join"):
            # the names bound inside the branch get fresh ones there (the rest of the block keeps the outer names)
            ren = {}
            for nm in sorted(clash):
                self.nhoist += 1
                ren[nm] = "%s__b%d" % (nm, self.nhoist)
                rename_var(inner, nm, ren[nm])
            return ren
        if clash:
            self.err(node, "the names %s are bound inside a branch and used after it (shadowing across the branch is outside the subset)" % sorted(clash))

    def joinable(self, branches):
        """fourth part of the subset: an `if` / `if let` / `match` in statement position whose branches leave neither the function
        nor a loop (`return`, `break`, `continue`) is translated ONCE and joined with the rest of the block through the tuple of
        the locals it assigns (instead of taking the rest into every branch)"""
        return bool(self.unit.get("join")) and not any(has_kind(b, k) for b in branches for k in ("return", "break", "continue"))

    def join_(self, e, branches, rest, env, K):
        """the branching statement e (an `if` or a `match` whose branches are the statement lists `branches`) followed by rest"""
        inner = [x for b in branches for x in b]
        bound = let_names(inner, set())
        if e.kind == "if" and e.letvar:
            bound = bound | {e.letvar}
        state = []
        for r in self.assigned_x(inner):
            if r in env and r not in state and (r not in bound or r in names_used(rest, set()) or r in self.mut_params):
                if env[r] is not None and env[r][0] == "alias":
                    self.err(e, "assignment through the `&mut` alias %s inside a branch that is joined" % r)
                state.append(r)
        kj = KJoin(self, state)
        if e.kind == "if":
            v = self.if_(N("if", e.line, letvar=e.letvar, letpat=getattr(e, "letpat", None), cond=e.cond, then=N("block", e.line, stmts=branches[0]),
                           els=N("block", e.line, stmts=branches[1])), None, env, kj)
        else:
            v = self.match_(e, None, env, kj, joined=True)
        tys = [env[n] for n in state]
        if not state:
            pat, ty = N("pwild", e.line), ("unit",)
        elif len(state) == 1:
            pat, ty = N("pvar", e.line, name=state[0]), tys[0]
        else:
            pat, ty = N("ptup", e.line, pats=[N("pvar", e.line, name=n) for n in state]), ("tup", tuple(tys))
        if any(n in self.mut_params for n in state):
            self.mut_self = True
        if v.ty is None and v.kind == "M":
            return v
        return self.let_(pat, Val("M", self.toM(v), ty), lambda env2: self.stmts(rest, env2, K), env, e)

    def if_(self, e, rest, env, K):
        """`if` whose continuation is `rest` (None: the if is the value of the block)"""
        if self.sets and e.letvar is None and getattr(e, "letpat", None) is None:
            h = self.hoist_set_cond(e, rest, env, K)
            if h is not None:
                return h
        tail = rest is None
        rest = rest or []
        then = list(e.then.stmts)
        els = list(e.els.stmts) if e.els is not None else []
        if not tail:
            then, els = self.as_stmts(then), self.as_stmts(els)
        elif e.els is None:
            then = self.as_stmts(then)
        if rest and not tail and self.joinable([then, els]):
            return self.join_(e, [then, els], rest, env, K)
        ren = self.no_capture(then, rest, e)
        if ren and e.letvar in ren:
            e.letvar = ren[e.letvar]        # (the name bound by `if let` is one of those renamed in its branch)
        if ren and getattr(e, "letpat", None) is not None:
            for old_, new_ in ren.items():
                rename_var(e.letpat, old_, new_)
        self.no_capture(els, rest, e)
        if getattr(e, "letpat", None) is not None:
            l2 = e.line
            arms = [(e.letpat, None, e.then), (N("pwild", l2), None, e.els if e.els is not None else N("block", l2, stmts=[]))]
            return self.match_(N("match", l2, scrut=e.cond, arms=arms), (rest if not tail else None), env, K)
        if e.letvar is not None:
            c = self.ex(e.cond, env)
            if c.ty is None or c.ty[0] != "opt":
                self.err(e, "`if let Some(..)` on a value of type %r" % (c.ty,))
            if e.letvar in names_used(rest, set()) and e.letvar in env and rest:
                if not (self.unit.get("traits") or self.unit.get("join")):
                    self.err(e, "`if let` shadows %s, which is used after the if" % e.letvar)
                # the rest of the block goes into the branch: the bound name gets a fresh one inside the branch
                self.nhoist += 1
                new = "%s__s%d" % (e.letvar, self.nhoist)
                rename_var(e.then, e.letvar, new)
                e.letvar = new
                then = list(e.then.stmts)
                if not tail or e.els is None:
                    then = self.as_stmts(then)
            env2 = dict(env); env2[e.letvar] = c.ty[1]
            a = self.stmts(then + rest, env2, K)
            b = self.stmts(els + rest, env, K)
            ty = self.same(a.ty, b.ty, e, "branches of if let")
            def build(ns):
                if a.kind == "P" and b.kind == "P":
                    return Val("P", "(match %s with Some %s => %s | None => %s end)" % (ns[0], mangle(e.letvar), a.term, b.term), ty)
                return Val("M", "(match %s with Some %s => %s | None => %s end)" % (ns[0], mangle(e.letvar), self.toM(a), self.toM(b)), ty)
            return self.seq([c], build)
        c = self.ex(e.cond, env, ("bool",))
        if c.ty != ("bool",):
            self.err(e, "condition of type %r" % (c.ty,))
        a = self.stmts(then + rest, env, K)
        b = self.stmts(els + rest, env, K)
        ty = self.same(a.ty, b.ty, e, "branches of if")
        def build(ns):
            if a.kind == "P" and b.kind == "P":
                return Val("P", "(if %s then %s else %s)" % (ns[0], a.term, b.term), ty)
            return Val("M", "(if %s then %s else %s)" % (ns[0], self.toM(a), self.toM(b)), ty)
        return self.seq([c], build)

    def infer_from_use(self, name, rest, env):
        """the type of the parameter / field that the local `name` is passed to in `rest` (first use), or None"""
        found = []
        def is_me(a):
            return a.kind == "path" and a.segs == [name]
        def inside(a, pt):
            """the local sits inside the argument a (tuples, array / vec literals) of a parameter of type pt"""
            if is_me(a):
                found.append(pt)
                return True
            if a.kind == "refmut":
                return inside(a.e, pt)
            if a.kind == "tuple" and pt is not None and pt[0] == "tup" and len(pt[1]) == len(a.es):
                return any(inside(x, t) for x, t in zip(a.es, pt[1]))
            if a.kind in ("array", "veclit") and pt is not None and pt[0] in ("vec", "arr"):
                return any(inside(x, pt[1]) for x in a.es)
            return False
        def walk(n):
            if found:
                return
            if isinstance(n, N):
                try:
                    if self.sets and n.kind == "call" and not any(is_me(a) for a in n.args):
                        f2 = self.callee_of_call(n)
                        if f2 is not None:
                            ps = [p_ for p_ in self.tr.signature(f2)["params"] if p_[0] != "self"]
                            for a, (pn, pt) in zip(n.args, ps):
                                if inside(a, pt):
                                    return
                    if n.kind == "call" and any(is_me(a) for a in n.args):
                        segs = n.path
                        if self.sets and len(segs) > 2 and all(x[:1].islower() for x in segs[:-2]):
                            segs = segs[-2:]
                        qn = None
                        if len(segs) == 1:
                            qn = segs[0]
                        elif len(segs) == 2:
                            h = segs[0]
                            if h == "Self" and self.self_ty is not None:
                                h = self.self_ty[1]
                            qn = "%s::%s" % (h, segs[1])
                        if qn in self.w.fns and not self.w.fns[qn].clash:
                            ps = [p_ for p_ in self.tr.signature(self.w.fns[qn])["params"] if p_[0] != "self"]
                            for a, (pn, pt) in zip(n.args, ps):
                                if is_me(a):
                                    found.append(pt)
                                    return
                    sl_name = n.name if n.kind == "structlit" else None
                    if sl_name == "Self" and self.sets and self.self_ty is not None and self.self_ty[0] == "struct":
                        sl_name = self.self_ty[1]
                    if n.kind == "structlit" and sl_name in self.w.structs:
                        kept = dict(self.tr.literal_fields(sl_name))
                        for f, x in n.fields:
                            if is_me(x) and f in kept:
                                found.append(kept[f])
                                return
                except Unsupported:
                    pass
                for k_, v_ in n.__dict__.items():
                    if k_ not in ("kind", "line"):
                        walk(v_)
            elif isinstance(n, (list, tuple)):
                for x in n:
                    walk(x)
        walk(rest)
        return found[0] if found else None

    def ctors_of(self, ty):
        if ty is None:
            return None
        if ty == ("bool",):
            return [("true", []), ("false", [])]
        if ty[0] == "opt":
            return [("None", []), ("Some", [ty[1]])]
        if ty[0] == "enum":
            return [(v[0], list(self.tr.variant(ty[1], v[0], None, self)[1])) for v in self.w.enums[ty[1]]]
        if ty[0] == "tup":
            return [("tup", list(ty[1]))]
        if ty[0] == "struct":
            return [("mk", [ft for _, ft in self.fields_of(ty[1])])]
        return None

    def pat(self, p, ty, env2, node, top=False):
        """(Gallina pattern, normalised pattern) of the Rust pattern p at the type ty; binds its variables in env2"""
        k = p.kind
        if k == "pwild":
            return "_", ("w",)
        if k == "pvar" and p.name in self.use_names and ty is not None and ty == ("enum", self.use_names[p.name]) \
                and any(v_[0] == p.name for v_ in self.w.enums[ty[1]]):
            # a bare identifier that `use E::{..}` made a variant of E
            return self.pat(N("ppath", p.line, segs=[ty[1], p.name]), ty, env2, node, top)
        if k == "pvar":
            env2[p.name] = ty
            return mangle(p.name), ("w",)
        if k == "por":
            parts, norms, first = [], [], None
            for alt in p.alts:
                e3 = {}
                c, n = self.pat(alt, ty, e3, node)
                if first is None:
                    first = e3
                elif e3 != first:
                    self.err(node, "the alternatives of an or-pattern bind different names / types")
                parts.append(c); norms.append(n)
            env2.update(first)
            txt = " | ".join(parts)
            return (txt if top else "(" + txt + ")"), ("o", norms)
        if ty is None:
            self.err(node, "pattern against a value of unknown type")
        def subs(pats, tys, rest_ok):
            if len(pats) != len(tys):
                if not (rest_ok and len(pats) <= len(tys)):
                    self.err(node, "pattern with %d components against %d" % (len(pats), len(tys)))
                pats = list(pats) + [N("pwild", p.line)] * (len(tys) - len(pats))
            cs, ns = [], []
            for q, t in zip(pats, tys):
                if t == ("opaque",) and q.kind not in ("pwild", "pvar"):
                    self.err(node, "pattern inside a component whose type is outside the subset")
                c, n = self.pat(q, t, env2, node)
                cs.append(c); ns.append(n)
            return cs, ns
        if k == "ptup":
            if ty[0] != "tup":
                self.err(node, "tuple pattern against the type %r" % (ty,))
            cs, ns = subs(p.pats, list(ty[1]), False)
            return "(" + ", ".join(cs) + ")", ("c", "tup", ns)
        if k == "plit":
            if isinstance(p.val, bool) and ty == ("bool",):
                return ("true" if p.val else "false"), ("c", "true" if p.val else "false", [])
            self.err(node, "literal pattern at the type %r (only bool is in the subset)" % (ty,))
        segs = p.segs
        if ty[0] == "opt":
            if k == "ppath" and segs == ["None"]:
                return "None", ("c", "None", [])
            if k == "pts" and segs == ["Some"] and len(p.pats) == 1:
                cs, ns = subs(p.pats, [ty[1]], False)
                return "(Some %s)" % cs[0], ("c", "Some", ns)
            self.err(node, "pattern %s against an Option" % "::".join(segs))
        if ty[0] == "enum":
            en = ty[1]
            head = segs[-2] if len(segs) >= 2 else None
            if head is not None and head != "Self" and head != en:
                al = None
                try:
                    al = self.w.resolve(("named", head), self.ctx)
                except Unsupported:
                    pass
                if al != ty:
                    self.err(node, "pattern %s against the enum %s" % ("::".join(segs), en))
            if head is None and not ((en in self.glob_enums or self.use_names.get(segs[0]) == en) and any(v[0] == segs[0] for v in self.w.enums[en])):
                self.err(node, "pattern %s against the enum %s (write the variant with its enum)" % (segs[0], en))
            vkind, tys, names = self.tr.variant(en, segs[-1], node, self)
            if k == "ppath":
                if vkind != "unit":
                    self.err(node, "%s::%s has fields" % (en, segs[-1]))
                return "g%s_%s" % (en, segs[-1]), ("c", segs[-1], [])
            if k == "pts":
                if vkind != "tuple":
                    self.err(node, "%s::%s is not a tuple variant" % (en, segs[-1]))
                cs, ns = subs(p.pats, tys, p.rest)
                return "(g%s_%s %s)" % (en, segs[-1], " ".join(cs)), ("c", segs[-1], ns)
            if k == "pstruct":
                if vkind != "struct":
                    self.err(node, "%s::%s is not a struct variant" % (en, segs[-1]))
                given = dict(p.fields)
                if set(given) - set(names) or (not p.rest and set(given) != set(names)):
                    self.err(node, "fields of the pattern %s::%s" % (en, segs[-1]))
                cs, ns = subs([given.get(f, N("pwild", p.line)) for f in names], tys, False)
                return "(g%s_%s %s)" % (en, segs[-1], " ".join(cs)) if cs else "g%s_%s" % (en, segs[-1]), ("c", segs[-1], ns)
        if ty[0] == "struct":
            sn = ty[1]
            kept = self.fields_of(sn)
            if k == "pts" and self.w.meta[sn]["tuple"] and len(kept) == len(self.w.structs[sn]):
                cs, ns = subs(p.pats, [ft for _, ft in kept], p.rest)
                return "(mk_g%s %s)" % (sn, " ".join(cs)), ("c", "mk", ns)
            if k == "pstruct":
                given = dict(p.fields)
                decl = [f for f, _ in self.w.structs[sn]]
                if set(given) - set(decl) or (not p.rest and set(given) != set(decl)):
                    self.err(node, "fields of the pattern %s { .. }" % sn)
                for f in given:
                    if f not in dict(kept) and given[f].kind != "pwild":
                        self.err(node, "pattern on the field %s of %s, whose type is outside the subset" % (f, sn))
                    self.tr.use_field(sn, f)
                cs, ns = subs([given.get(f, N("pwild", p.line)) for f, _ in kept], [ft for _, ft in kept], False)
                return "(mk_g%s%s)" % (sn, "".join(" " + c for c in cs)), ("c", "mk", ns)
        self.err(node, "pattern of kind %s against the type %r" % (k, ty))

    def match_(self, e, rest, env, K, value=False, joined=False):
        """`match` whose continuation is `rest` (None: the match is the value of the block / of the expression)"""
        tail = rest is None and not joined
        rest = rest or []
        if self.unit.get("join"):
            e = self.prep_match(e)
        if rest and not tail and not value:
            arms_ = [self.as_stmts(list(b.stmts)) if b.kind == "block" else [N("exprstmt", b.line, e=b, semi=True)] for _, _, b in e.arms]
            if self.joinable(arms_):
                return self.join_(e, arms_, rest, env, K)
        sc = self.ex(e.scrut, env)
        if sc.ty is None:
            self.err(e, "match on a diverging expression")
        if sc.ty[0] in ("res", "tryres", "tryarr"):
            self.err(e, "match on a Result is outside the subset (use `?`; with Ok / Err arms only when every Err arm returns an error)")
        used_after = names_used(rest, set())
        arms = []
        for pat, guard, body in e.arms:
            stm = list(body.stmts) if body.kind == "block" else [N("exprstmt", body.line, e=body, semi=False)]
            if not tail:
                stm = self.as_stmts(stm)
            ren = self.no_capture(stm, rest, e)
            for old_, new_ in (ren or {}).items():
                rename_var(pat, old_, new_)
                if guard is not None:
                    rename_var(guard, old_, new_)
            clash = pat_names(pat, set()) & used_after
            if clash and rest and self.unit.get("join"):
                # the rest of the block goes into the arm: the names the pattern binds get fresh ones inside the arm
                for nm in sorted(clash):
                    self.nhoist += 1
                    new = "%s__p%d" % (nm, self.nhoist)
                    rename_var(pat, nm, new)
                    if guard is not None:
                        rename_var(guard, nm, new)
                    rename_var(stm, nm, new)
            elif clash and rest:
                self.err(e, "the names %s are bound by a pattern and used after the match" % sorted(clash))
            arms.append((pat, guard, stm))
        def build(ns):
            st = ns[0]
            prefix = None
            if not st.replace("_", "a").isalnum() and any(g is not None for _, g, _ in arms):
                self.tmp += 1
                prefix, st = ("m__%d" % self.tmp, st), "m__%d" % self.tmp
            comp = []
            for pat, guard, stm in arms:
                env2 = dict(env)
                cp, norm = self.pat(pat, sc.ty, env2, e, top=True)
                g = None
                if guard is not None:
                    g = self.ex(guard, env2, ("bool",))
                    if g.ty != ("bool",):
                        self.err(e, "guard of type %r" % (g.ty,))
                v = self.stmts(stm + rest, env2, K)
                comp.append((cp, norm, g, v))
            ty = None
            for _, _, _, v in comp:
                ty = self.same(ty, v.ty, e, "arms of match")
            pure = all(v.kind == "P" for _, _, _, v in comp) and all(g is None or g.kind == "P" for _, _, g, _ in comp)
            body = (lambda v: v.term) if pure else self.toM
            memo = {}
            tys = [sc.ty]
            def gen(i):
                if i in memo:
                    return memo[i]
                if i >= len(comp):
                    if pure:
                        self.err(e, "this match needs a fall-through that cannot be written for a pure value (guards on every arm)")
                    memo[i] = "(k_panic ops)"
                    return memo[i]
                rows, out, j = [], [], i
                while j < len(comp) and comp[j][2] is None:
                    if useful(rows, [comp[j][1]], tys, self.ctors_of):
                        out.append("| %s => %s" % (comp[j][0], body(comp[j][3])))
                        rows.append([comp[j][1]])
                    j += 1
                thunk = None
                if j < len(comp):
                    cp, norm, g, v = comp[j]
                    if useful(rows, [norm], tys, self.ctors_of):
                        nxt = gen(j + 1)
                        if self.unit.get("join") and not pure:
                            # the later arms are written ONCE, behind a name (a function of unit: nothing of them runs before it is called);
                            # the names are bound in front of the whole match, the last arms first
                            self.tmp += 1
                            thunks.append(("k__%d" % self.tmp, nxt))
                            nxt = "(k__%d tt)" % self.tmp
                        if g.kind == "P":
                            out.append("| %s => (if %s then %s else %s)" % (cp, g.term, body(v), nxt))
                        else:
                            out.append("| %s => (k_bind ops %s (fun g__ => if g__ then %s else %s))" % (cp, g.term, body(v), nxt))
                        if useful(rows + [[norm]], [("w",)], tys, self.ctors_of):
                            out.append("| _ => %s" % nxt)
                elif useful(rows, [("w",)], tys, self.ctors_of):
                    if pure:
                        self.err(e, "the arms of this match are not exhaustive as read by the translator")
                    out.append("| _ => (k_panic ops)")
                memo[i] = "(match %s with %s end)" % (st, " ".join(out))
                return memo[i]
            thunks = []
            term = gen(0)
            for kn, kb in reversed(thunks):
                term = "(let %s := (fun _ : unit => %s) in %s)" % (kn, kb, term)
            if prefix is not None and self.unit.get("join"):
                # (a `let`-bound scrutinee makes Coq's compilation of the nested matches explode: bound by a function instead)
                term = "((fun %s : %s => %s) %s)" % (prefix[0], cty(sc.ty), term, prefix[1])
            elif prefix is not None:
                term = "(let %s := %s in %s)" % (prefix[0], prefix[1], term)
            return Val("P" if pure else "M", term, ty)
        return self.seq([sc], build)

    def prep_match(self, e):
        """fourth part of the subset: (1) a match on a Result whose `Err(..)` arms all leave the function with an error is the match
        of the value under `?`; (2) an integer literal inside a pattern becomes a fresh name with the guard `name == literal`"""
        if getattr(e, "prepped", False):
            return e
        arms = list(e.arms)
        scrut = e.scrut
        def head(p):
            return p.segs if p.kind == "pts" and len(p.pats) == 1 and not p.rest else None
        if arms and all(head(p) in (["Ok"], ["Err"]) for p, _, _ in arms) and any(head(p) == ["Err"] for p, _, _ in arms):
            if all(is_fail_return(b, self.fail_methods) and g is None for p, g, b in arms if head(p) == ["Err"]):
                arms = [(p.pats[0], g, b) for p, g, b in arms if head(p) == ["Ok"]]
                scrut = N("try", e.line, e=scrut)
        def lits(p, acc):
            if p.kind == "plit" and not isinstance(p.val, bool):
                self.nhoist += 1
                nm = "lit__%d" % self.nhoist
                acc.append((nm, p))
                return N("pvar", p.line, name=nm)
            if p.kind in ("ptup", "pts"):
                q = N(p.kind, p.line, **{k_: v_ for k_, v_ in p.__dict__.items() if k_ not in ("kind", "line")})
                q.pats = [lits(x, acc) for x in p.pats]
                return q
            if p.kind == "pstruct":
                q = N(p.kind, p.line, **{k_: v_ for k_, v_ in p.__dict__.items() if k_ not in ("kind", "line")})
                q.fields = [(f_, lits(x, acc)) for f_, x in p.fields]
                return q
            if p.kind == "por":
                acc2 = []
                q = N(p.kind, p.line, alts=[lits(x, acc2) for x in p.alts])
                if acc2:
                    self.err(e, "an integer literal inside an or-pattern is outside the subset")
                return q
            return p
        out = []
        for p, g, b in arms:
            acc = []
            p2 = lits(p, acc)
            for nm, lit in acc:
                c = N("bin", lit.line, op="==", l=N("path", lit.line, segs=[nm]), r=N("int", lit.line, val=lit.val, suffix=lit.suffix))
                g = c if g is None else N("bin", lit.line, op="&&", l=c, r=g)
            out.append((p2, g, b))
        e2 = N("match", e.line, scrut=scrut, arms=out)
        e2.prepped = True
        return e2

    def update(self, lhs, newterm, env):
        """(root name, term for the new value of the root) for the assignment of newterm to the place lhs"""
        if lhs.kind == "path" and len(lhs.segs) == 1:
            if lhs.segs[0] not in env:
                self.err(lhs, "assignment to unknown name %s" % lhs.segs[0])
            return lhs.segs[0], newterm
        base = self.ex(lhs.e, env)
        if base.kind != "P":
            self.err(lhs, "assignment through an effectful place")
        if lhs.kind == "index":
            if base.ty[0] != "arr" or lhs.idx.kind != "int" or lhs.idx.val not in (0, 1):
                self.err(lhs, "assignment to an index other than the literal 0 or 1 of a [T; 2]")
            nb = "(%s, (snd %s))" % (newterm, base.term) if lhs.idx.val == 0 else "((fst %s), %s)" % (base.term, newterm)
            return self.update(lhs.e, nb, env)
        if lhs.kind == "field":
            if base.ty[0] != "struct":
                self.err(lhs, "field assignment on %r" % (base.ty,))
            sn = base.ty[1]
            self.tr.use_field(sn, lhs.name)
            parts = [newterm if f == lhs.name else "(g%s_%s %s)" % (sn, f, base.term) for f, _ in self.fields_of(sn)]
            return self.update(lhs.e, "(mk_g%s %s)" % (sn, " ".join(parts)), env)
        self.err(lhs, "assignment to this kind of place is outside the subset")

    def assign(self, s, rest, env, K):
        if s.lhs.kind == "tuple":
            if s.op != "=":
                self.err(s, "compound assignment to a tuple")
            pats = []
            for x in s.lhs.es:
                if not (x.kind == "path" and len(x.segs) == 1 and x.segs[0] in env):
                    self.err(s, "tuple assignment to something other than locals")
                pats.append(N("pvar", s.line, name=x.segs[0]))
            expect = ("tup", tuple(env[p.name] for p in pats))
            v = self.ex(s.rhs, env, expect)
            self.same(expect, v.ty, s, "tuple assignment")
            return self.let_(N("ptup", s.line, pats=pats), v, lambda env2: self.stmts(rest, env2, K), env, s)
        if self.x:
            return self.assign_x(s, rest, env, K)
        cur = self.ex(s.lhs, env)
        if cur.kind != "P":
            self.err(s, "assignment to an effectful place")
        root = lvalue_root(s.lhs)
        if root is None:
            self.err(s, "assignment to something that is not rooted at a local")
        if root == "self":
            self.mut_self = True
        if s.op in MUTATORS:
            if cur.ty is None or cur.ty[0] != "vec":
                self.err(s, ".%s on a value of type %r" % (s.op, cur.ty))
            if s.op == "push":
                rhs = self.ex(s.rhs, env, cur.ty[1])
                self.same(cur.ty[1], rhs.ty, s, ".push")
                newv = self.seq([rhs], lambda ns: Val("P", "(app %s (cons %s nil))" % (cur.term, ns[0]), cur.ty))
            else:
                newv = Val("P", "(k_pop %s)" % cur.term, cur.ty)
            def build_m(ns):
                rname, upd = self.update(s.lhs, ns[0], env)
                r = self.stmts(rest, env, K)
                return Val(r.kind, "(let %s := %s in %s)" % (mangle(rname), upd, r.term), r.ty)
            return self.seq([newv], build_m)
        rhs = self.ex(s.rhs, env, cur.ty)
        self.same(cur.ty, rhs.ty, s, "assignment")
        if s.op == "=":
            newv = rhs
        elif self.x and cur.ty is not None and cur.ty[0] in ("struct", "enum", "foreign"):
            f, _ = self.pick_overload(cur.ty[1], OP_METHOD[s.op[0]], s.rhs, env, s)
            newv = self.emit_call(f, [s.rhs], cur, env, s, arg_vals=[rhs])
        else:
            f = self.arith(s.op[0], cur.ty, s)
            newv = self.seq([rhs], lambda ns: Val("M", f(cur.term, ns[0]), cur.ty))
        def build(ns):
            rname, upd = self.update(s.lhs, ns[0], env)
            r = self.stmts(rest, env, K)
            return Val(r.kind, "(let %s := %s in %s)" % (mangle(rname), upd, r.term), r.ty)
        return self.seq([newv], build)

    def needs_push(self, e):
        """the value of this match / if / block cannot be translated as an expression: an arm leaves the loop or the function, or
        changes a local"""
        return has_kind(e, "break") or has_kind(e, "continue") or has_kind(e, "return") or bool(assigned_roots(e, [])) \
            or any(has_kind(e, "mcall") and True for _ in ()) or self.has_mutating_call(e)

    def has_mutating_call(self, e):
        found = []
        def walk(n):
            if isinstance(n, N):
                if n.kind == "mcall" and n.name in MUTATORS + ("extend", "remove", "push_str") and lvalue_root(n.recv) is not None:
                    found.append(n)
                for k_, v_ in n.__dict__.items():
                    if k_ not in ("kind", "line"):
                        walk(v_)
            elif isinstance(n, (list, tuple)):
                for x in n:
                    walk(x)
        walk(e)
        return bool(found)

    def push_assign(self, e, lhs):
        """`lhs = match .. { p => v, q => break, .. }` as the match with `lhs = v` in the arms that have a value"""
        def diverges(x):
            return x.kind in ("break", "continue", "return") or (x.kind == "macro" and x.name in ("unimplemented", "unreachable", "todo", "panic"))
        def value_stmts(x):
            if x.kind == "block":
                st = list(x.stmts)
                if st and st[-1].kind == "exprstmt" and not st[-1].semi:
                    return st[:-1] + value_stmts(st[-1].e)
                return st
            if diverges(x):
                return [N("exprstmt", x.line, e=x, semi=True)]
            if x.kind in ("match", "if") and self.needs_push(x):
                return [N("exprstmt", x.line, e=self.push_assign(x, lhs), semi=True)]
            return [N("assign", x.line, lhs=lhs, op="=", rhs=x)]
        if e.kind == "match":
            return N("match", e.line, scrut=e.scrut, arms=[(p_, g_, N("block", b_.line, stmts=value_stmts(b_))) for p_, g_, b_ in e.arms])
        if e.kind == "if":
            if e.els is None:
                self.err(e, "an `if` without `else` used as a value")
            return N("if", e.line, letvar=e.letvar, letpat=getattr(e, "letpat", None), cond=e.cond,
                     then=N("block", e.line, stmts=value_stmts(e.then)), els=N("block", e.line, stmts=value_stmts(e.els)))
        return N("block", e.line, stmts=value_stmts(e))

    def range_lits(self, r):
        if not (r.lo.kind == "int" and r.hi.kind == "int" and self.unit.get("join")):
            self.err(r, "a sub-slice `v[a..b]` is in the subset with literal bounds only")
        return r.lo.val, r.hi.val

    def subst_root(self, lhs, place):
        if lhs.kind == "path":
            return place
        if lhs.kind == "refmut":
            return self.subst_root(lhs.e, place)
        n = N(lhs.kind, lhs.line, **{k_: v_ for k_, v_ in lhs.__dict__.items() if k_ not in ("kind", "line")})
        n.e = self.subst_root(lhs.e, place)
        return n

    def upd(self, lhs, newterm, env):
        """the new value of the ROOT local of the place lhs when newterm is stored in lhs (second part of the subset:
        through fields, [T; 2] cells and Vec cells; a Vec cell is written back with v_set)"""
        if lhs.kind == "refmut":
            return self.upd(lhs.e, newterm, env)
        if lhs.kind == "path" and len(lhs.segs) == 1:
            return Val("P", newterm, env[lhs.segs[0]])
        if lhs.kind == "field":
            base = self.ex(lhs.e, env)
            if base.ty is None or base.ty[0] != "struct":
                self.err(lhs, "field assignment on %r" % (base.ty,))
            sn = base.ty[1]
            self.tr.use_field(sn, lhs.name)
            if lhs.name not in dict(self.fields_of(sn)):
                self.err(lhs, "assignment to the field %s of %s, whose type is outside the subset" % (lhs.name, sn))
            def build(ns):
                parts = [newterm if f == lhs.name else "(g%s_%s %s)" % (sn, f, ns[0]) for f, _ in self.fields_of(sn)]
                return self.upd(lhs.e, "(%s %s)" % (self.mk(sn), " ".join(parts)), env)
            return self.seq([base], build)
        if lhs.kind == "index":
            base = self.ex(lhs.e, env)
            if base.ty is not None and base.ty[0] == "arr":
                if lhs.idx.kind != "int" or lhs.idx.val not in (0, 1) or base.kind != "P":
                    self.err(lhs, "assignment to an index other than the literal 0 or 1 of a [T; 2]")
                nb = "(%s, (snd %s))" % (newterm, base.term) if lhs.idx.val == 0 else "((fst %s), %s)" % (base.term, newterm)
                return self.upd(lhs.e, nb, env)
            if base.ty is not None and base.ty[0] == "vec" and lhs.idx.kind == "range":
                lo, hi = self.range_lits(lhs.idx)
                self.tr.need_l = True
                setv = self.seq([base], lambda ns: Val("M", "(k_splice ops %s %d %d %s)" % (ns[0], lo, hi, newterm), base.ty))
                return self.seq([setv], lambda ns: self.upd(lhs.e, ns[0], env))
            if base.ty is not None and base.ty[0] == "vec":
                i = self.ex(lhs.idx, env, ("int", "usize"))
                if i.ty != ("int", "usize"):
                    self.err(lhs, "Vec index of type %r" % (i.ty,))
                setv = self.seq([base, i], lambda ns: Val("M", "(v_set xops %s %s %s)" % (ns[0], ns[1], newterm), base.ty))
                return self.seq([setv], lambda ns: self.upd(lhs.e, ns[0], env))
        self.err(lhs, "assignment to this kind of place is outside the subset")

    def assign_x(self, s, rest, env, K):
        lhs = s.lhs
        root = lvalue_root(lhs)
        if root is None or root not in env:
            self.err(s, "assignment to something that is not rooted at a local")
        if env[root] is not None and env[root][0] == "alias":
            lhs = self.subst_root(lhs, env[root][1])
            root = lvalue_root(lhs)
        if root in self.mut_params:
            self.mut_self = True
        cur = self.ex(lhs, env)
        if cur.ty is None:
            self.err(s, "assignment to a diverging place")
        if s.op in MUTATORS:
            if cur.ty[0] != "vec" or cur.kind != "P":
                self.err(s, ".%s on a value of type %r" % (s.op, cur.ty))
            if s.op == "push":
                rhs = self.ex(s.rhs, env, cur.ty[1])
                self.same(cur.ty[1], rhs.ty, s, ".push")
                newv = self.seq([rhs], lambda ns: Val("P", "(app %s (cons %s nil))" % (cur.term, ns[0]), cur.ty))
            elif s.op == "insert":
                i = self.ex(s.rhs[0], env, ("int", "usize"))
                xv = self.ex(s.rhs[1], env, cur.ty[1])
                self.same(cur.ty[1], xv.ty, s, ".insert")
                if i.ty != ("int", "usize"):
                    self.err(s, ".insert at an index of type %r" % (i.ty,))
                newv = self.seq([i, xv], lambda ns: Val("M", "(v_insert xops %s %s %s)" % (cur.term, ns[0], ns[1]), cur.ty))
            else:
                newv = Val("P", "(k_pop %s)" % cur.term, cur.ty)
        else:
            compound_impl = (s.op != "=" and cur.ty[0] in ("struct", "enum", "foreign") and self.unit.get("strings")
                             and "%s::%s_assign" % (cur.ty[1], OP_METHOD[s.op[0]]) in self.w.fns)
            rhs = None if compound_impl else self.ex(s.rhs, env, cur.ty)
            if not compound_impl:
                self.same(cur.ty, rhs.ty, s, "assignment")
            if s.op == "=":
                newv = rhs
            elif cur.ty[0] in ("struct", "enum", "foreign") and self.unit.get("strings") and "%s::%s_assign" % (cur.ty[1], OP_METHOD[s.op[0]]) in self.w.fns:
                # `impl AddAssign<T> for S`: `a += b` is `a.add_assign(b)`, the new value of a
                fa = self.w.fns["%s::%s_assign" % (cur.ty[1], OP_METHOD[s.op[0]])]
                rhs = self.ex(s.rhs, env, self.tr.signature(fa)["params"][1][1])
                if self.is_extern(fa):
                    head = "ext_" + self.tr.uname(fa).replace("::", "_")
                    self.tr.use_extern(fa, self)
                else:
                    self.tr.need_fn(fa)
                    head = "g_" + self.tr.uname(fa).replace("::", "_")
                newv = self.seq([cur, rhs], lambda ns: Val("M", "(%s %s %s)" % (head, ns[0], ns[1]), cur.ty))
            elif cur.ty[0] in ("struct", "enum", "foreign"):
                f, _ = self.pick_overload(cur.ty[1], OP_METHOD[s.op[0]], s.rhs, env, s)
                newv = self.emit_call(f, [s.rhs], cur, env, s, arg_vals=[rhs])
            else:
                fop = self.arith(s.op[0], cur.ty, s)
                newv = self.seq([cur, rhs], lambda ns: Val("M", fop(ns[0], ns[1]), cur.ty))
        newroot = self.seq([newv], lambda ns: self.upd(lhs, ns[0], env))
        return self.let_(N("pvar", s.line, name=root), newroot, lambda env2: self.stmts(rest, env2, K), env, s)

    def for_(self, s, rest, env, K):
        self.nloop += 1
        nloop = self.nloop
        body = self.as_stmts(list(s.body.stmts))
        # the loop variable
        if s.hi is not None:
            lo = self.ex(s.lo, env, ("int", "usize"))
            hi = self.ex(s.hi, env, lo.ty)
            self.same(lo.ty, hi.ty, s, "range bounds")
            if lo.ty is None or lo.ty[0] != "int":
                self.err(s, "range over %r" % (lo.ty,))
            vty = lo.ty
            if s.pat.kind != "pvar":
                self.err(s, "loop pattern over a range must be a name")
        else:
            coll = self.ex(s.lo, env)
            if coll.ty is None or coll.ty[0] != "vec":
                self.err(s, "`for` over a value of type %r (a range or a Vec is in the subset)" % (coll.ty,))
            vty = coll.ty[1]
            if s.pat.kind == "ptup" and self.x:
                # `for (i, x) in ..`: the loop variable is a fresh name, taken apart at the start of the body
                it = "it__%d" % nloop
                body = [N("let", s.line, pat=s.pat, ty=None, init=N("path", s.line, segs=[it]))] + body
                s = N("for", s.line, pat=N("pvar", s.line, name=it), lo=s.lo, hi=s.hi, body=s.body)
            if s.pat.kind != "pvar":
                self.err(s, "loop pattern over a Vec must be a name")
        lv = s.pat.name
        bound_in = let_names(body, set()) | {lv}
        state = []
        for r in self.assigned_x(body):
            if r in env and r not in bound_in and r not in state:
                state.append(r)
        if any(n in state for n in self.mut_params):
            self.mut_self = True
        if lv in names_used(rest, set()) and lv in env:
            self.err(s, "the loop variable %s shadows a name used after the loop" % lv)
        used = names_used(body, set())
        for n in env:
            if n in used and env[n] is not None and env[n][0] == "alias" and n != lv and n not in bound_in:
                self.err(s, "the `&mut` alias %s is used inside a loop" % n)
        free = [n for n in env if n in used and n not in state and n != lv and not (env[n] is not None and env[n][0] == "alias")]
        st_ty = [env[n] for n in state]
        def tup(names):
            return "tt" if not names else "(" + ", ".join(mangle(n) for n in names) + ")" if len(names) > 1 else mangle(names[0])
        s_cty = "unit" if not state else cty(("tup", tuple(st_ty))) if len(state) > 1 else cty(st_ty[0])
        plain_ret = Translator.plain(K.ret_ty) if self.x else K.ret_ty
        if self.x and self.mut_name in state and self.mut_self_sig and has_kind(body, "return"):
            self.err(s, "`return` inside a loop that assigns to self, in a `&mut self` method")
        r_cty = cty(plain_ret) if plain_ret is not None else "unit"
        benv = dict(env); benv[lv] = vty
        kl = KLoop(self, K.ret_ty, state)
        b = self.stmts(body, benv, kl)
        lname = "g_%s_loop%d" % (self.tr.uname(self.fn).replace("::", "_"), nloop)
        params = (" (fuel__ : nat)" if self.fueled else "") + "".join(" (%s : %s)" % (mangle(n), cty(env[n])) for n in free)
        unpack = "" if not state else ("let %s%s := st__ in " % ("'" if len(state) > 1 else "", tup(state)))
        self.aux.append("(* body of loop %d of %s (line %d): loop variable %s, state %s *)\nDefinition %s%s (%s : %s) (st__ : %s) : M (ctrl %s %s) :=\n  %s%s.\n"
                        % (nloop, self.fn.name, s.line, lv, tup(state), lname, params, mangle(lv), cty(vty), s_cty, r_cty, s_cty, unpack, self.toM(b)))
        bodyf = "(fun %s st__ => %s%s%s %s st__)" % (mangle(lv), lname, " fuel__" if self.fueled else "", "".join(" " + mangle(n) for n in free), mangle(lv))
        after_env = dict(env)
        after = self.stmts(rest, after_env, K)
        if self.sets and isinstance(K, (KValue, KJoin)) and not has_kind(body, "return"):
            # a loop inside a block used as a value, without `return` in its body: it never leaves through Brk
            brk = Val("M", "(k_panic ops)", None)
        elif self.x and K.ret_ty is not None and K.ret_ty[0] == "res":
            brk = K.ret(Val("M", "(k_ret ops v__)", K.ret_ty), env)
        else:
            brk = K.ret(Val("P", "v__", K.ret_ty), env)
        ty = after.ty if after.ty is not None else brk.ty
        def build(ns):
            if s.hi is not None:
                loop = "(k_for ops %s %s %s %s)" % (ns[0], ns[1], bodyf, tup(state))
            else:
                loop = "(k_foreach ops %s %s %s)" % (ns[0], bodyf, tup(state))
            cont_pat = "_" if not state else tup(state) if len(state) == 1 else "(" + tup(state)[1:]
            if len(state) > 1:
                cont = "(let '%s := st__ in %s)" % (tup(state), self.toM(after))
                cont_pat = "st__"
            else:
                cont = self.toM(after)
            return Val("M", "(k_bind ops %s (fun r__ => match r__ with Brk v__ => %s | Cont %s => %s end))" % (loop, self.toM(brk), cont_pat, cont), ty)
        return self.seq([lo, hi] if s.hi is not None else [coll], build)

class KNoLoop:
    def brk(self, env):
        raise Unsupported("%s: in fn %s: `break` outside a `loop` / `while` (a `for` loop is left by `return` only)" % (self.g.fn.fname, self.g.fn.name))
    def cont(self, env):
        raise Unsupported("%s: in fn %s: `continue` outside a `loop` / `while`" % (self.g.fn.fname, self.g.fn.name))

class KValue(KNoLoop):
    """continuation of a block used as a value inside an expression: no `return` through it"""
    def __init__(self, g, expect):
        self.g, self.val_ty, self.ret_ty = g, expect, None
    def end(self, v, env):
        if v is None:
            return Val("P", "tt", ("unit",))
        return v
    def ret(self, v, env):
        if v is not None and v.fail:
            return Val("M", v.term, None, fail=True)     # `return Err(..)`: the error leaves the function from anywhere
        raise Unsupported("%s: in fn %s: `return` inside a block that is used as a value" % (self.g.fn.fname, self.g.fn.name))

class KWhile:
    """end of the body of a `loop` / `while`: the next round; `break` leaves the loop, `return v` the function"""
    def __init__(self, g, ret_ty, state):
        self.g, self.val_ty, self.ret_ty, self.state = g, ("unit",), ret_ty, state
    def st(self):
        return "tt" if not self.state else "(" + ", ".join(mangle(n) for n in self.state) + ")" if len(self.state) > 1 else mangle(self.state[0])
    def end(self, v, env):
        t = "(k_ret ops (Cont (Cont %s)))" % self.st()
        if v is not None and v.kind == "M":
            if v.ty is None:
                return Val("M", v.term, ("ctrl",), fail=v.fail)
            return Val("M", "(k_bind ops %s (fun _ => %s))" % (v.term, t), ("ctrl",))
        return Val("M", t, ("ctrl",))
    def cont(self, env):
        return Val("M", "(k_ret ops (Cont (Cont %s)))" % self.st(), ("ctrl",))
    def brk(self, env):
        return Val("M", "(k_ret ops (Cont (Brk %s)))" % self.st(), ("ctrl",))
    def ret(self, v, env):
        if v is None:
            return Val("M", "(k_ret ops (Brk tt))", ("ctrl",))
        if v.fail:
            return Val("M", v.term, ("ctrl",), fail=True)
        return self.g.seq([Val(v.kind, v.term, Translator.plain(v.ty))], lambda ns: Val("M", "(k_ret ops (Brk %s))" % ns[0], ("ctrl",)))

class KJoin(KNoLoop):
    """end of a branch of an `if` / `match` that is joined with the rest of its block: the locals the branches assign"""
    def __init__(self, g, state):
        self.g, self.val_ty, self.ret_ty, self.state = g, None, None, state
    def end(self, v, env):
        st = "tt" if not self.state else "(" + ", ".join(mangle(n) for n in self.state) + ")" if len(self.state) > 1 else mangle(self.state[0])
        ty = ("unit",) if not self.state else ("tup", tuple(env[n] for n in self.state)) if len(self.state) > 1 else env[self.state[0]]
        if v is not None and v.kind == "M":
            if v.ty is None:
                return v
            return Val("M", "(k_bind ops %s (fun _ => (k_ret ops %s)))" % (v.term, st), ty)
        return Val("P", st, ty)
    def ret(self, v, env):
        raise Unsupported("%s: in fn %s: `return` inside a branch that is joined" % (self.g.fn.fname, self.g.fn.name))

class KFn(KNoLoop):
    """end of the function body"""
    def __init__(self, g, ret_ty):
        self.g, self.val_ty, self.ret_ty = g, ret_ty, ret_ty
    def end(self, v, env):
        if v is None:
            if self.g.mut_self_sig:
                return Val("P", mangle(self.g.mut_name), env[self.g.mut_name])
            return Val("P", "tt", ("unit",))
        if getattr(self.g, "mut_res_sig", False):
            # `&mut self` .. -> Result<()>: `Ok(())` gives the new self, an error stays the error
            mn = self.g.mut_name
            if v.fail:
                return Val("M", v.term, ("res", env[mn]), fail=True)
            return Val("M", "(k_bind ops %s (fun _ => (k_ret ops %s)))" % (self.g.toM(v), mangle(mn)), ("res", env[mn]))
        return v
    def ret(self, v, env):
        return self.end(v, env)

class KLoop(KNoLoop):
    """end of a loop body: go on with the state; `return v` leaves the function"""
    def __init__(self, g, ret_ty, state):
        self.g, self.val_ty, self.ret_ty, self.state = g, ("unit",), ret_ty, state
    def end(self, v, env):
        st = "tt" if not self.state else "(" + ", ".join(mangle(n) for n in self.state) + ")" if len(self.state) > 1 else mangle(self.state[0])
        t = "(k_ret ops (Cont %s))" % st
        if v is not None and v.kind == "M":
            return Val("M", "(k_bind ops %s (fun _ => %s))" % (v.term, t), ("ctrl",))
        return Val("M", t, ("ctrl",))
    def ret(self, v, env):
        if v is None:
            return Val("M", "(k_ret ops (Brk tt))", ("ctrl",))
        if v.fail:
            return Val("M", v.term, ("ctrl",), fail=True)
        return self.g.seq([Val(v.kind, v.term, Translator.plain(v.ty))], lambda ns: Val("M", "(k_ret ops (Brk %s))" % ns[0], ("ctrl",)))

class Translator:
    def __init__(self, unit=None, used_prev=None):
        self.unit = unit or UNITS[0]
        FMT_ARGS_COUNT[0] = bool(self.unit.get("strings"))
        self.x = bool(self.unit.get("xops"))
        self.w = World(self.unit)
        for rel in self.unit["files"]:
            if isinstance(rel, tuple):
                self.w.load(rel[0], only=rel[1])
            else:
                self.w.load(rel)
        if self.unit.get("prelude", "").strip():
            self.w.load("<prelude of unit %s>" % self.unit["name"], text=self.unit["prelude"])
        self.w.finish()
        self.done = {}        # fn name -> text
        self.order = []
        self.inprogress = set()
        self.structs_used = set()
        self.sigs = {}
        self.used_prev = used_prev       # (struct, field) pairs used in the previous pass; None in the first pass
        self.used = {(sn, fn) for sn, fns in self.unit.get("keep_fields", {}).items() for fn in fns}    # fields kept although no translated function reads them
        self.kept_cache = {}
        self.variant_cache = {}
        self.derived_cache = {}
        self.enum_eq = set()
        self.foreign_used = set()
        self.ops_used = {}               # Section variable of set / map operations -> its type
        self.externs_used = {}           # ext name -> Gallina type
        self.file_list = [r[0] if isinstance(r, tuple) else r for r in self.unit["files"]]

    def uname(self, f):
        u = getattr(f, "uname", f.name)
        if u is None:
            raise Unsupported("%s is defined more than once and the definitions cannot be told apart" % f.name)
        return u

    def use_field(self, sn, fn):
        self.used.add((sn, fn))

    def resolved_fields(self, sn):
        out, allres = [], True
        for fn, ft in self.w.structs[sn]:
            try:
                out.append((fn, self.w.resolve(ft, self.w.struct_ctx(sn))))
            except Unsupported:
                allres = False
        return out, allres

    def kept_fields(self, sn):
        """the fields of the generated record: all of them when every field type is in the subset, else the fields used"""
        if sn in self.kept_cache:
            return self.kept_cache[sn]
        fields, allres = self.resolved_fields(sn)
        if not allres and self.used_prev is not None:
            fields = [(fn, rt) for fn, rt in fields if (sn, fn) in self.used_prev]
        self.kept_cache[sn] = fields
        return fields

    def literal_fields(self, sn):
        """a struct literal sets every field: those with a type in the subset count as used"""
        fields, allres = self.resolved_fields(sn)
        for fn, _ in fields:
            self.use_field(sn, fn)
        return self.kept_fields(sn)

    def variant(self, en, vn, node, g):
        """(kind, [payload types, `opaque` for those outside the subset], [field names]) of the variant en::vn"""
        key = (en, vn)
        if key not in self.variant_cache:
            hit = [v for v in self.w.enums[en] if v[0] == vn]
            if not hit:
                raise Unsupported("%s:%d: in fn %s: the enum %s has no variant %s" % (g.fn.fname, getattr(node, "line", 0), g.fn.name, en, vn))
            _, kind, fields = hit[0]
            ctx = self.w.struct_ctx(en)
            if kind == "struct":
                tys = [self.w.resolve_or_opaque(t, ctx) for _, t in fields]
                names = [f for f, _ in fields]
            else:
                tys = [self.w.resolve_or_opaque(t, ctx) for t in fields]
                names = []
            self.variant_cache[key] = (kind, tys, names)
        kind, tys, names = self.variant_cache[key]
        for t in tys:
            g.note_struct(t)
        return kind, tys, names

    def derived(self, tname, method):
        """the function item that `#[derive(Add, ..)]` (derive_more) stands for: the field-wise operation"""
        key = (tname, method)
        if key in self.derived_cache:
            return self.derived_cache[key]
        f = None
        meta = self.w.meta.get(tname)
        if meta is not None and tname in self.w.structs and method in DERIVABLE and any(d in meta["derives"] for d in DERIVABLE[method]):
            op = {"add": "+", "sub": "-"}[method]
            gens = meta["generics"]
            gl = "<%s>" % ", ".join(gens) if gens else ""
            ty = tname + gl
            if meta["tuple"]:
                body = "%s(%s)" % (tname, ", ".join("self.%s %s rhs.%s" % (fn, op, fn) for fn, _ in self.w.structs[tname]))
            else:
                body = "%s { %s }" % (tname, ", ".join("%s: self.%s %s rhs.%s" % (fn, fn, op, fn) for fn, _ in self.w.structs[tname]))
            text = "impl%s std::ops::%s<%s> for %s { fn %s(self, rhs: %s) -> %s { %s } }" % (
                gl, method.capitalize(), ty, ty, method, ty, ty, body)
            out = parse_source(text, "<derive(%s) of %s, %s>" % (DERIVABLE[method][0], tname, self.w.struct_src[tname]))
            f = out["allfns"][0]
            f.clash = False
            f.uname = f.name
            self.w.overloads.setdefault(f.name, []).append(f)
            self.w.fns[f.name] = f
        self.derived_cache[key] = f
        return f

    def use_extern(self, f, g, name=None):
        name = name or "ext_" + self.uname(f).replace("::", "_")
        if name not in self.externs_used:
            sig = self.signature(f)
            for _, pt in sig["params"]:
                g.note_struct(pt)
            g.note_struct(sig["ret"])
            self.externs_used[name] = (" -> ".join([cty(pt) for _, pt in sig["params"]] + ["M %s" % cty(self.plain(sig["ret"]))]),
                                       "%s:%d  fn %s" % (f.fname, f.line, f.name))
    def use_read(self, key, ty, g):
        name = "ext_read_%s" % key
        g.note_struct(ty)
        if name not in self.externs_used:
            self.externs_used[name] = ("kptr -> M %s" % cty(ty), "Ptr<%s>::read" % key)
    @staticmethod
    def plain(ty):
        return ty[1] if ty is not None and ty[0] == "res" else ty

    def signature(self, f):
        key = getattr(f, "uname", None) or f.name if not self.x else id(f)
        if key in self.sigs:
            return self.sigs[key]
        where = "%s:%d: fn %s" % (f.fname, f.line, f.name)
        if f.ret is None:
            raise Unsupported("%s: return type outside the subset (%s)" % (where, f.ret_bad))
        ctx = self.w.fn_ctx(f) if self.x else Ctx(f.self_ty)
        ps, mut_self, mut_others = [], False, []
        monadic = self_name(f.self_ty) in self.unit.get("self_state", ())
        for pn, pt, m in f.params:
            if pn is None:
                raise Unsupported("%s: a parameter type is outside the subset" % where)
            if pn == "self" and monadic:
                continue        # the receiver is the state of the effect M
            if pn == "self":
                if f.self_ty is None:
                    raise Unsupported("%s: self outside an impl" % where)
                try:
                    ps.append(("self", self.w.resolve(f.self_ty, ctx) if self.x else self.w.resolve(f.self_ty)))
                except Unsupported as ex:
                    raise Unsupported("%s: the type of self: %s" % (where, ex))
                mut_self = m
            else:
                try:
                    ps.append((pn, self.w.resolve(pt, ctx)))
                except Unsupported as ex:
                    raise Unsupported("%s: parameter %s: %s" % (where, pn, ex))
                if m and self.unit.get("sets"):
                    mut_others.append(pn)
        try:
            ret = self.w.resolve(f.ret, ctx)
        except Unsupported as ex:
            raise Unsupported("%s: return type: %s" % (where, ex))
        mut_res = False
        mut_name = "self" if mut_self else None
        if self.unit.get("sets") and ret in (("unit",), ("res", ("unit",))):
            # third part of the subset: ONE parameter borrowed `&mut` (self or another) that the body changes, in a function
            # returning `()` / `Result<()>`: the function returns its new value.  A declaration without body changes it.
            cands = (["self"] if mut_self else []) + mut_others
            if f.body_range is not None:
                body_ = parse_fn_body(f)
                self.sig_busy = getattr(self, "sig_busy", set()) | {id(f)}
                try:
                    cands = [c for c in cands if self.mutates(body_, c, f)]
                finally:
                    self.sig_busy.discard(id(f))
            if len(cands) > 1:
                raise Unsupported("%s: the body changes more than one `&mut` parameter (%s)" % (where, ", ".join(cands)))
            mut_name = cands[0] if cands else None
            mut_self = mut_name is not None
            if mut_self:
                pty = dict(ps)[mut_name]
                if ret == ("unit",):
                    ret = pty
                else:
                    ret, mut_res = ("res", pty), True
        elif mut_self:
            if self.x and ret == ("res", ("unit",)) and f.body_range is not None and mutates_self(parse_fn_body(f), self.unit.get("skip_recv", ())):
                # `&mut self` with `Result<()>` that assigns to self: the new self, or the error
                ret = ("res", ps[0][1])
                mut_res = True
            elif ret != ("unit",):
                if not self.x:
                    raise Unsupported("%s: a `&mut self` method that also returns a value" % where)
                mut_self = False          # read as `&self`: the body is checked not to assign to self
            else:
                ret = ps[0][1]
        sig = {"params": ps, "ret": ret, "mut_self": mut_self, "mut_res": mut_res, "mut_name": mut_name if mut_self else None,
               "mut_params": (["self"] if any(pn == "self" and m for pn, _, m in f.params) else []) + mut_others}
        self.sigs[key] = sig
        return sig

    def really_mut(self, f2, me):
        """does the `&mut self` method f2 change its receiver (as far as its own signature tells)?"""
        if f2 is me:
            return False            # the function itself: no evidence either way
        if id(f2) in getattr(self, "sig_busy", ()):
            return True
        try:
            return self.signature(f2).get("mut_name") == "self"
        except Unsupported:
            return True

    def mutates(self, node, name, me=None):
        """does this body change the `&mut` parameter `name`: an assignment / Vec or set mutator rooted at it, `&mut name..`,
        a call of a method on `name` itself, or `name` passed to a parameter declared `&mut`"""
        skip = self.unit.get("skip_recv", ())
        def walk(n):
            if isinstance(n, N):
                if n.kind == "assign" and n.lhs.kind != "tuple" and lvalue_root(n.lhs) == name:
                    return True
                if n.kind == "mcall" and n.name in MUTATORS + ("remove", "copy_from_slice") and lvalue_root(n.recv) == name and place_text(n.recv) not in skip:
                    return True
                if n.kind == "mcall" and n.recv.kind == "path" and n.recv.segs == [name]:
                    # a method called on the borrowed value itself: a `&mut self` method of the sources changes it
                    for lst in self.w.overloads.values():
                        for f2 in lst:
                            if f2.short == n.name and any(pn == "self" and m for pn, _, m in f2.params) and self.really_mut(f2, me):
                                return True
                if n.kind == "refmut" and lvalue_root(n) == name:
                    return True
                if n.kind == "call":
                    for i, a in enumerate(n.args):
                        a0 = a.e if a.kind == "refmut" else a
                        if a0.kind == "path" and a0.segs == [name]:
                            qn = "::".join(n.path[-2:])
                            for f2 in self.w.overloads.get(qn, []):
                                ps2 = [q for q in f2.params if q[0] != "self"]
                                if i < len(ps2) and ps2[i][2]:
                                    return True
                return any(walk(v) for k, v in n.__dict__.items() if k not in ("kind", "line"))
            if isinstance(n, (list, tuple)):
                return any(walk(x) for x in n)
            return False
        return walk(node)

    def needs_fuel(self, f):
        """does f contain a `while` / `loop`, or call (as far as names tell) a function of the unit that does?"""
        if not self.unit.get("join") or self.unit.get("fuel_ext"):
            return False
        memo = self.__dict__.setdefault("fuel_memo", {})
        key = id(f)
        if key in memo:
            return memo[key] is True
        memo[key] = "busy"
        res = False
        if f.body_range is not None and f.name not in self.unit.get("extern", ()):
            try:
                body = parse_fn_body(f)
            except Unsupported:
                body = None
            if body is not None:
                if has_kind(body, "while"):
                    res = True
                else:
                    own = self_name(f.self_ty)
                    def walk(n):
                        if isinstance(n, N):
                            if n.kind == "mcall":
                                cands = []
                                if n.recv.kind == "path" and n.recv.segs == ["self"] and own is not None:
                                    g = self.w.fns.get("%s::%s" % (own, n.name))
                                    cands = [g] if g is not None else []
                                else:
                                    cands = [g for lst in self.w.overloads.values() for g in lst if g.short == n.name]
                                if any(g is not f and self.needs_fuel(g) for g in cands):
                                    return True
                            if n.kind == "call" and len(n.path) <= 2:
                                qn = "::".join([own if (x == "Self" and own) else x for x in n.path])
                                g = self.w.fns.get(qn)
                                if g is not None and g is not f and self.needs_fuel(g):
                                    return True
                            return any(walk(v) for k, v in n.__dict__.items() if k not in ("kind", "line"))
                        if isinstance(n, (list, tuple)):
                            return any(walk(x) for x in n)
                        return False
                    res = walk(body)
        memo[key] = res
        return res

    def need(self, qn):
        if qn not in self.w.fns:
            raise Unsupported("function %s not found in %s" % (qn, ", ".join(self.file_list)))
        f = self.w.fns[qn]
        if f.clash:
            raise Unsupported("%s is defined more than once in the translated files" % qn)
        self.need_fn(f)

    def need_fn(self, f):
        qn = self.uname(f)
        if qn in self.done:
            return
        if qn in self.inprogress:
            raise Unsupported("recursion through %s is outside the subset" % qn)
        if f.body_range is None:
            raise Unsupported("%s has no body (it can only be external)" % qn)
        self.inprogress.add(qn)
        sig = self.signature(f)
        g = FnGen(self, f)
        g.mut_self_sig = sig["mut_self"]
        g.mut_res_sig = sig.get("mut_res", False)
        g.mut_name = sig.get("mut_name") or "self"
        g.mut_params = sig.get("mut_params") or ["self"]
        body = parse_fn_body(f)
        if g.sets:
            rename_shadowing_loops(body, {pn for pn, _ in sig["params"]}, [0])
        env = {}
        for pn, pt in sig["params"]:
            env[pn] = pt
            g.note_struct(pt)
        g.note_struct(sig["ret"])
        ret_ty = sig["ret"] if not sig["mut_self"] else ("unit",) if not sig.get("mut_res") else ("res", ("unit",))
        K = KFn(g, None if ret_ty == ("unit",) else ret_ty)
        K.ret_ty = (sig["ret"] if not sig.get("mut_res") else ret_ty) if sig["mut_self"] else (None if ret_ty == ("unit",) else ret_ty)
        K.val_ty = None if ret_ty == ("unit",) else ret_ty
        stm = body.stmts
        if ret_ty == ("unit",):
            stm = g.as_stmts(list(stm))
        v = g.stmts(stm, env, K)
        real_ret = sig["ret"]
        if self.x:
            try:
                unify(v.ty, real_ret)
            except ValueError:
                raise Unsupported("%s:%d: fn %s: body of type %r, declared %r" % (f.fname, f.line, f.name, v.ty, real_ret))
            if g.mut_self and not sig["mut_self"] and g.mon_name is None:
                raise Unsupported("%s:%d: fn %s: a `&mut self` method that returns a value and assigns to self" % (f.fname, f.line, f.name))
        elif v.ty is not None and v.ty != real_ret and not (real_ret == ("unit",) and v.ty == ("unit",)):
            raise Unsupported("%s:%d: fn %s: body of type %r, declared %r" % (f.fname, f.line, f.name, v.ty, real_ret))
        name = "g_" + qn.replace("::", "_")
        params = " (fuel__ : nat)" if self.needs_fuel(f) else ""
        params += "".join(" (ext_%s : %s)" % (x.replace("::", "_"), self.extern_ty(x)) for x in g.externs)
        params += "".join(" (%s : %s)" % (mangle(pn), cty(pt)) for pn, pt in sig["params"])
        if g.used_fuel and not self.needs_fuel(f):
            raise Unsupported("%s:%d: fn %s calls a function that runs on fuel, which the analysis of its body did not see" % (f.fname, f.line, f.name))
        txt = "".join(g.aux)
        txt += "(* %s:%d  fn %s *)\nDefinition %s%s : M %s :=\n  %s.\n" % (f.fname, f.line, qn, name, params, cty(self.plain(real_ret)), g.toM(v))
        self.structs_used |= g.structs_used
        self.inprogress.discard(qn)
        self.done[qn] = txt
        self.order.append(qn)

    def extern_ty(self, qn):
        sig = self.signature(self.w.fns[qn])
        return "(" + " -> ".join([cty(pt) for _, pt in sig["params"]] + ["M %s" % cty(sig["ret"])]) + ")"

    def type_defs(self):
        """records and inductive types, each after the types it mentions"""
        out, seen = [], set()
        self.type_args = []          # (type name, [Arguments lines]) in emission order, repeated after the Section
        self.fdeps = {}              # type name -> Section variables it mentions (they become leading parameters after the Section)
        self.ops_declared = []       # the Section variables of set / map operations, in the order declared
        cur = []
        def visit_ty(t):
            if t is None:
                return
            if t[0] in ("struct", "enum"):
                visit(t[1])
                if cur:
                    self.fdeps[cur[-1]] |= self.fdeps.get(t[1], set())
            elif t[0] == "foreign":
                self.foreign_used.add(t[1])
                if cur:
                    self.fdeps[cur[-1]].add("T_" + t[1])
            elif t[0] in ("arr", "vec", "opt", "res"):
                visit_ty(t[1])
            elif t[0] == "tup":
                for x in t[1]:
                    visit_ty(x)
            elif t[0] in ("hset", "hmap"):
                # the operations of the sets / maps of this key type: a Section variable, declared after the types it mentions
                var = opsvar(t)
                if var not in self.fdeps:
                    self.fdeps[var] = set()
                    cur.append(var)
                    for x in t[1:]:
                        visit_ty(x)
                    cur.pop()
                    if " F I)" in " ".join(cty(x) for x in t[1:]):
                        # the variable's type mentions a generated type at the Section's own F and I: after the Section
                        # they are two more leading parameters of everything that mentions the variable
                        self.fdeps[var] |= {"F", "I"}
                    self.ops_declared.append(var)
                    if t[0] == "hset":
                        out.append("(* HashSet<%s> *)\nVariable %s : ksetops %s.\n" % (type_key(t[1]), var, cty(t[1])))
                    else:
                        out.append("(* HashMap<%s, %s> *)\nVariable %s : kmapops %s %s.\n" % (type_key(t[1]), type_key(t[2]), var, cty(t[1]), cty(t[2])))
                if cur:
                    self.fdeps[cur[-1]] |= self.fdeps[var] | {var}
        def visit(name):
            if name in seen:
                return
            seen.add(name)
            self.fdeps[name] = set()
            cur.append(name)
            try:
                visit1(name)
            finally:
                cur.pop()
        def visit1(name):
            if name in self.w.enums:
                lines, args = [], []
                for vn, kind, fields in self.w.enums[name]:
                    ctx = self.w.struct_ctx(name)
                    tys = [self.w.resolve_or_opaque(t if kind == "tuple" else t[1], ctx) for t in fields]
                    for t in tys:
                        visit_ty(t)
                    lines.append("| g%s_%s%s" % (name, vn, "".join(" (_ : %s)" % cty(t) for t in tys)))
                    args.append("Arguments g%s_%s {F I}%s.\n" % (name, vn, " _" * len(tys)))
                self.type_args.append((name, list(args)))
                txt = "(* %s  enum %s *)\nInductive g%s (F I : Type) : Type :=\n%s.\n%s" % (
                    self.w.struct_src[name], name, name, "\n".join(lines), "".join(args))
                if name in self.enum_eq:
                    vs = [v[0] for v in self.w.enums[name]]
                    txt += "Definition g%s_eqb {F I : Type} (a b : g%s F I) : bool :=\n  match a, b with %s | _, _ => false end.\n" % (
                        name, name, " | ".join("g%s_%s, g%s_%s" % (name, v, name, v) for v in vs) + " => true") if len(vs) > 1 else \
                        "Definition g%s_eqb {F I : Type} (a b : g%s F I) : bool := true.\n" % (name, name)
                out.append(txt)
                return
            if self.x:
                fields = self.kept_fields(name)
                dropped = [fn for fn, _ in self.w.structs[name] if fn not in dict(fields)]
            else:
                fields, dropped = [], []
                for fn, ft in self.w.structs[name]:
                    try:
                        rt = self.w.resolve(ft)
                    except Unsupported as ex:
                        raise Unsupported("struct %s (%s), field %s: %s" % (name, self.w.struct_src[name], fn, ex))
                    fields.append((fn, rt))
            for fn, rt in fields:
                visit_ty(rt)
            note = "" if not dropped else "  -- without the fields %s (not used by the translated functions, or of a type outside the subset)" % ", ".join(dropped)
            if not fields:
                out.append("(* %s  struct %s%s *)\nInductive g%s (F I : Type) : Type := mk_g%s.\nArguments mk_g%s {F I}.\n" % (self.w.struct_src[name], name, note, name, name, name))
                self.type_args.append((name, ["Arguments mk_g%s {F I}.\n" % name]))
                return
            self.type_args.append((name, ["Arguments mk_g%s {F I}%s.\n" % (name, " _" * len(fields))] +
                                   ["Arguments g%s_%s {F I} _.\n" % (name, fn) for fn, _ in fields]))
            out.append("(* %s  struct %s%s *)\nRecord g%s (F I : Type) : Type := mk_g%s { %s }.\nArguments mk_g%s {F I}%s.\n%s" % (
                self.w.struct_src[name], name, note, name, name, "; ".join("g%s_%s : %s" % (name, fn, cty(rt)) for fn, rt in fields),
                name, " _" * len(fields), "".join("Arguments g%s_%s {F I} _.\n" % (name, fn) for fn, _ in fields)))
        for s_ in sorted(self.structs_used):
            visit(s_)
        for var in sorted(self.ops_used):
            visit_ty(self.ops_used[var])
        return out
    struct_defs = type_defs

def run_unit(unit):
    """-> (ok, message, failed list) for one unit"""
    failed = []
    used_prev = None
    for npass in range(4):
        try:
            tr = Translator(unit, used_prev)
        except Unsupported as ex:
            return False, "translate_rust_kernels: cannot read the sources:\n  %s" % ex, []
        failed = []
        for fam, qn in unit["targets"]:
            try:
                tr.need(qn)
            except Unsupported as ex:
                # the function (or one it calls) is left out of the generated file: the tie lemmas about it no longer build
                tr.inprogress.clear()
                failed.append((fam, qn, str(ex)))
        if not unit.get("xops") or (used_prev is not None and tr.used == used_prev):
            break
        used_prev = set(tr.used)      # the records of this unit depend on the fields used: once more with the set known
    out_path = os.path.join(COQ_DIR, "Gen", unit["out"])
    try:
        structs = tr.type_defs()
    except Unsupported as ex:
        return False, "translate_rust_kernels: %s" % ex, failed
    srcs = ", ".join("/repo/" + f for f in tr.file_list if f not in unit.get("alias_only", ()))
    if not unit.get("xops"):
        L = ["(** GENERATED by tools/translate_rust_kernels.py from %s -- do not edit." % srcs,
             "    One definition per Rust function (g_<Type>_<fn>), one record per struct (g<Struct>), parametric in the",
             "    primitive operations [kops M F I] of Base/KernelOps.v. The translation scheme is described there and in",
             "    the translator. Tied to the hand-written models in Geom/KernelsTie*_proofs.v, Properties/Kernels.v. *)",
             "From Coq Require Import ZArith Bool List.",
             "From L21 Require Import Base.KernelOps.",
             "",
             ]
        L += structs
        L += ["Section Kernels.",
              "Context {M : Type -> Type} {F I : Type} (ops : kops M F I).",
              ""]
    else:
        L = ["(** GENERATED by tools/translate_rust_kernels.py (unit %s) from %s -- do not edit." % (unit["name"], srcs),
             "    One definition per Rust function (g_<Type>_<fn>), one record per struct (g<Struct>), one inductive type per",
             "    enum (g<Enum>), parametric in the primitive operations [kxops M F I] of Base/KernelOpsX.v; functions kept",
             "    external and types of other crates are the Section variables ext_* / T_*. The translation scheme is",
             "    described in Base/KernelOps.v, Base/KernelOpsX.v and in the translator. *)",
             "From Coq Require Import ZArith Bool List.",
             "From L21 Require Import Base.KernelOps Base.KernelOpsX%s%s." % (" Base.KernelOpsS" if unit.get("sets") else "", " Base.KernelOpsL" if unit.get("join") else ""),
             "",
             ]
        if getattr(tr, "need_string", False):
            L.insert(-2, "From Coq Require Import String.")
        L += ["Section Kernels.",
              "Context {M : Type -> Type} {F I : Type} (xops : kxops M F I).",
              "Notation ops := (kx_base xops).",
              ""]
        if tr.foreign_used:
            L += ["(* types of other crates / types the models keep abstract *)",
                  "Variables %s : Type." % " ".join("T_" + n for n in sorted(tr.foreign_used)), ""]
        L += structs
        if getattr(tr, "self_getput", None) is not None:
            st_ = cty(tr.self_getput)
            L += ["(* monadic self: the state of the effect, read and written *)", "Variable ext_self_get : M %s." % st_, "Variable ext_self_put : %s -> M unit." % st_, ""]
        if getattr(tr, "need_build_err", False):
            L += ["(* derive_builder: `build()` with a required field not set *)", "Variable k_build_err : forall A : Type, M A.", ""]
        if getattr(tr, "need_nofuel", False):
            L += ["(* what running out of fuel in a `loop` / `while` is *)", "Variable k_nofuel : forall A : Type, M A.", ""]
        for name in sorted(tr.externs_used):
            ty, src = tr.externs_used[name]
            L += ["(* %s *)" % src, "Variable %s : %s." % (name, ty)]
        if tr.externs_used:
            L.append("")
    for qn in tr.order:
        L.append(tr.done[qn])
    L += ["End Kernels.", ""]
    if unit.get("xops"):
        L.append("(* the implicit arguments of the constructors and projections, as inside the Section *)")
        var_order = ["F", "I"] + ["T_" + n for n in sorted(tr.foreign_used)] + tr.ops_declared
        for name, lines in tr.type_args:
            pre = "".join(" " + v for v in var_order[2:] if v in tr.fdeps.get(name, ()))
            if "F" in tr.fdeps.get(name, ()):
                pre = " {F I}" + pre        # the Section's own F and I (implicit, as for the functions)
            for l in lines:
                L.append(l.strip().replace(" {F I}", pre + " {F I}", 1))
        L.append("")
    txt = "\n".join(L)
    old = open(out_path).read() if os.path.exists(out_path) else None
    n = "%d functions, %d %s" % (len(tr.order), len(structs), "structs" if not unit.get("xops") else "types")
    if old != txt:
        os.makedirs(os.path.dirname(out_path), exist_ok=True)
        with open(out_path, "w") as f:
            f.write(txt)
        msg = "rewrote %s (%s)" % (out_path, n)
    else:
        msg = "unchanged %s (%s)" % (out_path, n)
    return True, msg, failed

def main():
    """-> (ok, message).  ok is False when a function of the FIRST unit (families transform / contains / raw / gds, whose
    checks all run this script through vlib.run_translators) no longer translates.  A failure in a later unit is printed the
    same way (`FAILED family=.. fn=..`) but does not make the script fail: it belongs to the one property whose check calls
    kernel_tie_leg for that family (tools/props/kernelcommon.py reads the FAILED lines), not to every property that
    regenerates the kernels."""
    only = os.environ.get("KERNEL_UNITS")
    msgs, failed, ok = [], [], True
    for unit in UNITS:
        if only and unit["name"] not in only.split(","):
            continue
        u_ok, msg, fl = run_unit(unit)
        if not unit.get("xops"):
            ok = ok and u_ok and not fl
        elif not u_ok:
            fl = fl + [(fam, "*", msg) for fam in sorted({f for f, _ in unit["targets"]})]
        msgs.append(msg)
        failed += fl
    msg = "\n".join(msgs)
    if failed:
        msg += "\ntranslate_rust_kernels: these functions no longer fit the supported subset of Rust (tools/rustsubset.py) and are left out:\n"
        msg += "\n".join("FAILED family=%s fn=%s: %s" % (a, b, " ".join(c.split())) for a, b, c in failed)
    return ok, msg

if __name__ == "__main__":
    ok, msg = main()
    print(msg)
    sys.exit(0 if ok else 1)
