#!/usr/bin/env python3
"""Prints the prompt given to an independent sub-agent that seeds a property-breaking change.
Only the property text and a scratch worktree path go in: nothing from /verif."""
import json, sys
pid, wt = sys.argv[1], sys.argv[2]
n = sys.argv[3] if len(sys.argv) > 3 else "3"
for l in open("/verif/properties.jsonl"):
    d = json.loads(l)
    if d["id"] == pid:
        break
print(f"""You are testing how well a software project's safeguards catch subtle regressions. You have your own scratch git worktree of the Rust workspace dan-fritchman/Layout21 at {wt} (a clean checkout; work ONLY inside it; never touch /repo or /verif or any other directory; do not read anything under /verif). The sandbox has no network; use `cargo ... --offline` and set `CARGO_TARGET_DIR={wt}/target` for every cargo command.

Here is a semantic property the code base is supposed to satisfy:

Title: {d['title']}
Statement: {d['statement']}
Quantified over: {d['quantifier']['text']}
Code involved: {', '.join(d['anchors']['files'])}

Your task: produce {n} DIFFERENT, independent changes to the source code (each a separate small patch against the clean checkout) such that each one
  (a) BREAKS the property above on some input/schedule/history,
  (b) still compiles, and still passes the ENTIRE existing test suite (`cargo test --workspace --offline --no-fail-fast`; the single test `gds21::tests::it_has_gds_properties` fails already on the clean checkout and is to be ignored),
  (c) looks like a plausible regression a real developer could introduce (a refactor gone slightly wrong, an off-by-one, a wrong constant, a swapped argument, a lost field, an edge case dropped, two cooperating sites that each look fine alone), NOT sabotage that ordinary use would expose at once,
  (d) needs something SPECIFIC to manifest: an unusual input, a particular combination of optional fields, a multi-step sequence of operations, a boundary value - say exactly what.
Prefer changes in different mechanisms/files of the property's code. Do not edit tests, golden files or Cargo manifests (unless the property is about a Cargo feature). Do not add new dependencies.

For each change i = 1..{n} deliver, under {wt}/OUT/m<i>/ :
  - patch.diff   : `git diff` of the change against the clean checkout (only source files), applying cleanly with `git apply` at the repository root;
  - a demonstration: either demo.rs (a self-contained Rust test file, with a comment at the top saying into which crate's `tests/` directory it must be copied and how to run it, e.g. `cargo test -p gds21 --test demo --offline`) or another small program, that FAILS (panics / assertion fails) with the change applied and PASSES without it; it must use only the public API of the crates;
  - meta.json    : {{"property": "{pid}", "summary": one sentence on what was changed, "needs": what specific input/sequence is needed for the breakage to manifest, "files": [changed files], "ran": [the exact commands you ran and their outcome: full test suite with the change (pass), demo with the change (fail), demo without the change (pass)]}}.
You must actually run those three things for every change and report truthfully; discard any change for which they do not come out as required and replace it with another. Between changes, restore the checkout with `git checkout -- . && git clean -fdq -e OUT -e target`. When finished, leave the checkout clean (restored), keep only OUT/ (and target/), and reply with a short summary of the {n} changes.""")
