#!/usr/bin/env python3
"""Writes MANIFEST.json from the table below (kept in one place so it stays valid)."""
import json, os
V = os.path.dirname(os.path.dirname(os.path.abspath(__file__)))
ALL = ["C%02d" % i for i in range(1, 21)]
CHECKS = {
 "C15": dict(
   text="Theorems over a Z-level model of GdsFloat64::encode/decode (Properties/C15.v): encode equals the reference normalised excess-64 base-16 encoding for every in-range double and every libm estimate, decode(encode x)=x, decode is the correctly rounded (nearest-even, proved unique) double for every word, re-encoding <=53-bit normalised reals is the identity, decode.encode.decode=decode for all words. Model tied to the code by a correspondence run on ~11k (quick) / ~1.2M (thorough) bit patterns incl. all doubles within a few ulp of every power of two in range.",
   note="Trusted: Coq kernel; model-to-code correspondence (harness + generators); float ops other than `as f64` and round() assumed exact (powers of two) and validated by the correspondence; libm log2 not modelled (theorem holds for every estimate); NaN/inf outside the model.",
   technique="Coq proof over executable model + differential correspondence (vm_compute) against gds21::GdsFloat64",
   design="5/C15"),
 "C18": dict(
   text="Layer 1 (proof): a generic Coq model of serde-derive's Serialize/Deserialize over type shapes, with theorem C18_de_ser (every shape-consistent type round-trips every well-typed value whose always-skipped fields hold their defaults); the shapes of GdsLibrary and LefLibrary are REGENERATED from gds21/src/data.rs and lef21/src/data.rs on every run by a translator, and shape_ok / the exact list of lossy fields are re-proved by vm_compute, so an inconsistent #[serde] attribute breaks a proof obligation. GDSII: unconditional round trip (no lossy field). LEF: round trip outside two known-finding classes. Layers 2-3 (JSON/YAML text, float printing, dedent): correspondence only (partial): generic values generated from the shapes go through the real types and the library's own to_string/from_str and save/open in both formats, compared for equality and bit identity, plus GDS bytes before/after.",
   note="Trusted: Coq kernel; the translator (regex reader of Rust declarations); serde_derive behaves as modelled (validated: serde_json::to_value of every generated value equals the model's ser, and de of it returns the value); serde_json/serde_yaml/yaml-rust/textwrap/ryu text layers are NOT modelled (tested only).",
   technique="Coq proof over translator-generated serde shapes + differential correspondence through serde_json/serde_yaml",
   design="5/C18"),
 "C20": dict(
   text="Theorem: iterating a hash map's entries through a sort by key gives the same sequence for every iteration order the map may have (any permutation of entries with distinct keys), and without the sort it does not (refuted with a two-layer witness) -- this is the mechanism of the repaired exporters. The tie to the code is a differential run: generated hierarchical GDSII streams and multi-layer LEF texts are pushed through every conversion chain (GDSII->raw, LEF->raw, raw->GDSII, raw->protobuf->raw, raw->LEF) repeatedly inside one process and in several separate processes (fresh hash seeds), printed order-preservingly and compared. Partial: hash seeds are sampled, not quantified.",
   note="Trusted: Coq kernel; the order-preserving printer in harness/src/bin/c20.rs; sampling of per-process hash seeds (4 processes quick, 16 thorough; 4-8 repetitions per process). Conversions whose code iterates no hash map are deterministic by construction; that they iterate none is supported by the repeated runs only. Gridded-layout compilation is covered through C08's harness in thorough tier only when available.",
   technique="Coq theorem on order-oracle independence of sorted iteration + repeated-run differential check across processes",
   design="5/C20"),
 "C17": dict(
   text="Coq theorems over executable models of all dependency orderers (Properties/C17.v), for every graph, listing order and sharing structure, with no size bound. The generic helper (seen+pending sets; PlaceOrder, CellOrder): a returned order is duplicate-free, contains exactly the reachable items and lists every item after all its dependencies; with recursion depth |nodes|+1 it never recurses further, and returns the error iff a cycle (incl. self-reference) is reachable; it never panics. The three hand-rolled orderers (raw DepOrder, tetris DepOrder, GdsDepOrder): the code as found is proved correct on every acyclic closed graph and proved to VIOLATE the cycle clause (unbounded recursion on every cyclic graph, panic on a dangling GDSII name); the repaired code (pending set + error return, fix commits e6fd6b8, 062c6ff, af0d42c) is modelled and proved to satisfy the property in full (C17_repaired_total). Tied to the code by a correspondence run comparing exact output orders through seven entry points: exhaustive over all digraphs with self-loops on <=3 (quick) / <=4 nodes in every listing order plus all loop-free digraphs on 5 nodes (thorough); random DAGs, cyclic and arbitrary digraphs up to 60 nodes; raw/tetris cell libraries, GDSII struct libraries and relative-placement forests up to 300 nodes; cyclic and dangling inputs one per process. The oracle (topo_okb, cycle_walkb) is proved sound, and topo_okb complete, w.r.t. the Prop specification.",
   note="Trusted: Coq kernel (no axioms); harness and generators; `process` modelled as 'push every dependency'; hash sets as lists (never iterated); fuel = recursion depth, 'OutOfFuel for all fuel' corresponds to stack overflow (observed as process abort); GDS struct names assumed distinct; lock poisoning not modelled; the choice of as-found vs repaired model is made by a textual check for a `pending` field in the three orderer structs.",
   technique="Coq proof over executable DFS models + differential correspondence (vm_compute) against seven entry points",
   design="5/C17"),
}
REASON_PENDING = "not yet built in this round; planned in DESIGN.md section 5 (Coq model + correspondence)"
def main():
    checks = []
    for pid in ALL:
        if pid in CHECKS:
            c = CHECKS[pid]
            checks.append({
              "property_id": pid,
              "quick_cmd": "python3 tools/verif.py %s --tier quick" % pid,
              "thorough_cmd": "python3 tools/verif.py %s --tier thorough" % pid,
              "evidence_file": "evidence/%s.json" % pid,
              "replay_cmd_template": "python3 tools/verif.py %s --replay {path}" % pid,
              "engine": "coq-model-correspondence",
              "level_claimed": {"category": "proof", "text": c["text"], "design_ref": "DESIGN.md section " + c["design"]},
              "level_note": c["note"],
              "technique": c["technique"],
            })
    m = {
      "version": 1,
      "setup_cmd": "sh tools/setup.sh",
      "hooks": {"guard": "--cfg layout21_verif", "enable": "RUSTFLAGS=\"--cfg layout21_verif\" cargo build --offline (in /verif/harness, path dependencies on /repo)",
                "baseline_off_cmd": "cd /repo && cargo nextest run --workspace --no-fail-fast --offline || cargo test --workspace --no-fail-fast --offline",
                "source_commits": [], "add_only": True},
      "engines": [{"name": "coq-model-correspondence", "path": "tools/verif.py",
                   "serves_properties": sorted(CHECKS), "kind_free_text": "Coq 8.16 theorems over executable Gallina models (coq/), models evaluated by vm_compute on generated cases and compared with the Rust implementation run by harness/ (l21h)"}],
      "checks": checks,
      "notes": "See DESIGN.md. Fix commits in /repo are listed in known_findings.json (kind=fixed).",
      "not_applicable": [{"property_id": p, "reason": REASON_PENDING} for p in ALL if p not in CHECKS],
    }
    json.dump(m, open(os.path.join(V, "MANIFEST.json"), "w"), indent=1)
if __name__ == "__main__":
    main()
