#!/usr/bin/env python3
"""Writes MANIFEST.json from the table below (kept in one place so it stays valid)."""
import json, os
V = os.path.dirname(os.path.dirname(os.path.abspath(__file__)))
ALL = ["C%02d" % i for i in range(1, 21)]
CHECKS = {
 "C15": dict(
   text="Theorems over a Z-level model of GdsFloat64::encode/decode (Properties/C15.v): encode equals the reference normalised excess-64 base-16 encoding for every in-range double and every libm estimate, decode(encode x)=x, decode is the correctly rounded (nearest-even, proved unique) double for every word, re-encoding <=53-bit normalised reals is the identity, decode.encode.decode=decode for all words. Model tied to the code by a correspondence run on ~11k (quick) / ~1.2M (thorough) bit patterns incl. all doubles within a few ulp of every power of two in range.",
   note="Trusted: Coq kernel; model-to-code correspondence (harness + generators); float ops other than `as f64` and round() assumed exact (powers of two) and validated by the correspondence; libm log2 not modelled (theorem holds for every estimate); NaN/inf outside the model.",
   technique="Coq proof over executable model + differential correspondence (vm_compute) against gds21::GdsFloat64",
   design="5/C15"),
 "C18": dict(
   text="Layer 1 (proof): a generic Coq model of serde-derive's Serialize/Deserialize over type shapes, with theorem C18_de_ser (every shape-consistent type round-trips every well-typed value whose always-skipped fields hold their defaults); the shapes of GdsLibrary and LefLibrary are REGENERATED from gds21/src/data.rs and lef21/src/data.rs on every run by a translator, and shape_ok / the exact list of lossy fields are re-proved by vm_compute, so an inconsistent #[serde] attribute breaks a proof obligation. GDSII: unconditional round trip (no lossy field). LEF: round trip outside two known-finding classes. Layers 2-3 (JSON/YAML text, float printing, dedent): correspondence only (partial): generic values generated from the shapes go through the real types and the library's own to_string/from_str and save/open in both formats, compared for equality and bit identity, plus GDS bytes before/after.",
   note="Trusted: Coq kernel; the translator (regex reader of Rust declarations); serde_derive behaves as modelled (validated: serde_json::to_value of every generated value equals the model's ser, and de of it returns the value); serde_json/serde_yaml/yaml-rust/textwrap/ryu text layers are NOT modelled (tested only).",
   technique="Coq proof over translator-generated serde shapes + differential correspondence through serde_json/serde_yaml",
   design="5/C18"),
 "C20": dict(
   text="Theorem: iterating a hash map's entries through a sort by key gives the same sequence for every iteration order the map may have (any permutation of entries with distinct keys), and without the sort it does not (refuted with a two-layer witness) -- this is the mechanism of the repaired exporters. The tie to the code is a differential run: generated hierarchical GDSII streams and multi-layer LEF texts are pushed through every conversion chain (GDSII->raw, LEF->raw, raw->GDSII, raw->protobuf->raw, raw->LEF) repeatedly inside one process and in several separate processes (fresh hash seeds), printed order-preservingly and compared. Partial: hash seeds are sampled, not quantified.",
   note="Trusted: Coq kernel; the order-preserving printer in harness/src/bin/c20.rs; sampling of per-process hash seeds (4 processes quick, 16 thorough; 4-8 repetitions per process). Conversions whose code iterates no hash map are deterministic by construction; that they iterate none is supported by the repeated runs only. Gridded-layout compilation is covered through C08's harness in thorough tier only when available.",
   technique="Coq theorem on order-oracle independence of sorted iteration + repeated-run differential check across processes",
   design="5/C20"),
 "C17": dict(
   text="Coq theorems over executable models of all dependency orderers (Properties/C17.v), for every graph, listing order and sharing structure, with no size bound. The generic helper (seen+pending sets; PlaceOrder, CellOrder): a returned order is duplicate-free, contains exactly the reachable items and lists every item after all its dependencies; with recursion depth |nodes|+1 it never recurses further, and returns the error iff a cycle (incl. self-reference) is reachable; it never panics. The three hand-rolled orderers (raw DepOrder, tetris DepOrder, GdsDepOrder): the code as found is proved correct on every acyclic closed graph and proved to VIOLATE the cycle clause (unbounded recursion on every cyclic graph, panic on a dangling GDSII name); the repaired code (pending set + error return, fix commits e6fd6b8, 062c6ff, af0d42c) is modelled and proved to satisfy the property in full (C17_repaired_total). Tied to the code by a correspondence run comparing exact output orders through seven entry points: exhaustive over all digraphs with self-loops on <=3 (quick) / <=4 nodes in every listing order plus all loop-free digraphs on 5 nodes (thorough); random DAGs, cyclic and arbitrary digraphs up to 60 nodes; raw/tetris cell libraries, GDSII struct libraries and relative-placement forests up to 300 nodes; cyclic and dangling inputs one per process. The oracle (topo_okb, cycle_walkb) is proved sound, and topo_okb complete, w.r.t. the Prop specification.",
   note="Trusted: Coq kernel (no axioms); harness and generators; `process` modelled as 'push every dependency'; hash sets as lists (never iterated); fuel = recursion depth, 'OutOfFuel for all fuel' corresponds to stack overflow (observed as process abort); GDS struct names assumed distinct; lock poisoning not modelled; the choice of as-found vs repaired model is made by a textual check for a `pending` field in the three orderer structs.",
   technique="Coq proof over executable DFS models + differential correspondence (vm_compute) against seven entry points",
   design="5/C17"),
 "C08": dict(
   text="Coq theorems over an executable model of the gridded-layout compiler (Tetris/Stack.v, Tracks.v, Compile.v; Properties/C08.v): cut_or_block keeps a track tiled and changes only the requested interval, returns Ok exactly when the interval lies inside one wire/rail segment and never panics; set_net nets the first covering segment only; any Ok sequence of cut/block/net operations keeps the track tiled with exactly the requested cuts and blockages; the net phase changes no geometry and nets only pieces covering an assignment crossing; for every period index, flipped or not and any Repeat structure, to_layer_period draws each signal track at the specification's position track_pos_m (defined from the flattened pattern, independent of the code's cursors), and the repaired center/span return that position; per-track realisation (rectangles + requested cuts + blockages tile [0,span] at the track's start/width); compile never panics on drawable stacks. PARTIAL: the whole-cell statement C08_full (composition of the per-track theorems through export_period/layer/layout, vias centred and of the stack's size, rails named) is a Definition, not a theorem; it is evaluated by the spec oracle (CompileSpec.v: tiles, centred, via_okb, nets_okb) on the implementation's output for every generated case. The code as found is proved to violate the property (five closed witnesses: flip, reflected blockage, usize underflow, metals bounds, odd sizes), fixed by five commits. Correspondence: a family of stacks (repo sample stack, offsets, overlaps, Repeat patterns, flip on/off, symmetric/asymmetric, odd sizes) x generated cells with cuts, assignments and reflected instances through Library::to_raw, shape lists compared in order.",
   note="Trusted: Coq kernel (no axioms); harness and generators; DbUnits/usize as Z with explicit panic branches; slot-map/Ptr identity as indices; raw layer numbers as opaque tags; the composition gap named above; HashMap-free code paths assumed (supported by C20 runs).",
   technique="Coq proof over executable compiler model (per-track and track-position theorems) + spec-oracle differential correspondence against Library::to_raw",
   design="5/C08"),
 "C09": dict(
   text="Coq theorems over an executable model of the relative placer (Tetris/Placer.v; Properties/C09.v, 21 theorems): for all 4 sides x orthogonal alignments x 3 separation kinds x 4 reflections of the placed instance x every reference box, a resolved location makes the instance's reflection-aware bounding box touch the reference box on the requested side at the requested separation, flush on the alignment edge; after placement every instance of every cell is absolute; each location is a function of the relation graph alone, hence independent of the listing order (success and failure alike); arrays expand to count copies at successive multiples of the pitch, mirrored by the array's reflection, nested arrays by induction; cyclic and self-referential relations return the error and the orderer is total. Unimplemented corners of the code (Center/Ports alignment, relative-to-array) are proved to be panics of the model and reported as outside the property's space. Correspondence: random placement programs (chains/trees depth 1-8, shuffled listings, every option combination, cycles of length 1-4, arrays) through Placer::place, ~15k calls quick / ~116k thorough, exact locations compared.",
   note="Trusted: Coq kernel (no axioms); harness and generators; PrimPitches keep their direction tag (mixed-tag addition = panic, as the code); placeables are indices (pointer identity); locks not modelled (single thread; SizeOf(the cell being placed) self-deadlock is reported, outside the space).",
   technique="Coq proof over executable placer model + differential correspondence (vm_compute) against Placer::place",
   design="5/C09"),
 "C12": dict(
   text="Coq theorems over a model of Transform parametric in ANY commutative ring and ANY (cos, sin) pair (Geom/Transform.v; Properties/C12.v): cascade applies the child first, is associative with identity as unit; translate/rotate/reflect_vert are the maps they name (rotation counter-clockwise); the repaired from_instance equals cascade(translate, cascade(rotate, reflect-or-identity)) for every location, flag and angle, and the code as found does not (refuted: reflected, 90 degrees, (3,1) at (10,20) -> (9,23) vs (11,23); correct iff not reflected or sin = 0); flatten of a hierarchy of any depth emits every element moved by the composition of the placements on its path, innermost first; reflected placements have determinant -1, determinants multiply, signed areas scale by the determinant; at right angles the exact map is the specification's quarter-turn map. Float level (partial): the rounding behaviour of f64 matrices built from libm sin/cos of 0, +-90, +-180, +-270, 360 (table regenerated from the implementation on every run) is in the executable model and compared with the implementation on every chain of depth 1-2 over the 8 orientations x a 9x9 grid (exhaustive), sampled depth 3-8, extreme coordinates up to 2^40, and general angles against an exact rational reference at half-unit tolerance; no unbounded float-exactness theorem.",
   note="Trusted: Coq kernel (no axioms); translator translate_libm.py + harness for the libm table; f64 multiply/add/round modelled exactly over dyadic Z pairs (validated by the correspondence); Layout::flatten modelled on a tree of layouts (shared cells unfolded).",
   technique="Coq proof over ring-parametric transform model + differential correspondence (exact and float-level model, vm_compute) against Transform/Point::transform/Layout::flatten",
   design="5/C12"),
 "C16": dict(
   text="Coq theorems over an executable model of LefImporter (Raw/RawLef.v with rust_decimal operations by contract in RawLefDec.v; Properties/C16.v): import_dist returns Ok n exactly when value*10000 is the integer n (and fits the coordinate type), the fractional-part error exactly when it is not an integer (never a rounded value), independently of the scale the decimal was written with; import_point keeps x and y distinct; a macro becomes one abstract with outline [(0,0),(W,0),(W,H),(0,H)], one shape per LEF rectangle/polygon/path in order on the layer of that name, ports merged by pin, obstructions as blockages; the library theorem lifts this to every macro; off-grid coordinates and sizes are rejected; the checker used by the correspondence is proved sound. The code as found is refuted (y := x; mantissa ignores the scale), repaired by two fix commits. Correspondence: generated macros with coordinates of 0-6+ decimals, negatives, trailing zeros, off-grid values, 96-bit boundaries, several layers, through LefImporter::import (~2k quick).",
   note="Trusted: Coq kernel (no axioms); rust_decimal from_str/mul/fract/trunc/mantissa modelled by contract within 96-bit range (validated by the correspondence incl. the multiplication-overflow panic); harness builds LefLibrary values through the public builders; layer-number allocation (nextnum) modelled.",
   technique="Coq proof over executable importer model + differential correspondence (vm_compute) against LefImporter::import",
   design="5/C16"),
 "C19": dict(
   text="Coq theorems over an executable model of the tetris protobuf exporter and importer (Tetris/TProto.v, cell order = the C17 model; Properties/C19.v): for every placed, acyclic, well-formed library export succeeds, import of the exported message succeeds and the result is equivalent (library name; per cell name, abstract, layout name, metals, outline vectors, assignments, cuts, and per instance name, location, both reflections and the image of its target cell); exported messages list cells dependencies-first; every malformed message (undefined cell, missing outline/location, relative place, invalid outline) gives Err, and import/export never panic or run out of fuel outside the reported abstract-port todo!(); cyclic libraries export to Err; Outline::from_prim_pitches accepts exactly the valid outlines. Findings outside the property's list are proved as model facts (abstract ports panic on import/export; duplicate cell names misresolve). Correspondence: generated placed libraries (cell DAGs, shuffled listings, big values) and messages with one sub-message removed or corrupted at a time through ProtoExporter::export / ProtoLibImporter::import.",
   note="Trusted: Coq kernel (no axioms); harness and generators; prost structs as plain records; Ptr identity as indices; usize/i64 conversions with explicit error branches.",
   technique="Coq proof over executable exporter/importer model + differential correspondence (vm_compute) against conv::proto",
   design="5/C19"),
}
REASON_PENDING = "not yet built in this round; planned in DESIGN.md section 5 (Coq model + correspondence)"
def main():
    checks = []
    for pid in ALL:
        if pid in CHECKS:
            c = CHECKS[pid]
            checks.append({
              "property_id": pid,
              "quick_cmd": "python3 tools/verif.py %s --tier quick" % pid,
              "thorough_cmd": "python3 tools/verif.py %s --tier thorough" % pid,
              "evidence_file": "evidence/%s.json" % pid,
              "replay_cmd_template": "python3 tools/verif.py %s --replay {path}" % pid,
              "engine": "coq-model-correspondence",
              "level_claimed": {"category": "proof", "text": c["text"], "design_ref": "DESIGN.md section " + c["design"]},
              "level_note": c["note"],
              "technique": c["technique"],
            })
    m = {
      "version": 1,
      "setup_cmd": "sh tools/setup.sh",
      "hooks": {"guard": "--cfg layout21_verif", "enable": "RUSTFLAGS=\"--cfg layout21_verif\" cargo build --offline (in /verif/harness, path dependencies on /repo)",
                "baseline_off_cmd": "cd /repo && cargo nextest run --workspace --no-fail-fast --offline || cargo test --workspace --no-fail-fast --offline",
                "source_commits": [], "add_only": True},
      "engines": [{"name": "coq-model-correspondence", "path": "tools/verif.py",
                   "serves_properties": sorted(CHECKS), "kind_free_text": "Coq 8.16 theorems over executable Gallina models (coq/), models evaluated by vm_compute on generated cases and compared with the Rust implementation run by harness/ (l21h)"}],
      "checks": checks,
      "notes": "See DESIGN.md. Fix commits in /repo are listed in known_findings.json (kind=fixed).",
      "not_applicable": [{"property_id": p, "reason": REASON_PENDING} for p in ALL if p not in CHECKS],
    }
    json.dump(m, open(os.path.join(V, "MANIFEST.json"), "w"), indent=1)
if __name__ == "__main__":
    main()
