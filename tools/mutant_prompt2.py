#!/usr/bin/env python3
"""Second-wave prompt: like mutant_prompt.py, plus the list of changes already tried (so that new ones differ) and a push
towards rarer triggers. Still nothing from /verif's machinery goes in."""
import json, glob, os, subprocess, sys
pid, wt = sys.argv[1], sys.argv[2]
n = sys.argv[3] if len(sys.argv) > 3 else "3"
base = subprocess.run([sys.executable, os.path.join(os.path.dirname(os.path.abspath(__file__)), "mutant_prompt.py"), pid, wt, n],
                      stdout=subprocess.PIPE, text=True).stdout
base = base.replace("git clean -fdq -e OUT -e target", "git clean -fdq -e OUT -e target -e TASK.md")
prev = []
for d in sorted(glob.glob("/verif/seeded/%s-*" % pid)):
    m = json.load(open(os.path.join(d, "meta.json")))
    prev.append("- " + m.get("summary", "")[:400])
extra = """

ADDITIONAL INSTRUCTIONS FOR THIS ROUND. Other engineers have already tried the following changes for this property; yours must be
DIFFERENT in mechanism (not the same site with another constant):
%s
Aim for changes that are HARDER to notice: ones that need a rarer combination (two optional features together, a boundary value of a
size or count, a particular order of statements/records/cells, a value that is legal but unusual, an error path taken only after a
successful prefix, state left over from an earlier element in the same file), or two cooperating edits in different functions that each
look harmless alone. Name the deliverable directories m7, m8, m9 (not m1..m6).
""" % ("\n".join(prev) if prev else "(none)")
print(base.replace("m<i>", "m<i+6>").rstrip() + extra)
