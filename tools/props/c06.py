"""C06: importing GDSII into the raw model preserves the flattened geometry.
Model Raw/RawGds.v (importer) + Raw/RawFlatten.v (Layout::flatten over Geom/Transform.v), specification
Raw/RawGdsSpec.v (gds_flatten by GDSII semantics, labels), checker Raw/RawGdsCheck.v, theorems Properties/C06.v;
correspondence against layout21raw::Library::from_gds + Layout::flatten (harness bin c06, op "import").

A case is {"fam": family, "lib": GDSII library (gdscommon shape, strings as bytes), "noflat": bool}.
The model variant (Raw/RawGds.v [cfg]) is read from the SOURCE of the importer on every run ([model_cfg])."""
import json, os, re, copy, time
from vlib import *
from props.kernelcommon import kernel_tie_leg
from props import gdscommon as G

HDR = ("From Coq Require Import ZArith List String Bool.\nImport ListNotations.\n"
       "From L21 Require Import Base.Hex Gds.GdsData Raw.RawData Raw.RawGds Raw.RawGdsCheck.\n"
       "Open Scope Z_scope.\n")
MODEL_TARGETS = ["Raw/RawGdsCheck.vo"]
PROOF_FILES = ["Raw/RawGds_proofs.v", "Raw/RawGdsSafe_proofs.v", "Raw/RawGdsNets_proofs.v"]

# ------------------------------------------------------------------ which code does the tree carry
CFG_FIELDS = ["dims", "cap", "deg", "lattice", "emptyxy", "mag", "width", "contains", "pico", "pathdiag"]
MODEL_CFG_PROBLEMS = []

def _fn_body(src, name):
    m = re.search(r"\n    (?:pub )?fn %s\b" % re.escape(name), src)
    if not m:
        return None
    i = m.start()
    m2 = re.search(r"\n    (?:///|(?:pub )?fn |\}\n)", src[i + 5:])
    return src[i:i + 5 + m2.start()] if m2 else src[i:]

def model_cfg(contains_fixed):
    """One flag per proposed repair, True = the source has the repaired form.  Each flag is decided by a textual marker
    in the body of the function concerned; when neither the defective nor the repaired form is found the tie between
    model and source is broken (reported, all flags of that function then default to the repaired form).
    VERIF_C06_CFG="(mkcfg ...)"|cfg_orig|cfg_fixed overrides (experiments only)."""
    o = os.environ.get("VERIF_C06_CFG")
    if o:
        return o, {}
    src = open(os.path.join(REPO, "layout21raw/src/gds.rs"), encoding="utf8").read()
    arr = _fn_body(src, "import_instance_array") or ""
    bnd = _fn_body(src, "import_boundary") or ""
    pth = _fn_body(src, "import_path") or ""
    ins = _fn_body(src, "import_instance") or ""
    flags = {}
    def flag(name, defective, repaired, what):
        if defective and not repaired:
            flags[name] = False
        elif repaired and not defective:
            flags[name] = True
        else:
            MODEL_CFG_PROBLEMS.append("cannot tell which code the tree has for: " + what)
            flags[name] = True
    flag("dims", "aref.cols <= 0" not in arr and "/ Int::from(aref.cols)" in arr or ("aref.cols <= 0" not in arr and "/ cols" in arr),
         "aref.cols <= 0" in arr and "aref.rows <= 0" in arr, "import_instance_array: rows/columns <= 0")
    flag("cap", "(aref.rows * aref.cols) as usize" in arr, "usize::try_from(aref.rows)" in arr and "usize::try_from(aref.cols)" in arr,
         "import_instance_array: capacity product")
    flag("deg", "let a = a.to_radians();" in arr and "angle = Some(a);" in arr,
         "let a = a.to_radians();" not in arr and ("angle = Some(a);" in arr or "angle = strans.angle;" in arr),
         "import_instance_array: unit of the instance angle")
    flag("lattice", "return Ok(None);" in arr and "xstep" in arr, "col_step" in arr and "row_step" in arr and "return Ok(None);" not in arr,
         "import_instance_array: lattice vectors")
    flag("emptyxy", "is_empty()" not in bnd and "is_empty()" not in pth and "pts[0] != *pts.last().unwrap()" in bnd,
         "is_empty()" in bnd and "is_empty()" in pth, "import_boundary / import_path: empty coordinate list")
    flag("mag", "strans.mag" not in ins and "strans.abs_mag || strans.abs_angle" in ins, "strans.mag" in ins, "import_instance: magnification")
    flag("width", "w as usize" in pth, "unsigned_abs()" in pth and "w as usize" not in pth, "import_path: negative width")
    flags["contains"] = bool(contains_fixed)
    uni = _fn_body(src, "import_units") or ""
    geo = open(os.path.join(REPO, "layout21raw/src/geom.rs"), encoding="utf8").read()
    i = geo.find("impl ShapeTrait for Path")
    pc = geo[i:geo.find("fn to_poly", i)] if i >= 0 else ""
    flag("pathdiag", 'unimplemented!("Unsupported Non-Manhattan Path")' in pc, "isqrt()" in pc and "unimplemented!" not in pc, "Path::contains: non-Manhattan segments")
    flag("pico", "Units::Pico" not in uni and "Units::Angstrom" in uni, "Units::Pico" in uni, "import_units: picometre database unit")
    return "(mkcfg %s)" % " ".join("true" if flags[f] else "false" for f in CFG_FIELDS), flags

# ------------------------------------------------------------------ building GDSII libraries
def B(s):
    return s if isinstance(s, bytes) else s.encode("utf8")
ZD = [0] * 12
def common():
    return {"elflags": None, "plex": None, "props": []}
def e_boundary(layer, dt, xy):
    return dict(k="boundary", layer=layer, datatype=dt, xy=list(xy), **common())
def e_box(layer, bt, xy):
    return dict(k="box", layer=layer, boxtype=bt, xy=list(xy), **common())
def e_path(layer, dt, xy, width, path_type=None):
    return dict(k="path", layer=layer, datatype=dt, xy=list(xy), width=width, path_type=path_type, begin_extn=None, end_extn=None, **common())
def e_text(s, layer, tt, xy):
    return dict(k="text", string=B(s), layer=layer, texttype=tt, xy=list(xy), presentation=None, path_type=None, width=None, strans=None, **common())
def e_node(layer, nt, xy):
    return dict(k="node", layer=layer, nodetype=nt, xy=list(xy), **common())
def strans(r=False, angle=None, mag=None, am=False, aa=False):
    return {"r": r, "am": am, "aa": aa, "mag": None if mag is None else (mag if isinstance(mag, int) else G.f2b(mag)),
            "angle": None if angle is None else (angle if isinstance(angle, int) else G.f2b(float(angle)))}
def e_sref(name, xy, st=None):
    return dict(k="sref", name=B(name), xy=list(xy), strans=st, **common())
def e_aref(name, xy, cols, rows, st=None):
    return dict(k="aref", name=B(name), xy=list(xy), cols=cols, rows=rows, strans=st, **common())
def mkstruct(name, elems):
    return {"name": B(name), "dates": ZD, "elems": elems}
def mklib(structs, units=None, name=b"lib"):
    return {"name": B(name), "version": 3, "dates": ZD, "units": units or [G.f2b(1e-3), G.f2b(1e-9)], "structs": structs}

def rect_xy(x0, y0, x1, y1, ccw=True, start=0):
    pts = [(x0, y0), (x1, y0), (x1, y1), (x0, y1)]
    if not ccw:
        pts = [pts[0], pts[3], pts[2], pts[1]]
    pts = pts[start:] + pts[:start]
    pts.append(pts[0])
    return [c for p in pts for c in p]
def closed(pts):
    pts = list(pts) + [pts[0]]
    return [c for p in pts for c in p]
def flatxy(pts):
    return [c for p in pts for c in p]

POLY_TEMPLATES = [
    [(0, 0), (6, 0), (6, 2), (2, 2), (2, 6), (0, 6)],                       # L
    [(0, 0), (8, 0), (8, 6), (6, 6), (6, 2), (2, 2), (2, 6), (0, 6)],       # U
    [(0, 0), (6, 0), (3, 5)],                                               # triangle
    [(0, 0), (1, 3), (1, 0)],                                               # thin triangle (C13 witness)
    [(0, 0), (5, 0), (5, 4), (0, 4), (1, 2)],                               # pentagon with a pass-through vertex (C13 witness)
    [(2, 0), (4, 0), (6, 2), (6, 4), (4, 6), (2, 6), (0, 4), (0, 2)],       # octagon
    [(0, 0), (4, 0), (6, 3), (2, 3)],                                       # parallelogram (4 vertices, not a rectangle)
    [(0, 0), (6, 0), (6, 5), (2, 5)],                                       # right trapezoid: three axis-parallel sides
    [(0, 0), (0, 6), (3, 6), (3, 2)],                                       # right trapezoid, the other way round
    [(0, 0), (6, 0), (6, 6), (4, 6), (4, 4), (2, 4), (2, 6), (0, 6), (0, 3)],  # notch + collinear vertex
    [(0, 0), (4, 0), (4, 4), (0, 4), (0, 2)],                               # square with a collinear vertex (5 vertices)
    [(0, 0), (3, 0), (3, 1), (1, 1), (1, 2), (3, 2), (3, 3), (0, 3)],       # C
]
LAYERS = [1, 1, 2, 2, 5, 0, 255, -1, 32767]
DTYPES = [0, 0, 1, 2, 20, -3]
NAMES = ["a", "VDD", "vss", "Net1", "OUT", "clk", "A", "b_2"]
ANGLES = [None, 0.0, 90.0, 180.0, 270.0, -90.0, 360.0, -180.0, -270.0]

class Gen:
    def __init__(self, rng):
        self.rng = rng
    def layer(self):
        return self.rng.choice(LAYERS)
    def dtype(self):
        return self.rng.choice(DTYPES)
    def coord(self, span=60):
        r = self.rng
        return r.randrange(-span, span + 1)
    def rect(self, layer=None):
        r = self.rng
        x0, y0 = self.coord(), self.coord()
        w, h = r.choice([0, 1, 2, 5, 9, 20]), r.choice([0, 1, 2, 4, 8, 30]) if r.random() < 0.15 else r.randrange(1, 30)
        if r.random() < 0.85:
            w, h = max(w, 1), max(h, 1)
        return e_boundary(self.layer() if layer is None else layer, self.dtype(), rect_xy(x0, y0, x0 + w, y0 + h, r.random() < 0.5, r.randrange(4)))
    def box(self, layer=None):
        r = self.rng
        x0, y0 = self.coord(), self.coord()
        w, h = r.randrange(1, 25), r.randrange(1, 25)
        return e_box(self.layer() if layer is None else layer, self.dtype(), rect_xy(x0, y0, x0 + w, y0 + h, r.random() < 0.5, r.randrange(4)))
    def polygon(self, layer=None):
        r = self.rng
        t = r.choice(POLY_TEMPLATES)
        k = r.choice([1, 1, 2, 3])
        ox, oy = self.coord(), self.coord()
        pts = [(ox + k * x, oy + k * y) for x, y in t]
        if r.random() < 0.5:
            pts = [pts[0]] + pts[:0:-1]
        s = r.randrange(len(pts))
        pts = pts[s:] + pts[:s]
        if r.random() < 0.3:
            pts = [(y, x) for x, y in pts]
        return e_boundary(self.layer() if layer is None else layer, self.dtype(), closed(pts))
    def path(self, layer=None, manhattan=True):
        r = self.rng
        n = r.choice([2, 2, 3, 4, 5])
        x, y = self.coord(), self.coord()
        pts = [(x, y)]
        horiz = r.random() < 0.5
        for _ in range(n - 1):
            d = r.choice([-1, 1]) * r.randrange(1, 25)
            if manhattan:
                if horiz:
                    x += d
                else:
                    y += d
                horiz = not horiz
            else:
                x += d
                y += r.choice([-1, 1]) * r.randrange(1, 25)
            pts.append((x, y))
        return e_path(self.layer() if layer is None else layer, self.dtype(), flatxy(pts), r.choice([0, 1, 2, 3, 4, 6, 7, 10]),
                      r.choice([None, None, 0, 1, 2]))
    def shape(self, layer=None):
        c = self.rng.random()
        if c < 0.35:
            return self.rect(layer)
        if c < 0.6:
            return self.polygon(layer)
        if c < 0.8:
            return self.path(layer)
        return self.box(layer)
    def label_for(self, e):
        """a text near / in / on the shape e"""
        r = self.rng
        xy = e["xy"]
        pts = [(xy[2 * i], xy[2 * i + 1]) for i in range(len(xy) // 2)]
        xs, ys = [p[0] for p in pts], [p[1] for p in pts]
        c = r.random()
        if c < 0.3:       # a vertex
            q = r.choice(pts)
        elif c < 0.45:    # midpoint of an edge (on the boundary for polygons, on the centre line for paths)
            i = r.randrange(len(pts) - 1)
            q = ((pts[i][0] + pts[i + 1][0]) // 2, (pts[i][1] + pts[i + 1][1]) // 2)
        elif c < 0.85:    # somewhere in the bounding box, one unit beyond it included
            q = (r.randrange(min(xs) - 1, max(xs) + 2), r.randrange(min(ys) - 1, max(ys) + 2))
        else:             # far away
            q = (max(xs) + r.randrange(5, 40), max(ys) + r.randrange(5, 40))
        layer = e["layer"] if r.random() < 0.85 else r.choice(LAYERS)
        return e_text(r.choice(NAMES), layer, self.dtype(), q)
    def strans(self, right=True):
        r = self.rng
        a = r.choice(ANGLES)
        refl = r.random() < 0.5
        mag = 1.0 if r.random() < 0.1 else None
        if a is None and not refl and mag is None and r.random() < 0.7:
            return None
        return strans(refl, a, mag)
    def sref(self, target):
        return e_sref(target, (self.coord(300), self.coord(300)), self.strans())
    def aref(self, target, dims=None, convention=None):
        """convention: 'axis' = XY axis-parallel whatever the angle; 'gds' = lattice vectors rotated with the angle (what GDSII
        writers produce); 'skew' = any two vectors"""
        r = self.rng
        cols, rows = dims or (r.choice([1, 2, 3, 3, 2, 7]), r.choice([1, 2, 2, 3, 7]))
        st = self.strans()
        px_, py_ = r.choice([0, 1, 5, 10, 33, -7]), r.choice([0, 1, 4, 12, 40, -9])
        convention = convention or r.choice(["axis", "axis", "gds", "gds", "skew"])
        cv, rv = (px_, 0), (0, py_)
        if convention == "gds" and st is not None and st["angle"] is not None:
            a = {G.f2b(0.0): 0, G.f2b(90.0): 1, G.f2b(180.0): 2, G.f2b(270.0): 3, G.f2b(-90.0): 3, G.f2b(360.0): 0, G.f2b(-180.0): 2, G.f2b(-270.0): 1}.get(st["angle"], 0)
            for _ in range(a):
                cv, rv = (-cv[1], cv[0]), (-rv[1], rv[0])
        elif convention == "skew":
            cv, rv = (px_, r.choice([0, 2, -3])), (r.choice([0, 1, -4]), py_)
        x0, y0 = self.coord(300), self.coord(300)
        xy = [x0, y0, x0 + cols * cv[0], y0 + cols * cv[1], x0 + rows * rv[0], y0 + rows * rv[1]]
        return e_aref(target, xy, cols, rows, st)
    def cell_elems(self, targets, nshapes=None, nrefs=None, labels=True, arefs=True):
        r = self.rng
        shapes = [self.shape() for _ in range(r.choice([0, 1, 2, 3, 4]) if nshapes is None else nshapes)]
        els = list(shapes)
        if labels:
            for s in shapes:
                for _ in range(r.choice([0, 0, 1, 1, 2])):
                    els.append(self.label_for(s))
            if r.random() < 0.15:
                els.append(e_text(r.choice(NAMES), self.layer(), 0, (self.coord(), self.coord())))
        if r.random() < 0.1:
            els.append(e_node(self.layer(), 0, flatxy([(self.coord(), self.coord()) for _ in range(r.randrange(1, 4))])))
        if targets:
            for _ in range(r.choice([1, 1, 2, 3]) if nrefs is None else nrefs):
                t = r.choice(targets)
                els.append(self.aref(t, dims=(r.choice([1, 2, 3, 3, 7]), r.choice([1, 2, 2, 3]))) if arefs and r.random() < 0.4 else self.sref(t))
        if r.random() < 0.6:
            r.shuffle(els)
        return els
    def hier(self, depth=None, **kw):
        """acyclic hierarchy of the given depth (1 = flat cells only); listing order shuffled"""
        r = self.rng
        depth = depth or r.choice([1, 2, 2, 3, 3, 4])
        levels = []
        structs = []
        k = 0
        for lv in range(depth):
            names = []
            for _ in range(1 if lv == depth - 1 and r.random() < 0.7 else r.choice([1, 1, 2])):
                nm = "c%d" % k
                k += 1
                lower = [n for l in levels for n in l]
                targets = []
                if lv > 0:
                    targets = levels[lv - 1] + (lower if r.random() < 0.3 else [])
                structs.append(mkstruct(nm, self.cell_elems(targets, **kw)))
                names.append(nm)
            levels.append(names)
        r.shuffle(structs)
        return mklib(structs)

# ------------------------------------------------------------------ families
def leaf(name="leaf", layer=1):
    return mkstruct(name, [e_boundary(layer, 0, rect_xy(0, 0, 3, 2))])

def directed_cases():
    """small readable libraries, one per behaviour; these give the smallest witnesses"""
    out = []
    def add(fam, structs, **kw):
        out.append(dict(fam=fam, lib=mklib(structs, **kw)))
    L = leaf()
    add("d_flat", [L])
    for refl in (False, True):
        for a in (None, 0.0, 90.0, 180.0, 270.0):
            add("d_sref", [mkstruct("top", [e_sref("leaf", (10, 20), strans(refl, a) if (refl or a is not None) else None)]), L])
    add("d_sref_mag1", [L, mkstruct("top", [e_sref("leaf", (1, 1), strans(mag=1.0))])])
    add("d_aref", [L, mkstruct("top", [e_aref("leaf", [0, 0, 20, 0, 0, 30], 2, 3)])])
    add("d_aref", [L, mkstruct("top", [e_aref("leaf", [5, 7, 5 + 70, 7, 5, 7 + 30], 7, 3, strans(True))])])
    add("d_aref_skew", [L, mkstruct("top", [e_aref("leaf", [0, 0, 20, 4, 6, 30], 2, 3)])])
    for a in (90.0, 180.0, 270.0):
        add("d_aref_angle_axisxy", [L, mkstruct("top", [e_aref("leaf", [0, 0, 20, 0, 0, 30], 2, 3, strans(False, a))])])
    add("d_aref_angle_axisxy", [L, mkstruct("top", [e_aref("leaf", [0, 0, 20, 0, 0, 20], 2, 2, strans(False, 0.0))])])
    add("d_aref_angle_gdsxy", [L, mkstruct("top", [e_aref("leaf", [0, 0, 0, 20, -30, 0], 2, 3, strans(False, 90.0))])])
    add("d_aref_angle_gdsxy", [L, mkstruct("top", [e_aref("leaf", [0, 0, -20, 0, 0, -30], 2, 3, strans(True, 180.0))])])
    add("d_aref_angle360", [L, mkstruct("top", [e_aref("leaf", [0, 0, 20, 0, 0, 80], 2, 2, strans(False, 360.0))])])
    add("d_aref_1x1", [L, mkstruct("top", [e_aref("leaf", [4, 4, 4, 4, 4, 4], 1, 1)])])
    add("d_aref_angle_1x1", [L, mkstruct("top", [e_aref("leaf", [4, 4, 4, 4, 4, 4], 1, 1, strans(False, 90.0))])])
    add("d_aref_angle_1x1", [L, mkstruct("top", [e_aref("leaf", [4, 4, 4, 4, 4, 4], 1, 1, strans(True, 270.0))])])
    for cols, rows in ((0, 3), (2, 0), (0, 0), (-2, 3), (2, -1), (-2, -3)):
        add("m_dims", [L, mkstruct("top", [e_aref("leaf", [0, 0, 20, 0, 0, 30], cols, rows)])])
    add("d_big", [L, mkstruct("top", [e_aref("leaf", [0, 0, 200 * 5, 0, 0, 200 * 4], 200, 200)])])
    add("d_big", [L, mkstruct("top", [e_aref("leaf", [0, 0, 181 * 5, 0, 0, 182 * 4], 181, 182)])])
    add("d_big", [L, mkstruct("top", [e_aref("leaf", [0, 0, 182, 0, 0, 181 * 3], 182, 181)])])
    add("d_big", [L, mkstruct("top", [e_aref("leaf", [0, 0, 32767, 0, 0, 2], 32767, 2)])])
    add("d_big", [L, mkstruct("top", [e_aref("leaf", [0, 0, 0, 0, 0, 32767 * 2], 1, 32767)])])
    add("m_emptyxy", [mkstruct("top", [e_boundary(1, 0, [])])])
    add("m_emptyxy", [mkstruct("top", [e_path(1, 0, [], 2)])])
    add("m_emptyxy", [mkstruct("top", [e_path(1, 0, [], 2), e_text("A", 1, 0, (0, 0))])])
    add("d_boundary_short", [mkstruct("top", [e_boundary(1, 0, [3, 4])])])
    add("d_boundary_short", [mkstruct("top", [e_boundary(1, 0, [3, 4, 3, 4])])])
    add("d_boundary_short", [mkstruct("top", [e_boundary(1, 0, [0, 0, 5, 5, 0, 0])])])
    add("s_boundary_open", [mkstruct("top", [e_boundary(1, 0, [0, 0, 5, 0, 5, 5, 0, 5])])])
    for m in (2.0, 0.5, -1.0):
        add("m_mag", [L, mkstruct("top", [e_sref("leaf", (1, 1), strans(mag=m))])])
        add("m_mag", [L, mkstruct("top", [e_aref("leaf", [0, 0, 20, 0, 0, 30], 2, 3, strans(mag=m))])])
    add("d_aref_mag1", [L, mkstruct("top", [e_aref("leaf", [0, 0, 20, 0, 0, 30], 2, 3, strans(mag=1.0))])])
    for am, aa in ((True, False), (False, True), (True, True)):
        add("m_absflags", [L, mkstruct("top", [e_sref("leaf", (1, 1), strans(am=am, aa=aa))])])
        add("m_absflags", [L, mkstruct("top", [e_aref("leaf", [0, 0, 20, 0, 0, 30], 2, 3, strans(am=am, aa=aa))])])
    add("m_dangling", [mkstruct("top", [e_sref("nope", (1, 1))])])
    add("m_dangling", [mkstruct("top", [e_aref("nope", [0, 0, 20, 0, 0, 30], 2, 3)]), L])
    add("m_cyclic", [mkstruct("a", [e_sref("a", (1, 1))])])
    add("m_cyclic", [mkstruct("a", [e_sref("b", (1, 1))]), mkstruct("b", [e_aref("a", [0, 0, 20, 0, 0, 30], 2, 3)])])
    add("m_cyclic", [mkstruct("a", [e_sref("b", (1, 1))]), mkstruct("b", [e_sref("c", (0, 0))]), mkstruct("c", [e_sref("a", (0, 0))]), L])
    add("d_path", [mkstruct("top", [e_path(1, 0, [0, 0, 10, 0, 10, 10], 4)])])
    add("d_path_nowidth", [mkstruct("top", [e_path(1, 0, [0, 0, 10, 0], None)])])
    add("d_path_negwidth", [mkstruct("top", [e_path(1, 0, [0, 0, 10, 0], -4)])])
    add("d_path_negwidth", [mkstruct("top", [e_path(1, 0, [0, 0, 10, 0], -4), e_text("A", 1, 0, (5, 0))])])
    add("d_path_diag_label", [mkstruct("top", [e_path(1, 0, [0, 0, 10, 10], 4), e_text("A", 1, 0, (5, 5))])])
    add("d_path_diag_label", [mkstruct("top", [e_path(1, 0, [0, 0, 10, 10], 4), e_text("A", 1, 0, (50, 5))])])
    add("d_path_diag", [mkstruct("top", [e_path(1, 0, [0, 0, 10, 10], 4), e_text("A", 2, 0, (5, 5))])])
    add("d_path_1pt_label", [mkstruct("top", [e_path(1, 0, [3, 3], 4), e_text("A", 1, 0, (3, 3))])])
    # four-vertex boundaries that are ALMOST rectangles (three axis-parallel sides, one slanted): every start vertex and both
    # windings, so that each of the importer's two rectangle patterns meets a non-rectangle that satisfies all but one of its tests
    for quad in ([(0, 0), (10, 0), (10, 10), (3, 10)], [(0, 0), (0, 10), (5, 10), (5, 5)], [(0, 0), (10, 0), (10, 6), (-4, 6)],
                 [(0, 0), (10, 0), (7, 6), (0, 6)]):
        for rev in (False, True):
            q0 = quad if not rev else [quad[0]] + quad[:0:-1]
            for st in range(4):
                q = q0[st:] + q0[:st]
                add("d_near_rectangle", [mkstruct("top", [e_boundary(1, 0, closed(q)), e_text("A", 1, 0, (9, 9))])])
    # a label inside / outside a boundary that spans most of the 32-bit coordinate range (the containment test multiplies
    # coordinate differences: products reach 2^66)
    BIG = 2000000000
    for tri, q in (([(-BIG, -BIG), (BIG, -BIG), (-BIG, BIG)], (-BIG // 2, -BIG // 2)), ([(-BIG, -BIG), (BIG, -BIG), (-BIG, BIG)], (BIG // 2, BIG // 2)),
                   ([(-BIG, -BIG), (BIG, -BIG), (BIG, BIG)], (BIG - 7, -BIG + 9)), ([(0, 0), (BIG, 1), (BIG, BIG), (1, BIG)], (BIG // 2, BIG // 2 + 1))):
        add("d_label_huge_polygon", [mkstruct("top", [e_boundary(1, 0, closed(tri)), e_text("A", 1, 0, q)])])
    # overlapping shapes on two layers whose NUMBERS agree modulo 256 / modulo 2^15 (a per-layer table indexed by a truncated
    # layer number would mix them up): the label names the shape of its own layer only
    for la, lb in ((44, 300), (1, 257), (0, 256), (5, -251), (255, -1), (0, -32768), (32767, -1), (12, 12 + 4096), (300, 44)):
        add("d_layers_congruent", [mkstruct("top", [e_boundary(la, 0, rect_xy(0, 0, 10, 6)), e_boundary(lb, 0, rect_xy(2, 2, 8, 4)),
                                                      e_text("A", la, 0, (5, 3)), e_path(lb, 0, [0, 3, 10, 3], 2)])])
    add("d_layers_congruent", [mkstruct("top", [e_boundary(44, 0, rect_xy(0, 0, 10, 6)), e_text("a", 44, 0, (5, 3)),
                                                  e_boundary(300, 0, rect_xy(0, 0, 10, 6)), e_text("b", 300, 0, (5, 3))])])
    # labels on a rectangle: inside, edge, corner, outside, other layer, two names, case
    R = e_boundary(4, 0, rect_xy(0, 0, 10, 6))
    for q in ((5, 3), (0, 3), (10, 6), (11, 3), (5, -1), (5, 7)):
        add("d_label_rect", [mkstruct("top", [R, e_text("VDD", 4, 7, q)])])
    add("d_label_rect", [mkstruct("top", [R, e_text("VDD", 5, 0, (5, 3))])])
    add("d_label_rect", [mkstruct("top", [R, e_text("VDD", 4, 0, (5, 3)), e_text("vss", 4, 0, (6, 3))])])
    add("d_label_rect", [mkstruct("top", [e_text("Top", 4, 0, (5, 3)), R, e_boundary(4, 1, rect_xy(3, 2, 20, 4)), e_text("x", 4, 0, (50, 50))])])
    # labels on polygons, among them the two C13 witnesses
    add("d_label_poly", [mkstruct("top", [e_boundary(1, 0, closed([(0, 0), (5, 0), (5, 4), (0, 4), (1, 2)])), e_text("A", 1, 0, (0, 2))])])
    add("d_label_poly", [mkstruct("top", [e_boundary(1, 0, closed([(0, 0), (1, 3), (1, 0)])), e_text("A", 1, 0, (0, 1))])])
    add("d_label_poly", [mkstruct("top", [e_boundary(1, 0, closed(POLY_TEMPLATES[1])), e_text("A", 1, 0, (4, 4))])])
    add("d_label_poly", [mkstruct("top", [e_boundary(1, 0, closed(POLY_TEMPLATES[1])), e_text("A", 1, 0, (1, 4))])])
    add("d_label_box", [mkstruct("top", [e_box(1, 0, rect_xy(0, 0, 4, 4)), e_text("A", 1, 0, (2, 2))])])
    add("d_label_path", [mkstruct("top", [e_path(1, 0, [0, 0, 10, 0, 10, 10], 4), e_text("A", 1, 0, (5, 2)), e_text("B", 1, 0, (5, 3))])])
    # units
    for u in (1e-9, 1e-6, 1e-10, 1e-12, 1e-3, 1.0000000001e-9, 1.002e-9, 0.0):
        add("d_units", [L], units=[G.f2b(1e-3), G.f2b(u)])
    add("d_units", [L], units=[G.f2b(1e-3), 0x7FF8000000000000])
    # non-right angles (the property is judged at ring level only: C12)
    for a in (45.0, 30.0, 0.5, 91.0):
        add("s_angle", [L, mkstruct("top", [e_sref("leaf", (10, 20), strans(False, a))])])
        add("s_angle", [L, mkstruct("top", [e_aref("leaf", [0, 0, 20, 0, 0, 30], 2, 3, strans(False, a))])])
    add("s_lattice_indivisible", [L, mkstruct("top", [e_aref("leaf", [0, 0, 21, 0, 0, 31], 2, 3)])])
    add("s_box_invalid", [mkstruct("top", [e_box(1, 0, [0, 0, 4, 1, 5, 5, 1, 4, 0, 0])])])
    add("d_empty_cell", [mkstruct("top", []), mkstruct("t2", [e_sref("top", (0, 0))])])
    add("d_node_only", [mkstruct("top", [e_node(1, 0, [0, 0, 1, 1])])])
    return out

def audit_cases():
    """directed families added by the generator audit (2026-10-02): one small case per input class that the families above
    never reach.  Each name shows up in input_distribution; `layers` = the caller's layer table handed to from_gds."""
    out = []
    def add(fam, structs, layers=None, **kw):
        c = dict(fam=fam, lib=mklib(structs, **kw))
        if layers:
            c["layers"] = layers
        out.append(c)
    L = leaf()
    L2 = mkstruct("leaf", [e_boundary(1, 0, closed([(0, 0), (6, 0), (6, 2), (2, 2), (2, 5), (0, 5)])), e_path(2, 0, [0, 0, 4, 0, 4, 5], 2)])
    E = (1 << 31) - 1
    # 1. right angles spelled beyond one turn / as negative zero (quarters_of judges every whole multiple of 90)
    for k, a in enumerate((-0.0, 450.0, 540.0, 630.0, 720.0, 810.0, -360.0, -450.0, -540.0, -630.0, 3690.0, -3690.0)):
        refl = k % 2 == 1
        add("d_angle_spelling", [L2, mkstruct("top", [e_sref("leaf", (10, 20), strans(refl, a)), e_aref("leaf", [0, 0, 0, 20, -30, 0], 2, 3, strans(not refl, a))])])
    add("d_angle_spelling", [L2, mkstruct("mid", [e_sref("leaf", (7, -3), strans(True, 450.0))]), mkstruct("top", [e_sref("mid", (-5, 11), strans(False, -630.0)), e_sref("mid", (1, 1), strans(True, 810.0))])])
    # 2. a caller-supplied layer table: known (layer, purpose) pairs resolve to the registered purpose, new ones are added
    tables = [
        [{"num": 1, "name": "met1", "pairs": [[0, "Drawing"], [5, "Pin"], [7, "Label"]]}, {"num": 4, "name": None, "pairs": [[0, "Obstruction"], [20, {"Named": ["fill", 20]}]]}],
        [{"num": 9, "name": "unused", "pairs": [[0, "Drawing"]]}, {"num": 2, "name": "via", "pairs": [[3, {"Other": 3}], [1, "Outline"]]}, {"num": 1, "name": None, "pairs": []}],
        [{"num": -1, "name": "neg", "pairs": [[-3, "Pin"], [32767, "Label"]]}],
    ]
    for t in tables:
        top = [e_boundary(1, 0, rect_xy(0, 0, 10, 6)), e_boundary(1, 5, rect_xy(20, 0, 30, 6)), e_boundary(1, 9, rect_xy(40, 0, 50, 6)), e_text("VDD", 1, 7, (5, 3)),
               e_path(2, 3, [0, 20, 10, 20], 2), e_box(2, 1, rect_xy(0, 30, 4, 34)), e_boundary(4, 20, closed(POLY_TEMPLATES[0])), e_boundary(4, 0, rect_xy(-9, -9, -2, -2)),
               e_boundary(-1, -3, rect_xy(60, 0, 70, 6)), e_boundary(-1, 32767, rect_xy(60, 10, 70, 16)), e_text("x", 9, 0, (0, 0)), e_boundary(3, 0, rect_xy(0, 40, 2, 42))]
        add("d_layers_given", [mkstruct("top", top)], layers=t)
        add("d_layers_given", [mkstruct("top", [e_sref("leaf", (3, 3), strans(True, 90.0)), top[1], top[6]]), mkstruct("leaf", top[:5])], layers=t)
    # 3. the tolerance of every database unit, both sides; the user unit is not looked at
    for u, tol in ((1e-12, 1e-15), (1e-10, 1e-13), (1e-9, 1e-12), (1e-6, 1e-9)):
        for d in (0.9, -0.9, 1.1, -1.1, 0.999999, 1.000001):
            add("d_units_edge", [L], units=[G.f2b(1e-3), G.f2b(u + d * tol)])
        add("d_units_edge", [L], units=[G.f2b(1e-3), G.f2b(-u)])
    for u0 in (0.0, -1.0, float("inf"), 1e300):
        add("d_units_edge", [L], units=[G.f2b(u0), G.f2b(1e-9)])
    add("d_units_edge", [L], units=[0x7FF8000000000000, G.f2b(1e-6)])
    for u in (float("inf"), -float("inf"), 5e-324, 1e-11, 1e-7, 1e-13):
        add("d_units_edge", [L], units=[G.f2b(1e-3), G.f2b(u)])
    # 4. path widths at the i32 limits; labels exactly at / just beyond half the width, on each side, odd / even / negative widths
    for w in (-E - 1, -E, E, E - 1, -1, 1):
        add("d_path_width_edge", [mkstruct("top", [e_path(1, 0, [0, 0, 10, 0], w)])])
        add("d_path_width_edge", [mkstruct("top", [e_path(1, 0, [0, 0, 10, 0], w), e_text("A", 1, 0, (5, abs(w) // 2)), e_text("B", 1, 0, (5, abs(w) // 2 + 1))])])
    for w in (4, 5, -4, -5, 0, 1):
        h = abs(w) // 2
        for q in ((5, h), (5, h + 1), (5, -h), (5, -h - 1), (0, h), (10, -h), (-1, 0), (11, 0)):
            add("d_path_label_halfwidth", [mkstruct("top", [e_path(1, 0, [0, 0, 10, 0], w), e_text("N", 1, 0, q)])])
        for q in ((h, 5), (h + 1, 5), (-h, 5), (-h - 1, 5), (0, 11), (0, -1)):
            add("d_path_label_halfwidth", [mkstruct("top", [e_path(1, 0, [0, 10, 0, 0], w), e_text("N", 1, 0, q)])])
    # 5. lattices: pitches that do not divide (truncation toward zero, negative numerators), and the full i32 span
    for xy, cols, rows in (([0, 0, -21, 0, 0, -31], 2, 3), ([0, 0, 0, -21, 31, 0], 2, 3), ([5, 5, -2, 12, 12, -2], 3, 3), ([0, 0, -1, -1, 1, 1], 2, 2),
                           ([0, 0, 7, -7, -7, 7], 2, 4)):
        add("s_lattice_trunc", [L, mkstruct("top", [e_aref("leaf", xy, cols, rows)])])
    add("d_lattice_span", [L, mkstruct("top", [e_aref("leaf", [-E - 1, -E - 1, E, -E - 1, -E - 1, E], 3, 5)])])
    add("d_lattice_span", [L, mkstruct("top", [e_aref("leaf", [E, E, -E - 1, E, E, -E - 1], 5, 3, strans(True, 180.0))])])
    add("d_lattice_span", [L, mkstruct("top", [e_aref("leaf", [-E - 1, E, E, -E - 1, E, E], 3, 3)])])
    # 6. the optional fields the importer never reads: present on every element kind, nothing may change
    def withopt(e, k):
        e = dict(e)
        e["elflags"] = [[0, 1], [0, 2], [0, 3], [255, 255]][k % 4]
        e["plex"] = [1, -5, 0x1000000, E][k % 4]
        e["props"] = [[(1, b"v")], [(127, b""), (2, b"two")], [(-3, b"\xc3\xa4")], []][k % 4]
        return e
    t1 = dict(e_text("VDD", 1, 0, (1, 1)), presentation=[0, 5], path_type=1, width=-7, strans=strans(True, 90.0, 2.0))
    t2 = dict(e_text("far", 1, 0, (90, 90)), presentation=[255, 255], path_type=4, width=E, strans=strans(False, None, None, True, True))
    p4 = dict(e_path(2, 0, [0, 0, 10, 0], 4, 4), begin_extn=3, end_extn=-2)
    p4b = dict(e_path(2, 0, [0, 0, 0, 10], 5, 4), begin_extn=None, end_extn=7)
    opt_els = [e_boundary(1, 0, rect_xy(0, 0, 3, 2)), e_box(1, 1, rect_xy(5, 5, 8, 9)), p4, p4b, t1, t2, e_node(1, 0, [0, 0, 1, 1]),
               e_boundary(1, 2, closed(POLY_TEMPLATES[1])), e_text("q", 2, 0, (5, 1))]
    add("d_optional_fields", [mkstruct("top", opt_els)])
    add("d_optional_fields", [mkstruct("top", [withopt(e, k) for k, e in enumerate(opt_els)])])
    add("d_optional_fields", [mkstruct("leaf", [withopt(e, k + 1) for k, e in enumerate(opt_els)]),
                              mkstruct("top", [withopt(e_sref("leaf", (10, 20), strans(True, 270.0)), 0), withopt(e_aref("leaf", [0, 0, 40, 0, 0, 60], 2, 3), 1)])])
    for pt in (0, 1, 2, 4, 3, -1, 32767):
        add("d_optional_fields", [mkstruct("top", [dict(e_path(1, 0, [0, 0, 10, 0, 10, 10], 4, pt), begin_extn=5, end_extn=5), e_text("A", 1, 0, (-1, 0)), e_text("B", 1, 0, (10, 11))])])
    # 7. deep and wide hierarchies: a chain of 12 cells in mixed orientations, arrays of arrays of arrays, 300 references in one cell
    chain = [L2]
    prev = "leaf"
    for k in range(12):
        nm = "n%d" % k
        chain.append(mkstruct(nm, [e_sref(prev, (k + 1, 2 * k - 7), strans(k % 3 == 0, [90.0, None, 270.0, 180.0, 0.0][k % 5])), e_boundary(3, k, rect_xy(0, 0, k + 1, 1))]))
        prev = nm
    add("d_deep_chain", list(reversed(chain)))
    add("d_deep_chain", chain[:7])
    add("d_deep_chain", [L, mkstruct("a1", [e_aref("leaf", [0, 0, 8, 0, 0, 6], 2, 2, strans(False, 90.0))]), mkstruct("a2", [e_aref("a1", [0, 0, 0, 40, -40, 0], 2, 2, strans(True, 90.0))]),
                         mkstruct("a3", [e_aref("a2", [5, 5, 205, 5, 5, 205], 2, 2, strans(True, 270.0)), e_sref("a1", (-9, -9), strans(True))])])
    add("d_wide_cell", [mkstruct("top", [e_sref("leaf", (3 * k, -k), strans(k % 2 == 0, [None, 90.0, 180.0, 270.0][k % 4]) if k % 5 else None) for k in range(300)]), L])
    # 8. names: case matters, empty and non-ASCII names, brackets (the array instance names are built from them)
    add("d_names", [mkstruct("Top", [e_sref("LEAF", (1, 1)), e_sref("leaf", (9, 9)), e_sref("Leaf", (20, 20), strans(True))]), mkstruct("leaf", [e_boundary(1, 0, rect_xy(0, 0, 3, 2))]),
                    mkstruct("LEAF", [e_boundary(2, 0, rect_xy(0, 0, 1, 1))]), mkstruct("Leaf", [e_path(3, 0, [0, 0, 5, 0], 2)])], name=b"MyLib")
    add("d_names", [mkstruct("top", [e_sref("", (1, 1)), e_aref("a[0][1]", [0, 0, 20, 0, 0, 30], 2, 3), e_sref("äÖ中", (5, 5))]), mkstruct("", [e_boundary(1, 0, rect_xy(0, 0, 3, 2))]),
                    mkstruct("a[0][1]", [e_boundary(1, 0, rect_xy(0, 0, 1, 1))]), mkstruct("äÖ中", [e_boundary(1, 0, rect_xy(0, 0, 2, 2))])], name="ä lib".encode("utf8"))
    add("d_names", [mkstruct("x" * 300, [e_boundary(1, 0, rect_xy(0, 0, 3, 2))]), mkstruct("top", [e_sref("x" * 300, (1, 1)), e_sref("x" * 299, (1, 1))]), mkstruct("x" * 299, [])], name=b"")
    add("m_names_case", [mkstruct("top", [e_sref("LEAF", (1, 1))]), L])
    # 9. label strings at the edges of the ASCII letter ranges, empty, blank, the same name twice / in another case
    R = e_boundary(4, 0, rect_xy(0, 0, 10, 6))
    for sname in ("@[\\]^_`{|}~", "AZaz09", "", "a B", "\x7f\x01Z", "VDD!", "<3>", " Pad ", "\tT\n"):
        add("d_label_chars", [mkstruct("top", [R, e_text(sname, 4, 0, (5, 3)), e_text(sname, 4, 0, (50, 3))])])
    add("d_label_repeat", [mkstruct("top", [R, e_text("VDD", 4, 0, (5, 3)), e_text("vdd", 4, 1, (6, 3)), e_text("VDD", 4, 0, (7, 3))])])
    add("d_label_repeat", [mkstruct("top", [e_text("b", 4, 0, (5, 3)), e_text("A", 4, 0, (5, 3)), R])])
    # 10. layer and datatype numbers at the i16 limits (a text on such a layer as well)
    for lay, dt in ((-32768, -32768), (32767, 32767), (-32768, 32767), (0, -32768)):
        add("d_i16_edge", [mkstruct("top", [e_boundary(lay, dt, rect_xy(0, 0, 10, 6)), e_text("A", lay, dt, (5, 3)), e_path(lay, -dt - 1, [0, 20, 10, 20], 2), e_box(-lay - 1, dt, rect_xy(0, 30, 4, 34)),
                                             e_text("B", -lay - 1, 0, (1, 31))])])
    # 11. listing order: the user listed before what it uses, reached through an array only / through two ways (diamond)
    add("d_aref_dep_order", [mkstruct("top", [e_aref("leaf", [0, 0, 20, 0, 0, 30], 2, 3)]), L])
    add("d_aref_dep_order", [mkstruct("top", [e_aref("mid", [0, 0, 20, 0, 0, 30], 2, 1, strans(False, 90.0))]), mkstruct("mid", [e_aref("leaf", [1, 1, 1, 9, 1, 1], 2, 1)]), L])
    for order in ((0, 1, 2), (0, 2, 1), (1, 0, 2), (2, 0, 1)):
        ss = [mkstruct("top", [e_sref("mid", (10, 0), strans(False, 90.0)), e_sref("leaf", (0, 10))]), mkstruct("mid", [e_sref("leaf", (1, 1), strans(True)), e_aref("leaf", [0, 0, 8, 0, 0, 8], 2, 2)]), L]
        add("d_diamond", [ss[k] for k in order])
    # 12. magnifications that only a comparison with exactly 1.0 classifies
    for m in (float("nan"), float("inf"), 0.0, -0.0, 1.0000000000000002, 0.9999999999999999, -1.0, 5e-324):
        add("m_mag_special", [L, mkstruct("top", [e_sref("leaf", (1, 1), strans(False, None, m))])])
    add("m_mag_special", [L, mkstruct("top", [e_sref("leaf", (1, 1), strans(False, None, 0x7FF0000000000001))])])
    # 13. angles that are no numbers (not judged; no crash)
    for a in (float("nan"), float("inf"), -float("inf"), 1e300, 5e-324):
        add("s_angle_nonfinite", [L, mkstruct("top", [e_sref("leaf", (10, 20), strans(True, a))])])
    # 14. struct names repeated (outside the model and the specification: not judged; no crash)
    add("s_dupname", [L, leaf("leaf", 2), mkstruct("top", [e_sref("leaf", (1, 1))])])
    add("s_dupname", [mkstruct("top", [e_sref("leaf", (1, 1))]), L, leaf("leaf", 2)])
    add("s_dupname", [L, mkstruct("top", [e_sref("leaf", (1, 1))]), mkstruct("top", [e_aref("leaf", [0, 0, 20, 0, 0, 30], 2, 3)])])
    return out

def gen_cases(chk):
    rng = chk.rng
    quick = chk.tier == "quick"
    g = Gen(rng)
    cases = directed_cases() + audit_cases()
    def add(fam, lib):
        cases.append(dict(fam=fam, lib=lib))
    mult = 1 if quick else 12
    # well-formed hierarchies
    for _ in range(300 * mult):
        add("hier", g.hier())
    for _ in range(80 * mult):
        add("hier_nolabel", g.hier(labels=False))
    # single cells with many labelled shapes
    for _ in range(220 * mult):
        lay = g.layer()
        shapes = [g.shape(lay if rng.random() < 0.7 else None) for _ in range(rng.randrange(1, 5))]
        els = list(shapes)
        for s in shapes:
            for _ in range(rng.choice([1, 2, 3])):
                els.append(g.label_for(s))
        if rng.random() < 0.5:
            rng.shuffle(els)
        add("labels", mklib([mkstruct("top", els)]))
    # every orientation x array convention, one array over a two-shape leaf
    leaf2 = mkstruct("leaf", [e_boundary(1, 0, rect_xy(0, 0, 3, 2)), e_path(2, 0, [0, 0, 4, 0, 4, 5], 2)])
    for _ in range(130 * mult):
        add("arrays", mklib([leaf2, mkstruct("top", [g.aref("leaf") for _ in range(rng.choice([1, 1, 2]))])]))
    # malformed: one defect planted in an otherwise well-formed hierarchy
    for _ in range(170 * mult):
        lib = g.hier(depth=rng.choice([2, 3]))
        kind = rng.choice(["dangling", "cyclic", "dims", "emptyxy", "absflags", "mag"])
        s = rng.choice(lib["structs"])
        names = [x["name"] for x in lib["structs"]]
        pos = rng.randrange(len(s["elems"]) + 1)
        if kind == "dangling":
            e = e_sref("missing", (1, 2)) if rng.random() < 0.5 else e_aref("missing", [0, 0, 2, 0, 0, 2], 2, 2)
        elif kind == "cyclic":
            # a reference from the lowest cell up to a cell that (transitively) contains it, or to itself
            users = [x for x in lib["structs"] if any(el["k"] in ("sref", "aref") and el["name"] == s["name"] for el in x["elems"])]
            tgt = rng.choice(users)["name"] if users and rng.random() < 0.7 else s["name"]
            e = e_sref(tgt, (0, 0)) if rng.random() < 0.6 else e_aref(tgt, [0, 0, 4, 0, 0, 4], 2, 2)
        elif kind == "dims":
            others = [n for n in names if n != s["name"]] or [b"missing"]
            e = e_aref(rng.choice(others), [0, 0, 20, 0, 0, 30], rng.choice([0, -1, 2, -3]), rng.choice([0, 0, -2]))
            if kind == "dims" and rng.choice(others) == b"missing":
                kind = "dangling"
        elif kind == "emptyxy":
            e = e_boundary(g.layer(), 0, []) if rng.random() < 0.5 else e_path(g.layer(), 0, [], 2)
        elif kind == "absflags":
            others = [n for n in names if n != s["name"]]
            st = strans(rng.random() < 0.5, rng.choice([None, 90.0]), None, *rng.choice([(True, False), (False, True), (True, True)]))
            e = e_sref(others[0], (3, 3), st) if others and rng.random() < 0.5 else (e_aref(others[0], [0, 0, 4, 0, 0, 4], 2, 2, st) if others else e_boundary(1, 0, []))
        else:
            others = [n for n in names if n != s["name"]]
            st = strans(rng.random() < 0.5, rng.choice([None, 180.0]), rng.choice([2.0, 0.25, 3.0, 1.0000000000000002]))
            e = e_sref(others[0], (3, 3), st) if others and rng.random() < 0.6 else (e_aref(others[0], [0, 0, 4, 0, 0, 4], 2, 2, st) if others else e_boundary(1, 0, []))
        s["elems"].insert(pos, e)
        add("mal_" + kind, lib)
    # silent: non-right angles in a hierarchy
    for _ in range(30 * mult):
        lib = g.hier(depth=rng.choice([2, 3]), labels=False)
        refs = [el for s in lib["structs"] for el in s["elems"] if el["k"] in ("sref", "aref")]
        el = rng.choice(refs)
        el["strans"] = strans(rng.random() < 0.5, rng.choice([45.0, 30.0, 12.5, 100.0, 1e-3, 89.99999]))
        add("silent_angle", lib)
    # other widths / non-Manhattan paths without and with labels
    for _ in range(60 * mult):
        p = g.path(manhattan=rng.random() < 0.5)
        if rng.random() < 0.4:
            p["width"] = rng.choice([-1, -4, -7, None])
        els = [p]
        if rng.random() < 0.5:
            els.append(g.label_for(p))
        add("paths", mklib([mkstruct("top", els)]))
    # large arrays
    for _ in range(6 * mult):
        cols, rows = rng.choice([(181, 182), (200, 200), (1, 32767), (300, 3), (2, 16384), (150, 150), (255, 129)])
        a = g.aref("leaf", dims=(cols, rows), convention=rng.choice(["axis", "gds"]))
        add("big", mklib([leaf(), mkstruct("top", [a])]))
    # extreme coordinates (no labels: Polygon::contains on such coordinates belongs to C13)
    E = (1 << 31) - 1
    for _ in range(30 * mult):
        x0, y0 = rng.choice([-E - 1, -E, E - 10, 0]), rng.choice([-E - 1, E - 7, 0])
        sh = e_boundary(1, 0, rect_xy(x0, y0, min(E, x0 + rng.randrange(1, 9)), min(E, y0 + rng.randrange(1, 9)), rng.random() < 0.5, rng.randrange(4)))
        top = mkstruct("top", [e_sref("leaf", (rng.choice([-E - 1, E, 0]), rng.choice([-E - 1, E, 5])), g.strans()),
                               e_aref("leaf", [E - 6, -E - 1, E, -E - 1, E - 6, -E + 7], 3, 2, g.strans())])
        add("extreme", mklib([mkstruct("leaf", [sh, e_path(2, 0, [-E - 1, E, E, E], rng.choice([0, 2, E]))]), top]))
    return cases

# ------------------------------------------------------------------ sizes / features
def struct_map(lib):
    return {s["name"]: s for s in lib["structs"]}
def flat_counts(lib):
    """number of flattened shapes per struct (python estimate, None when cyclic / dangling)"""
    sm = struct_map(lib)
    memo = {}
    def cnt(name, stack):
        if name in memo:
            return memo[name]
        if name not in sm or name in stack:
            return None
        n = 0
        for e in sm[name]["elems"]:
            if e["k"] in ("boundary", "path", "box"):
                n += 1
            elif e["k"] in ("sref", "aref"):
                c = cnt(e["name"], stack | {name})
                if c is None:
                    return None
                n += c * (1 if e["k"] == "sref" else max(0, e["cols"]) * max(0, e["rows"]))
                if n > 10 ** 7:
                    return 10 ** 7
        memo[name] = n
        return n
    return [cnt(s["name"], frozenset()) for s in lib["structs"]]
def inst_count(lib):
    return max([sum((1 if e["k"] == "sref" else max(0, e["cols"]) * max(0, e["rows"])) for e in s["elems"] if e["k"] in ("sref", "aref")) for s in lib["structs"]] or [0])

FEATURE_FLAG = {"aref-zero-dims": "dims", "aref-capacity": "cap", "aref-angle": "deg", "aref-lattice": "lattice", "empty-xy": "emptyxy",
                "sref-mag": "mag", "path-negative-width": "width", "label-on-polygon": "contains", "label-on-nonmanhattan-path": "pathdiag"}
def features(lib, flags=None):
    """defect-relevant features of a library (classification of violations only; the verdict is the Coq checker's);
    a feature whose defect the tree at hand no longer has (flags) is not listed"""
    f = all_features(lib)
    if flags:
        f = {x for x in f if not flags.get(FEATURE_FLAG[x], False)}
    return f
def all_features(lib):
    f = set()
    for s in lib["structs"]:
        texts = [e for e in s["elems"] if e["k"] == "text"]
        for e in s["elems"]:
            k = e["k"]
            if k == "aref":
                if e["cols"] <= 0 or e["rows"] <= 0:
                    f.add("aref-zero-dims")
                elif e["cols"] * e["rows"] > 32767:
                    f.add("aref-capacity")
                xy = e["xy"]
                axis = len(xy) == 6 and xy[1] == xy[3] and xy[0] == xy[4]
                if not axis:
                    f.add("aref-lattice")
                st = e["strans"]
                if st and st["angle"] is not None:
                    f.add("aref-angle")
                    pitch = (e["cols"] > 1 and xy[2] != xy[0]) or (e["rows"] > 1 and xy[5] != xy[1])
                    # (as found the pitch is rotated in floating point and truncated: even ANGLE 360 moves it)
                    if axis and pitch and st["angle"] not in (G.f2b(0.0), 1 << 63):
                        f.add("aref-lattice")
            if k in ("boundary", "path") and len(e["xy"]) == 0:
                f.add("empty-xy")
            if k == "sref" and e["strans"] and e["strans"]["mag"] is not None and e["strans"]["mag"] != G.f2b(1.0):
                f.add("sref-mag")
            if k == "path" and e["width"] is not None and e["width"] < 0:
                f.add("path-negative-width")
            if k == "path" and any(t["layer"] == e["layer"] for t in texts):
                xy = e["xy"]
                pts = [(xy[2 * i], xy[2 * i + 1]) for i in range(len(xy) // 2)]
                if any(a[0] != b[0] and a[1] != b[1] for a, b in zip(pts, pts[1:])):
                    f.add("label-on-nonmanhattan-path")
            if k == "boundary" and len(e["xy"]) > 10 or (k == "boundary" and len(e["xy"]) in (8, 10) and any(t["layer"] == e["layer"] for t in texts)):
                if any(t["layer"] == e["layer"] for t in texts):
                    f.add("label-on-polygon")
    return f

def describe(lib):
    """one line per struct, readable"""
    def st(s):
        if not s:
            return ""
        o = []
        if s["r"]: o.append("reflect")
        if s["angle"] is not None: o.append("angle=%r" % struct_f(s["angle"]))
        if s["mag"] is not None: o.append("mag=%r" % struct_f(s["mag"]))
        if s["am"]: o.append("absmag")
        if s["aa"]: o.append("absangle")
        return " " + ",".join(o)
    out = []
    for s in lib["structs"]:
        es = []
        for e in s["elems"]:
            k = e["k"]
            if k == "boundary": es.append("BOUNDARY %d/%d xy%s" % (e["layer"], e["datatype"], e["xy"]))
            elif k == "box": es.append("BOX %d/%d xy%s" % (e["layer"], e["boxtype"], e["xy"]))
            elif k == "path": es.append("PATH %d/%d w=%s xy%s" % (e["layer"], e["datatype"], e["width"], e["xy"]))
            elif k == "text": es.append("TEXT %r %d at %s" % (e["string"].decode("utf8", "replace"), e["layer"], e["xy"]))
            elif k == "node": es.append("NODE %d" % e["layer"])
            elif k == "sref": es.append("SREF %s at %s%s" % (e["name"].decode("utf8", "replace"), e["xy"], st(e["strans"])))
            elif k == "aref": es.append("AREF %s %dx%d xy%s%s" % (e["name"].decode("utf8", "replace"), e["cols"], e["rows"], e["xy"], st(e["strans"])))
        out.append("%s{%s}" % (s["name"].decode("utf8", "replace"), "; ".join(es)))
    u = lib["units"][1]
    return ("units.db=%r " % struct_f(u) if u != G.f2b(1e-9) else "") + " ".join(out)
def struct_f(bits):
    import struct as _s
    return _s.unpack(">d", _s.pack(">Q", bits))[0]

def lib_size(lib):
    return sum(3 + len(e.get("xy", [])) + (4 if e.get("strans") else 0) for s in lib["structs"] for e in s["elems"]) + 5 * len(lib["structs"])

# ------------------------------------------------------------------ Coq terms (short constructors of RawGdsCheck.W:
# the cost of a case is the elaboration of its term, about 10 us per character)
def zn(n):
    return str(n) if n >= 0 else "(%d)" % n
def zl(xs):
    return "[" + ";".join(zn(x) for x in xs) + "]"
def zo(x):
    return "None" if x is None else "(Some %s)" % zn(x)
def cb(b):
    return '(unhex "%s")' % bytes(b).hex()
def cs(s):
    if all(32 <= ord(ch) < 127 for ch in s):
        return '"%s"%%string' % s.replace('"', '""')
    return '(str_of_bytes (unhex "%s"))' % s.encode("utf8").hex()
def cso(s):
    return "None" if s is None else "(Some %s)" % cs(s)
def gstrans(st):
    if st is None:
        return "None"
    return "(W.tr %s %s %s %s %s)" % (cbool(st["r"]), cbool(st["am"]), cbool(st["aa"]), zo(st["mag"]), zo(st["angle"]))
def gelem(e):
    k = e["k"]
    if k == "boundary":
        return "W.gB %s %s %s" % (zn(e["layer"]), zn(e["datatype"]), zl(e["xy"]))
    if k == "box":
        return "W.gX %s %s %s" % (zn(e["layer"]), zn(e["boxtype"]), zl(e["xy"]))
    if k == "path":
        return "W.gP %s %s %s %s %s" % (zn(e["layer"]), zn(e["datatype"]), zl(e["xy"]), zo(e["width"]), zo(e["path_type"]))
    if k == "text":
        return "W.gT %s %s %s %s %s" % (cb(e["string"]), zn(e["layer"]), zn(e["texttype"]), zn(e["xy"][0]), zn(e["xy"][1]))
    if k == "node":
        return "W.gN %s %s %s" % (zn(e["layer"]), zn(e["nodetype"]), zl(e["xy"]))
    if k == "sref":
        return "W.gS %s %s %s %s" % (cb(e["name"]), zn(e["xy"][0]), zn(e["xy"][1]), gstrans(e["strans"]))
    if k == "aref":
        return "W.gA %s %s %s %s %s" % (cb(e["name"]), zl(e["xy"]), zn(e["cols"]), zn(e["rows"]), gstrans(e["strans"]))
    raise ValueError(k)
def compact_ok(lib):
    """the short constructors fix version 3, zero dates, no elflags / plex / properties, no begin/end extension, no
    presentation / strans on texts: what the generators of this file produce (and what the importer never reads)"""
    for s in lib["structs"]:
        for e in s["elems"]:
            if e.get("elflags") is not None or e.get("plex") is not None or e.get("props"):
                return False
            if e["k"] == "path" and (e.get("begin_extn") is not None or e.get("end_extn") is not None):
                return False
            if e["k"] == "text" and any(e.get(f) is not None for f in ("presentation", "path_type", "width", "strans")):
                return False
    return True
def glib(lib):
    if not compact_ok(lib):
        return G.to_coq(lib)
    return Raw("(W.gL %s %s %s [%s])" % (cb(lib["name"]), zn(lib["units"][0]), zn(lib["units"][1]),
               ";".join("W.gSt %s [%s]" % (cb(s["name"]), ";".join(gelem(e) for e in s["elems"])) for s in lib["structs"])))

def cpurpose(p):
    if isinstance(p, str):
        return p
    if "Other" in p:
        return "(Other %s)" % zn(p["Other"])
    return "(Named %s %s)" % (cs(p["Named"][0]), zn(p["Named"][1]))
def flat_pts(ps):
    return zl([c for p in ps for c in p])
def cshape(s):
    if "R" in s:
        return "(W.rR %s %s %s %s)" % (zn(s["R"][0][0]), zn(s["R"][0][1]), zn(s["R"][1][0]), zn(s["R"][1][1]))
    if "G" in s:
        return "(W.rG %s)" % flat_pts(s["G"])
    return "(W.rP %s %s)" % (zn(s["P"][1]), flat_pts(s["P"][0]))
def celem(e):
    p = e["purpose"]
    if isinstance(p, dict) and "Other" in p:
        return "W.rE %s %s %s %s" % (cso(e["net"]), zn(e["layer"]), zn(p["Other"]), cshape(e["shape"]))
    return "W.rEp %s %s %s %s" % (cso(e["net"]), zn(e["layer"]), cpurpose(p), cshape(e["shape"]))
def cinst(i):
    return "W.rI %s %s %s %s %s %s" % (cs(i["name"]), zn(i["cell"]), zn(i["loc"][0]), zn(i["loc"][1]), cbool(i["reflect"]), zo(i["angle"]))

NAME_RE = re.compile(r"^(.*)\[(\d+)\]\[(\d+)\]$", re.S)
def cinsts(insts):
    """short lists literally; long ones as single instances and lattices whose expansion is verified here to be the list"""
    if len(insts) <= 120:
        return "[" + ";".join(cinst(i) for i in insts) + "]"
    segs = []
    k = 0
    n = len(insts)
    while k < n:
        i0 = insts[k]
        m = NAME_RE.match(i0["name"])
        done = False
        if m and m.group(2) == "0" and m.group(3) == "0":
            pre = m.group(1)
            rows = 0
            while k + rows < n and insts[k + rows]["name"] == "%s[0][%d]" % (pre, rows):
                rows += 1
            cols = 0
            while k + cols * rows < n and insts[k + cols * rows]["name"] == "%s[%d][0]" % (pre, cols):
                cols += 1
            if rows * cols >= 2:
                x0, y0 = i0["loc"]
                rd = (insts[k + 1]["loc"][0] - x0, insts[k + 1]["loc"][1] - y0) if rows > 1 else (0, 0)
                cd = (insts[k + rows]["loc"][0] - x0, insts[k + rows]["loc"][1] - y0) if cols > 1 else (0, 0)
                ok = True
                for ix in range(cols):
                    for iy in range(rows):
                        j = insts[k + ix * rows + iy]
                        if (j["name"] != "%s[%d][%d]" % (pre, ix, iy) or j["cell"] != i0["cell"] or j["reflect"] != i0["reflect"] or j["angle"] != i0["angle"]
                                or j["loc"] != [x0 + ix * cd[0] + iy * rd[0], y0 + ix * cd[1] + iy * rd[1]]):
                            ok = False
                            break
                    if not ok:
                        break
                if ok:
                    segs.append("W.rLat %s %s %s %s %s %s %s %s %s %s %s %s" % (cs(pre), zn(i0["cell"]), zn(x0), zn(y0), zn(cd[0]), zn(cd[1]), zn(rd[0]), zn(rd[1]),
                                zn(cols), zn(rows), cbool(i0["reflect"]), zo(i0["angle"])))
                    k += rows * cols
                    done = True
        if not done:
            segs.append("ISingle (%s)" % cinst(i0))
            k += 1
    return "(expand_insts [" + ";".join(segs) + "])"

def clayers_obs(obs):
    return "[" + ";".join("mklayer %s %s [%s]" % (zn(l["num"]), cso(l["name"]), ";".join("(%s,%s)" % (zn(p[0]), cpurpose(p[1])) for p in l["pairs"])) for l in obs) + "]"
def table_consistent(L):
    return all(l["keynum"] is True and all(p[2] == p[0] for p in l["pairs"]) for l in L["layers"])
def clib(L):
    cells = []
    for c in L["cells"]:
        l = c["layout"]
        lay = "None" if l is None else "(Some (mklayout %s %s [%s] [%s]))" % (cs(l["name"]), cinsts(l["insts"]), ";".join(celem(e) for e in l["elems"]),
                                                                             ";".join("W.rT %s %s %s" % (cs(a[0]), zn(a[1][0]), zn(a[1][1])) for a in l["annots"]))
        # the importer never creates abstracts: a cell with one can equal no model cell
        cells.append("mkcell %s %s %s" % (cs(c["name"]), "None" if not c["abs"] else "(Some (mkabstract EmptyString [] [] []))", lay))
    return "(mklib %s %s %s [%s])" % (cs(L["name"]), L["units"], clayers_obs(L["layers"]), ";".join(cells))
def cflat(f, noflat):
    if noflat or f is None:
        return "FNotRun"
    if "ok" in f:
        return "FOk [" + ";".join(celem(e) for e in f["ok"]) + "]"
    if "err" in f:
        return "FErr"
    return "FPanic"
def cimpl(r, noflat):
    lib = r["lib"]
    if "panic" in lib and len(lib) == 1:
        return Raw("MPanic")
    if "err" in lib and len(lib) == 1:
        return Raw("MErr")
    flats = r.get("flat") or [None] * len(lib["cells"])
    return Raw("(MLib %s [%s])" % (clib(lib), ";".join(cflat(f, noflat) for f in flats)))

def probes_of(lib, layers=None):
    s = set(range(-1, 13))
    for l in layers or []:       # the caller's layer table (family d_layers_given): its purpose numbers are observed too
        for p in l["pairs"]:
            s.add(p[0])
    for st in lib["structs"]:
        for e in st["elems"]:
            for f in ("datatype", "boxtype"):
                if f in e:
                    s.add(e[f])
    return sorted(s)

def strip(c):
    o = {"fam": c.get("fam", "replay"), "lib": jsonable(c["lib"]), "noflat": bool(c.get("noflat"))}
    if c.get("layers"):
        o["layers"] = c["layers"]
    return o
def jsonable(lib):
    return G.to_json(lib)
def unjson(c):
    """replay file -> case"""
    lib = G.from_json(c["lib"]) if isinstance(c["lib"]["name"], str) else c["lib"]
    return {"fam": c.get("fam", "replay"), "lib": lib, "noflat": c.get("noflat"), "layers": c.get("layers")}

def evaluate(chk, cases, cfg, tag):
    """-> list of (code, agree, impl summary)"""
    for c in cases:
        if c.get("noflat") is None:
            fc = [x for x in flat_counts(c["lib"]) if x is not None]
            c["noflat"] = bool(fc and max(fc) > 1200)
    hc = [{"op": "import", "gds": jsonable(c["lib"]), "layers": c.get("layers"), "probe": probes_of(c["lib"], c.get("layers")), "noflat": c["noflat"]} for c in cases]
    t0 = time.time()
    res = harness("c06", hc, timeout=1500)
    chk.cov.setdefault("timing_s", {})["harness_" + tag] = round(time.time() - t0, 1)
    out = [None] * len(cases)
    items, idx = [], []
    for i, (c, r) in enumerate(zip(cases, res)):
        if "crash" in r or "harness_error" in r or "lib" not in r:
            out[i] = (2, 0, r)       # the process died (abort / stack overflow): neither an error nor a library
            continue
        if isinstance(r["lib"], dict) and "cells" in r["lib"] and not table_consistent(r["lib"]):
            out[i] = (1, 0, {"harness_glue": "layer table: num(purpose(n)) != n or keynum(num) is another slot", "layers": r["lib"]["layers"]})
            continue
        items.append(capp("c06_check", Raw(cfg), Raw(zl(probes_of(c["lib"], c.get("layers")))), Raw(clayers_obs(c["layers"]) if c.get("layers") else "[]"),
                          glib(c["lib"]), cimpl(r, c["noflat"])))
        idx.append(i)
    # balance the shards: sort by size, deal the items out round-robin (coq_eval_lists cuts consecutive chunks)
    by_size = sorted(range(len(items)), key=lambda k: -len(items[k]))
    nsh = max(1, min(NCPU * 2, -(-len(items) // 8)))
    shard = -(-len(items) // nsh)
    order = [by_size[j] for sh in range(nsh) for j in range(sh, len(by_size), nsh)]
    t0 = time.time()
    strs = coq_eval_lists(HDR, [items[k] for k in order], chk.rundir, tag, shard=shard, timeout=2400)
    chk.cov["timing_s"]["coq_" + tag] = round(time.time() - t0, 1)
    for k, s in zip(order, strs):
        v = parse_z(s)
        r = res[idx[k]]
        out[idx[k]] = (v // 10, v % 10, summarize(r))
    return out

def summarize(r):
    lib = r.get("lib")
    if isinstance(lib, dict) and "cells" in lib:
        return {"ok": {"cells": [(c["name"], None if c["layout"] is None else {"insts": len(c["layout"]["insts"]), "elems": len(c["layout"]["elems"]), "annots": len(c["layout"]["annots"])}) for c in lib["cells"]]}}
    return lib

def impl_detail(r, limit=1200):
    s = json.dumps(r)
    return r if len(s) <= limit else s[:limit] + "..."

def run(chk, replay=None):
    t0 = time.time()
    chk.proof_leg(MODEL_TARGETS, "Properties/C06.v", PROOF_FILES + ["Raw/RawFlatten_proofs.v"], "Properties.C06")
    kernel_tie_leg(chk, "transform")
    kernel_tie_leg(chk, "contains")       # the label pass calls Polygon/Rect/Path::contains
    kernel_tie_leg(chk, "raw_gds")       # GdsImporter::import_boundary generated from the source = the model (Properties/KernelsRaw2.v)
    kernel_tie_leg(chk, "raw_gdsi")      # import_point / import_box / import_path / import_instance generated from the source = the model (Properties/KernelsRawGdsImport.v)
    chk.cov.setdefault("timing_s", {})["proof_leg"] = round(time.time() - t0, 1)
    chk.assumptions += [
        "isize/usize are 64 bit; the harness is built with overflow checks (an integer overflow is a panic)",
        "GDSII struct names are pairwise distinct (GdsDepOrder keys its sets by name, the model by struct index); label strings are ASCII (`to_lowercase` is modelled on ASCII)",
        "Layout::flatten is modelled exactly (K = Z) at right angles; that the f64 code computes these values is C12's subject and is re-checked on every case here",
        "sin/cos of the array pitch rotation (code as found) come from the generated libm table (right angles); other angles there are outside the model",
        "HashMaps of the importer are only looked up, never iterated; slot maps without removals iterate in insertion order",
        "error kinds and the error-context stack are not compared (class only); `println!` warnings are not modelled",
    ]
    if not getattr(chk, "model_ok", False):
        return
    pr = harness("c06", [{"op": "probe"}])[0]
    cfg, flags = model_cfg(pr.get("contains_fixed"))
    chk.cov["model_variant"] = {"cfg": cfg, "flags": flags, "probe": pr}
    for p in MODEL_CFG_PROBLEMS:
        chk.broken.append("model/source tie C06: " + p)
    if not pr.get("from_instance_fixed", False):
        chk.notes.append("Transform::from_instance is the unrepaired variant in this tree: reflected+rotated placements will fail (C12)")
    if replay:
        obj = json.load(open(replay))["replay"]
        cases = [unjson(c) for c in obj.get("cases", [])]
    else:
        t0 = time.time()
        cases = gen_cases(chk)
        chk.cov["timing_s"]["generate"] = round(time.time() - t0, 1)
    dist = {}
    for c in cases:
        dist[c["fam"]] = dist.get(c["fam"], 0) + 1
    chk.cov["input_distribution"] = dist
    chk.cov["rule"] = ("GDSII libraries built in the harness from generated structures: acyclic hierarchies of depth 1-4 (1-2 cells per level, listing order shuffled, "
                       "references to any lower level), SREFs in all eight orientations (angles 0, +-90, +-180, +-270, 360, none; reflected or not; MAG absent or 1), "
                       "AREFs with (cols, rows) from {1,2,3,7} and the large ones 181x182, 200x200, 1x32767, 2x16384, ... with XY axis-parallel, rotated with the angle "
                       "(GDSII convention) or skew; rectangles in both windings and four start corners, polygons (L, U, C, triangles, octagon, collinear and pass-through vertices), "
                       "Manhattan and diagonal paths of widths 0-10, negative and absent, boxes, nodes, texts at vertices / on edges / in the bounding box / far away, "
                       "on the shape's layer or another; malformed families: dangling, cyclic, rows/cols <= 0, empty XY, absolute flags, MAG != 1; non-right angles; "
                       "extreme coordinates; units. A case is non-trivial when it has at least one shape or reference; distinct by full library content")
    res = evaluate(chk, cases, cfg, "c06")
    chk.cov["evaluations"] = len(cases)
    chk.cov["distinct_nontrivial"] = len({json.dumps(jsonable(c["lib"]), sort_keys=True) for c in cases
                                          if any(s["elems"] for s in c["lib"]["structs"])})
    chk.cov["traces_validated_against_impl"] = sum(1 for r in res if r[0] == 0)
    chk.cov["impl_outcomes"] = {"ok": sum(1 for r in res if isinstance(r[2], dict) and "ok" in r[2]),
                                "err": sum(1 for r in res if isinstance(r[2], dict) and "err" in r[2]),
                                "panic": sum(1 for r in res if isinstance(r[2], dict) and ("panic" in r[2] or "crash" in r[2]))}
    chk.cov["noflat_cases"] = sum(1 for c in cases if c.get("noflat"))
    step = max(1, len(cases) // 6)
    chk.add_samples([{"case": strip(c) if lib_size(c["lib"]) < 200 else {"fam": c["fam"], "size": lib_size(c["lib"])}, "impl": impl_detail(r[2]), "code": r[0], "model_agrees": r[1]}
                     for c, r in list(zip(cases, res))[::step]], k=6)
    mism = [(c, r) for c, r in zip(cases, res) if r[0] == 1]
    viol = [(c, r) for c, r in zip(cases, res) if r[0] == 2]
    chk.cov["correspondence_mismatches"] = len(mism)
    chk.cov["violations_predicted_by_model"] = "%d of %d" % (sum(1 for _, r in viol if r[1] == 1), len(viol))
    unpredicted = [(c, r) for c, r in viol if r[1] != 1]
    # classes: the defect-relevant features of the failing library; a case with one feature is attributed to it
    by_class = {}
    for c, r in viol:
        f = sorted(features(c["lib"], flags))
        cls = f[0] if len(f) == 1 else ("unclassified" if not f else "+".join(f))
        by_class.setdefault(cls, []).append((c, r))
    chk.cov["violations_by_class"] = {k: len(v) for k, v in sorted(by_class.items())}
    single = {k for k in by_class if "+" not in k}
    known = {k["class"]: k for k in load_known() if k.get("kind") == "finding" and k.get("property") == "C06"}
    for cls, lst in sorted(by_class.items()):
        if "+" in cls and all(p in single for p in cls.split("+")):
            continue                     # explained by classes that are reported on their own
        lst.sort(key=lambda cr: lib_size(cr[0]["lib"]))
        c, r = lst[0]
        if cls in known and all(cr[1][1] == 1 for cr in lst):
            # a listed finding: every such case fails exactly as the model of the code as found predicts
            chk.known(known[cls], strip(c))
            continue
        chk.violation("from_gds/flatten [%s]: %s gives %s; the property demands %s (%d such cases of %d)" % (
                          cls, describe(c["lib"])[:700], json.dumps(r[2])[:300],
                          "an error or exactly the flattened GDSII geometry with no placement dropped", len(lst), len(cases)),
                      {"class": cls, "cases": [strip(c) for c, _ in lst[:12]], "impl": [r[2] for _, r in lst[:12]]}, suffix="-" + cls)
    if unpredicted:
        c, r = min(unpredicted, key=lambda cr: lib_size(cr[0]["lib"]))
        chk.broken.append("correspondence C06: %d violating case(s) on which the model does not predict the implementation, e.g. %s impl=%s" % (
            len(unpredicted), describe(c["lib"])[:500], json.dumps(r[2])[:300]))
    if mism:
        c, r = min(mism, key=lambda cr: lib_size(cr[0]["lib"]))
        chk.broken.append("correspondence C06: impl differs from model where the property holds or is silent (%d cases), e.g. %s impl=%s" % (
            len(mism), describe(c["lib"])[:500], json.dumps(r[2])[:300]))
