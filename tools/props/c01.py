"""C01: GDSII write-then-read returns the library written (or write errors).
Model Gds/GdsWrite.v + Gds/GdsRead.v, theorems Properties/C01.v, correspondence against
gds21::GdsLibrary::write / from_bytes on generated libraries."""
import json
from vlib import *
from props.kernelcommon import kernel_tie_leg
from props.gdscommon import *

HARNESS_BINS = ["c01"]
# lemma files whose Qed-closed obligations belong to this property (Properties/C01.v holds the theorems)
PROOF_FILES = ["Gds/GdsBytes_proofs.v", "Gds/GdsWrite_proofs.v", "Gds/GdsWFits_proofs.v", "Gds/GdsWTables_proofs.v", "Gds/GdsRtUnfold_proofs.v", "Gds/GdsRtRead_proofs.v", "Gds/GdsRoundtrip_proofs.v", "Gds/GdsRtSpec_proofs.v", "Gds/GdsRtStrip_proofs.v"]
CLASS_NUL = "gds-string-even-len-trailing-nul"

def gen_cases(chk):
    quick = chk.tier == "quick"
    g = Gen(chk.rng, allow_known=True, allow_empty=True, allow_out_of_range=True)
    cases = []
    for _ in range(320 if quick else 12000):
        cases.append({"kind": "random", "lib": g.lib()})
    for l in subset_libs(g, exhaustive=not quick, sample=6):
        cases.append({"kind": "subset", "lib": l})
    longs = long_libs(g)
    if quick:
        k = chk.seed % 3
        longs = [x for i, x in enumerate(longs) if i % 3 == k]
    for name, l in longs:
        g.note(name.rsplit("_", 1)[0])
        cases.append({"kind": name, "lib": l})
    # directed families (generator audit 2026-10-02): optional fields holding their default value, all STRANS flag
    # combinations, record lengths at the 256 / 32768 boundaries, the same name / element / attribute twice, white space and
    # control characters in strings, more than 1024 structs / elements
    for fam, name, l in directed_libs(chk.seed, quick):
        g.note(fam)
        cases.append({"kind": name, "lib": l})
    # the file-system entry points GdsLibrary::save / GdsLibrary::open (everything above goes through write(Vec) / from_bytes):
    # into a fresh file and over an older, longer file; small, larger than any I/O buffer, and one that fails to write
    full = base_lib(b"all", [{"name": b"cell", "dates": list(range(12)), "elems": [g.elem(k, force=set(OPT_FIELDS[k])) for k in KINDS]}])
    big = plain_elem("text"); big["string"] = b"b" * 65529 + b"e"
    toolong = plain_elem("text"); toolong["string"] = b"b" * 65531 + b"e"
    bigxy = plain_elem("boundary"); bigxy["xy"] = [1, -2] * 3000
    io_libs = [("file_io_full", full), ("file_io_empty", base_lib(b"")), ("file_io_long_text", one_elem_lib(big)),
               ("file_io_long_fail", base_lib(b"l", [{"name": b"c", "dates": [0] * 12, "elems": [plain_elem("box"), toolong]}])),
               ("file_io_long_xy", one_elem_lib(bigxy))]
    for _ in range(8 if quick else 200):
        l = g.lib()
        while in_class_even_nul(l):       # the known-finding class is judged in the plain families
            l = g.lib()
        io_libs.append(("file_io_random", l))
    for i, (name, l) in enumerate(io_libs):
        for old_len in (0, 200000):
            g.note("file_io_fresh" if old_len == 0 else "file_io_over_longer_file")
            cases.append({"kind": name, "lib": l, "io": {"old_len": old_len}})
    return spread_heavy(cases), g.dist

def evaluate(chk, libs, tag, check="c01_check", ios=None):
    """-> list of (code, impl result). ios[i] = None: GdsLibrary::write into a Vec and from_bytes; {"old_len": n}: GdsLibrary::save
    into a file (holding n bytes of older content) and GdsLibrary::open, judged by the same check on the bytes found in the file"""
    ios = ios or [None] * len(libs)
    res = harness("c01", [({"op": "write_read", "lib": to_json(l)} if io is None else {"op": "save_open", "lib": to_json(l), "old_len": io["old_len"]})
                          for l, io in zip(libs, ios)])
    items, idx = [], []
    out = [None] * len(libs)
    for i, (l, r) in enumerate(zip(libs, res)):
        if "w" not in r:
            out[i] = (2, r)        # process crash / harness error
            continue
        items.append(capp(check, to_coq(l), c_wres(r["w"]), c_rres(r.get("r"))))
        idx.append(i)
    codes = eval_codes(chk, items, tag, shard=32)
    for i, c in zip(idx, codes):
        r = res[i]
        # keep evidence small: drop the byte dump
        slim = {"w": ({"ok_len": len(r["w"]["ok"]) // 2} if "ok" in r["w"] else r["w"]), "eq": r.get("eq")}
        if "r" in r:
            slim["r"] = r["r"] if "ok" not in r["r"] else "ok"
        if ios[i] is not None:
            slim["io"] = ios[i]
        out[i] = (c, slim)
    return out

def classify(lib, impl):
    if isinstance(impl, dict) and isinstance(impl.get("r"), dict) and "panic" in impl["r"]:
        return "read-panic"
    if in_class_even_nul(lib):
        return CLASS_NUL
    return "other"

def run(chk, replay=None):
    chk.proof_leg(MODEL_TARGETS, "Properties/C01.v", PROOF_FILES, "Properties.C01")
    kernel_tie_leg(chk, "gds_write")      # trait Encode (library -> records) generated from gds21/src/write.rs = flatten_lib of the writer model (Properties/KernelsGdsCodec.v)
    kernel_tie_leg(chk, "gds_read")       # GdsReader::read_record_header / read_record_content / read_record generated from gds21/src/read.rs = read_header / read_content / read_record of the reader model (Properties/KernelsGdsCodec.v)
    kernel_tie_leg(chk, "gds_parse")      # GdsParser::parse_property / parse_strans generated from gds21/src/read.rs = the parser model (Properties/KernelsGdsCodec.v)
    kernel_tie_leg(chk, "gds_parse_e1")   # GdsParser::parse_boundary / parse_path / parse_node / parse_box = parse_elem of Gds/GdsRead.v, fuel for fuel
    kernel_tie_leg(chk, "gds_parse_e2")   # GdsParser::parse_struct_ref / parse_array_ref / parse_text_elem = parse_elem
    kernel_tie_leg(chk, "gds_parse_lib")  # GdsParser::parse_struct / parse_lib (+ the generated read_record) = parse_struct / parse_lib / read_lib_fuel
    chk.assumptions += [
        "GdsFloat64 codec as modelled in Gds/GdsReal.v (C15)",
        "writing into a Vec<u8> (no I/O errors); reading from a byte slice (GdsLibrary::from_bytes); family file_io: GdsLibrary::save / open on a scratch file of a working file system",
        "error values are compared by GdsError variant only",
    ]
    if not getattr(chk, "model_ok", False):
        return
    if replay:
        obj = json.load(open(replay))["replay"]
        ios = obj.get("ios") or [None] * len(obj.get("cases", []))
        cases = [{"kind": "replay", "lib": from_json(j), "io": io} for j, io in zip(obj.get("cases", []), ios)]
        dist = {}
    else:
        cases, dist = gen_cases(chk)
    libs = [c["lib"] for c in cases]
    results = evaluate(chk, libs, "c01", ios=[c.get("io") for c in cases])
    chk.cov["input_distribution"] = dist
    chk.cov["rule"] = ("libraries generated per DESIGN.md C01 (0-4 structs, 0-6 elements, seven kinds, optional fields 50% each or by enumerated subset, "
                       "properties 0-3, string/coordinate/real edge classes, payloads around the 65535-byte limit), directed libraries (optional fields at their default value, "
                       "STRANS flag combinations, record lengths at 256 / 32768, repeated names / elements / attributes, white space and control characters, more than 1024 items), "
                       "and libraries taken through GdsLibrary::save / open on a file (fresh, and over an older longer file); non-trivial = at least one element; distinct by JSON value")
    chk.cov["evaluations"] = len(cases)
    chk.cov["distinct_nontrivial"] = len({lib_key(l) for l in libs if any(s["elems"] for s in l["structs"])})
    chk.cov["traces_validated_against_impl"] = sum(1 for r in results if r[0] == 0)
    chk.add_samples([{"kind": c["kind"], "lib_size": lib_size(c["lib"]), "impl": r[1], "code": r[0]}
                     for c, r in list(zip(cases, results))[:: max(1, len(cases) // 5)]], k=5)
    mism = [(c, r) for c, r in zip(cases, results) if r[0] == 1]
    viol = [(c, r) for c, r in zip(cases, results) if r[0] == 2]
    chk.cov["correspondence_mismatches"] = len(mism)
    by_class = {}
    for c, r in viol:
        # a failure seen through save / open is kept apart (its replay carries the file-system parameters)
        by_class.setdefault(classify(c["lib"], r[1]) if c.get("io") is None else "file-io", []).append((c, r))
    chk.cov["violations_by_class"] = {k: len(v) for k, v in by_class.items()}
    for cls, vs in sorted(by_class.items()):
        vs.sort(key=lambda cr: lib_size(cr[0]["lib"]))
        c0, r0 = vs[0]
        io0 = c0.get("io")
        def still(cands, cls=cls, io0=io0):
            rs = evaluate(chk, cands, "c01shr", ios=[io0] * len(cands))
            return [rr[0] == 2 and (io0 is not None or classify(l, rr[1]) == cls) for l, rr in zip(cands, rs)]
        small = shrink(c0["lib"], still) if lib_size(c0["lib"]) < 5000 else c0["lib"]
        entry = known_entry(chk.pid, cls)
        if entry is not None and io0 is None and classify(small, r0[1]) == cls:
            chk.known(entry, small)
            chk.notes.append("known finding %s: %d cases, smallest %s" % (cls, len(vs), json.dumps(to_json(small))[:600]))
            continue
        sr = evaluate(chk, [small], "c01wit", ios=[io0])[0]
        chk.violation("GDSII write-then-read [%s]: %d of %d libraries fail; smallest: %s -> impl %s" %
                      (cls, len(vs), len(cases), json.dumps(to_json(small))[:700], json.dumps(sr[1])[:300]),
                      {"cases": [to_json(small)] + [to_json(c["lib"]) for c, _ in vs[:10] if lib_size(c["lib"]) < 5000],
                       "ios": [io0] + [c.get("io") for c, _ in vs[:10] if lib_size(c["lib"]) < 5000], "class": cls},
                      suffix="-" + cls)
    # (`not viol` until 2026-10-02: the known-finding cases are code 2 as well and occur in every run, so a correspondence
    # mismatch was only ever written to the notes; what counts is whether a violation has been REPORTED)
    if mism and not chk.violations:
        c, r = min(mism, key=lambda cr: lib_size(cr[0]["lib"]))
        chk.broken.append("correspondence C01: impl differs from model (property holds), e.g. %s impl=%s" %
                          (json.dumps(to_json(c["lib"]))[:500], json.dumps(r[1])[:200]))
    elif mism:
        chk.notes.append("%d correspondence mismatches besides the violations" % len(mism))
