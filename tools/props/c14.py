"""C14: raw <-> protobuf. Model Raw/RawProto.v, spec Raw/RawProtoSpec.v, theorems Properties/C14.v,
correspondence against layout21raw::Library::{to_proto, from_proto}."""
import copy, json, os, re, struct
from vlib import *
from props.kernelcommon import kernel_tie_leg

# ------------------------------------------------------------------ which exporter does the tree have
VARIANT_PROBLEMS = []
def _fn_body(src, name):
    i = src.find("fn %s(" % name)
    if i < 0:
        return None
    m = re.search(r"\n    (?:pub(?:\([a-z]+\))? )?fn |\n}\n", src[i + 3:])
    return src[i:i + 3 + m.start()] if m else src[i:]

def model_variant():
    """True = `ProtoExporter::export_instance` writes the instance's angle into rotation_clockwise_degrees (the repair of
    work/c14/fix-export-rotation.patch: model [to_proto]); False = it writes the constant 0 (the code as found: model
    [to_proto_orig]).  Read from the source text of the tree under test on every run.  When the text is neither, the tie
    between model and source is broken: the repaired model is used so that something is compared, and the run reports it."""
    src = open(os.path.join(REPO, "layout21raw/src/proto.rs"), encoding="utf8").read()
    body = _fn_body(src, "export_instance") or ""
    const0 = re.search(r"rotation_clockwise_degrees\s*:\s*0\s*,", body) is not None
    copied = (re.search(r"rotation_clockwise_degrees\s*,", body) is not None and "inst.angle" in body
              and "fract()" in body and "as i32" in body and "rem_euclid" not in body)
    if const0 and not copied:
        return False
    if copied and not const0:
        return True
    VARIANT_PROBLEMS.append("cannot tell which export_instance the tree has (neither `rotation_clockwise_degrees: 0` nor the angle copied with fract()/as i32)")
    return True

def raw_deporder_checked():
    """raw DepOrder carries the `pending` set (cycles are an error, not a stack overflow)"""
    src = open(os.path.join(REPO, "layout21raw/src/data.rs"), encoding="utf8").read()
    i = src.find("pub struct DepOrder")
    return i >= 0 and re.search(r"\bpending\s*:", src[i:src.find("}", i)]) is not None

PURPOSES = ["Drawing", "Pin", "Label", "Obstruction", "Outline"]

def f2b(x):
    return struct.unpack(">Q", struct.pack(">d", x))[0]

# ------------------------------------------------------------------ generators
def gen_layers(rng, full=True):
    """3 layers x (at least) 3 purposes; numbers distinct; one purpose per number and vice versa."""
    nums = rng.sample(range(0, 40), 3)
    out = []
    for i, n in enumerate(nums):
        pn = rng.sample(range(0, 10), 5)
        pairs = [[pn[0], "Drawing"], [pn[1], "Pin"], [pn[2], "Obstruction"]]
        c = rng.randrange(4)
        if c == 0:
            pairs.append([pn[3], {"Other": pn[3]}])
        elif c == 1:
            pairs.append([pn[3], {"Named": ["nm", pn[3]]}])
        elif c == 2:
            pairs.append([pn[3], "Label"])
        rng.shuffle(pairs)
        if not full and rng.random() < 0.5:
            pairs = [p for p in pairs if p[1] != rng.choice(["Pin", "Obstruction", "Drawing"])]
        out.append({"num": n, "name": rng.choice([None, "L%d" % i]), "pairs": pairs})
    return out

def gen_pt(rng, big=False):
    if big:
        return [rng.choice([-(1 << 63), (1 << 63) - 1, -(1 << 62), 1 << 62, 0, 5]), rng.randrange(-50, 50)]
    return [rng.randrange(-60, 60), rng.randrange(-60, 60)]

def gen_shape(rng, big=False):
    k = rng.randrange(3)
    if k == 0:
        return {"R": [gen_pt(rng, big), gen_pt(rng, big)]}
    if k == 1:
        return {"G": [gen_pt(rng) for _ in range(rng.randrange(3, 6))]}
    return {"P": [[gen_pt(rng) for _ in range(rng.randrange(2, 5))], rng.choice([0, 1, 2, 10, 10, 4, (1 << 63) + 5 if big else 3])]}

ANGLES = [None, 0.0, 90.0, 180.0, 270.0]
ODD_ANGLES = [-0.0, 360.0, 450.0, -90.0, 45.0, 0.5, 1e300, float("inf"), float("-inf"), float("nan"), 720.0, -270.0, 33.0, -1.0, 1.0,
              2147483647.0, 2147483648.0, -2147483648.0, -2147483649.0, 2147483647.5, 4294967296.0, -0.5, 5e-324, 1e15, 123456789.0]

def gen_raw_case(rng, kind):
    layers = gen_layers(rng, full=(kind != "unnumbered"))
    ncell = rng.randrange(1, 6)
    topo = list(range(ncell))
    rng.shuffle(topo)          # topo[r] = listing index of the cell of rank r; a cell may use lower ranks
    rank = {c: r for r, c in enumerate(topo)}
    cells = []
    def gen_map(maxl):
        ks = rng.sample(range(3), rng.randrange(0 if maxl == 0 else 1, 4)) if maxl else rng.sample(range(3), rng.randrange(0, 4))
        return [[k, [gen_shape(rng) for _ in range(rng.randrange(1, 3))]] for k in ks]
    for ci in range(ncell):
        c = {"name": "c%d" % ci, "layout": None, "abs": None}
        has_layout = rng.random() < 0.85
        if has_layout:
            lower = [x for x in range(ncell) if rank[x] < rank[ci]]
            insts = []
            if lower:
                for k in range(rng.randrange(0, 4)):
                    a = rng.choice(ANGLES)
                    if kind == "oddangle" and rng.random() < 0.5:
                        a = rng.choice(ODD_ANGLES)
                    insts.append({"name": "i%d" % k, "cell": rng.choice(lower), "loc": gen_pt(rng),
                                  "reflect": rng.random() < 0.5, "angle": None if a is None else f2b(a)})
            elems = []
            for k in range(rng.randrange(0, 7)):
                lay = rng.randrange(3)
                pur = rng.choice(["Drawing", "Drawing", "Pin", "Obstruction"])
                if kind == "unnumbered" and rng.random() < 0.15:
                    pur = rng.choice(["Outline", {"Other": 77}])
                if kind == "badkey" and rng.random() < 0.2:
                    lay = 3
                net = rng.choice([None, None, "n0", "n1", "vdd"])
                if kind == "emptynet" and rng.random() < 0.4:
                    net = ""
                elems.append({"net": net, "layer": lay, "purpose": pur, "shape": gen_shape(rng, big=(kind == "big" and rng.random() < 0.3))})
            annots = [["t%d" % k, gen_pt(rng)] for k in range(rng.randrange(0, 3))]
            c["layout"] = {"name": rng.choice([c["name"], c["name"] + "_lay"]), "insts": insts, "elems": elems, "annots": annots}
        if rng.random() < (0.45 if has_layout else 0.9):
            ports = [{"net": "p%d" % k, "shapes": gen_map(1)} for k in range(rng.randrange(1, 4))]
            c["abs"] = {"name": c["name"], "outline": [[0, 0], [rng.randrange(1, 90), 0], [rng.randrange(1, 90), rng.randrange(1, 90)], [0, rng.randrange(1, 90)]],
                        "ports": ports, "blockages": gen_map(0)}
        cells.append(c)
    units = rng.choice(["Micro", "Nano", "Nano", "Angstrom"])
    if kind == "pico":
        units = "Pico"
    if kind == "dupname" and ncell > 1:
        cells[1]["name"] = cells[0]["name"]
    if kind == "cyclic":
        # a cell that reaches itself: an instance of a cell of the same or a higher rank
        users = [ci for ci in range(ncell) if cells[ci]["layout"] is not None]
        if users:
            ci = rng.choice(users)
            tgt = rng.choice([x for x in range(ncell) if rank[x] >= rank[ci]])
            if tgt != ci and cells[tgt]["layout"] is None:
                cells[tgt]["layout"] = {"name": cells[tgt]["name"], "insts": [], "elems": [], "annots": []}
            if tgt != ci:
                cells[tgt]["layout"]["insts"].append({"name": "back", "cell": ci, "loc": [0, 0], "reflect": False, "angle": None})
            cells[ci]["layout"]["insts"].insert(rng.randrange(len(cells[ci]["layout"]["insts"]) + 1),
                                                {"name": "cyc", "cell": tgt, "loc": [1, 2], "reflect": False, "angle": None})
    lib = {"name": rng.choice(["lib", "mylib", ""]), "units": units, "layers": layers, "cells": cells}
    return {"op": "raw", "kind": kind, "import_layers": rng.choice(["none", "same"]), "lib": lib}

def gen_pls(rng, layer, nets=True, canon=True):
    def net():
        return rng.choice(["", "", "n0", "n1"]) if nets else ""
    def ppt():
        return [rng.randrange(-60, 60), rng.randrange(-60, 60)]
    rects = [{"net": net(), "ll": ppt(), "w": rng.randrange(0, 30), "h": rng.randrange(0, 30)} for _ in range(rng.randrange(0, 3))]
    polys = [{"net": net(), "v": [ppt() for _ in range(rng.randrange(3, 6))]} for _ in range(rng.randrange(0, 3))]
    paths = [{"net": net(), "pts": [ppt() for _ in range(rng.randrange(2, 4))], "w": rng.randrange(0, 9)} for _ in range(rng.randrange(0, 2))]
    if canon and not (rects or polys or paths):
        polys = [{"net": net(), "v": [ppt(), ppt(), ppt()]}]
    return {"layer": layer, "rects": rects, "polys": polys, "paths": paths}

def lookup_pnum(layers, num, purpose):
    for l in layers or []:
        if l["num"] == num:
            for n, p in l["pairs"]:
                if p == purpose:
                    return n
    return None

ROTS = [0, 0, 0, 90, 180, 270, 45, 359, 1, 360, 450, -90, -1, 720, 2147483647, -2147483648, -270, 123456789]

def gen_proto_case(rng, kind):
    """kind 'canon': canonical w.r.t. the layers handed to the importer; other kinds break one clause."""
    layers = gen_layers(rng) if (kind == "canon_layers" or rng.random() < 0.6) else None
    if kind == "canon_nolayers":
        layers = None
    canon = kind.startswith("canon")
    ncell = rng.randrange(1, 6)
    cells = []
    names = []
    for ci in range(ncell):
        name = "c%d" % ci
        c = {"name": name, "circuit": False, "abs": None, "layout": None}
        if rng.random() < 0.85:
            insts = []
            if names:
                for k in range(rng.randrange(0, 4)):
                    insts.append({"name": "i%d" % k, "cell": {"local": rng.choice(names)}, "origin": [rng.randrange(-90, 90), rng.randrange(-90, 90)],
                                  "reflect": rng.random() < 0.5, "rot": rng.choice(ROTS)})
            lps = []
            for _ in range(rng.randrange(0, 4)):
                lp = [rng.randrange(0, 40), rng.randrange(0, 10)]
                if lp not in lps:
                    lps.append(lp)
            shapes = [gen_pls(rng, lp) for lp in lps]
            annots = [{"s": "t%d" % k, "loc": [rng.randrange(-9, 9), rng.randrange(-9, 9)]} for k in range(rng.randrange(0, 3))]
            c["layout"] = {"name": rng.choice([name, name + "_l"]), "shapes": shapes, "insts": insts, "annots": annots}
        if rng.random() < 0.45 and (layers is not None or not canon or rng.random() < 0.3):
            def absmap(purpose, mn):
                out = []
                if layers is None:
                    if canon:
                        return out
                    nums = rng.sample(range(0, 40), rng.randrange(mn, 3))
                    return [gen_pls(rng, [n, rng.randrange(0, 10)], nets=False) for n in nums]
                for l in rng.sample(layers, rng.randrange(mn, 4)):
                    pn = lookup_pnum(layers, l["num"], purpose)
                    out.append(gen_pls(rng, [l["num"], pn], nets=False, canon=False))
                return out
            c["abs"] = {"name": name, "outline": {"net": "", "v": [[0, 0], [9, 0], [9, 9], [0, 9]]},
                        "ports": [{"net": "p%d" % k, "shapes": absmap("Pin", 1)} for k in range(rng.randrange(1, 4))],
                        "blockages": absmap("Obstruction", 0)}
        cells.append(c)
        names.append(name)
    plib = {"domain": rng.choice(["lib", "dom", ""]), "units": rng.choice([0, 1, 1, 2]), "author": False, "cells": cells}
    # break one clause
    lays = [c["layout"] for c in cells if c["layout"]]
    abss = [c["abs"] for c in cells if c["abs"]]
    allinsts = [i for l in lays for i in l["insts"]]
    allpls = [s for l in lays for s in l["shapes"]]
    abspls = [s for a in abss for s in (a["blockages"] + [x for p in a["ports"] for x in p["shapes"]])]
    if kind == "negrect" and allpls:
        s = rng.choice(allpls)
        s["rects"].append({"net": "", "ll": [3, 4], "w": rng.choice([-5, 7]), "h": rng.choice([-2, -9])})
    elif kind == "duplayer" and lays:
        l = rng.choice(lays)
        if l["shapes"]:
            l["shapes"].append(gen_pls(rng, list(rng.choice(l["shapes"])["layer"])))
    elif kind == "emptypls" and lays:
        rng.choice(lays)["shapes"].append({"layer": [41, 3], "rects": [], "polys": [], "paths": []})
    elif kind == "flags":
        if rng.random() < 0.5:
            plib["author"] = True
        else:
            rng.choice(cells)["circuit"] = True
    elif kind == "absnet" and abspls:
        s = rng.choice(abspls)
        s["polys"].append({"net": "x", "v": [[0, 0], [1, 0], [1, 1]]})
    elif kind == "abspurpose" and abspls:
        s = rng.choice(abspls)
        s["layer"] = [s["layer"][0], s["layer"][1] + 11]
    elif kind == "absdup" and abss:
        a = rng.choice(abss)
        p = rng.choice(a["ports"])
        if p["shapes"]:
            p["shapes"].append(gen_pls(rng, list(p["shapes"][0]["layer"]), nets=False))
    elif kind == "outlinenet" and abss:
        rng.choice(abss)["outline"]["net"] = "o"
    elif kind == "missing":
        c = rng.randrange(6)
        if c == 0 and allinsts:
            rng.choice(allinsts)["origin"] = None
        elif c == 1 and allinsts:
            rng.choice(allinsts)["cell"] = rng.choice([None, {"to": None}, {"ext": ["d", "c0"]}])
        elif c == 2 and allpls:
            rng.choice(allpls)["layer"] = None
        elif c == 3 and abspls:
            rng.choice(abspls)["layer"] = None
        elif c == 4 and abss:
            rng.choice(abss)["outline"] = None
        elif lays and any(l["annots"] for l in lays):
            rng.choice([l for l in lays if l["annots"]])["annots"][0]["loc"] = None
    elif kind == "range":
        c = rng.randrange(5)
        if c == 0 and allpls:
            rng.choice(allpls)["layer"] = [rng.choice([40000, -40000, 65541]), 1]
        elif c == 1 and abspls:
            rng.choice(abspls)["layer"][0] += 65536
        elif c == 2 and allpls:
            rng.choice(allpls)["paths"].append({"net": "", "pts": [[0, 0], [1, 1]], "w": -3})
        elif c == 3 and allpls:
            rng.choice(allpls)["rects"].append({"net": "", "ll": [(1 << 63) - 5, 0], "w": 10, "h": 1})
        else:
            plib["units"] = rng.choice([3, -1, 7])
    elif kind == "order" and len(cells) > 1:
        # a forward or self reference
        l = next((c["layout"] for c in cells if c["layout"]), None)
        if l is not None:
            l["insts"].append({"name": "fwd", "cell": {"local": cells[-1]["name"]}, "origin": [0, 0], "reflect": False, "rot": 0})
    elif kind == "dupname" and len(cells) > 1:
        cells[1]["name"] = cells[0]["name"]
    return {"op": "proto", "kind": kind, "layers": layers, "plib": plib}

RAW_KINDS = [("plain", 56), ("oddangle", 12), ("unnumbered", 6), ("badkey", 3), ("emptynet", 4), ("big", 6), ("pico", 1), ("dupname", 2), ("cyclic", 3)]
PROTO_KINDS = [("canon_layers", 34), ("canon_nolayers", 12), ("negrect", 5), ("duplayer", 5), ("emptypls", 4), ("flags", 3),
               ("absnet", 4), ("abspurpose", 4), ("absdup", 4), ("outlinenet", 2), ("missing", 8), ("range", 6), ("order", 5), ("dupname", 3)]

def pick(rng, table):
    tot = sum(w for _, w in table)
    x = rng.randrange(tot)
    for k, w in table:
        if x < w:
            return k
        x -= w

# two cells, "b" places "a" reflected and rotated by 90 degrees (raw side: angle Some(90.0); message side: rotation 90)
FIXED_CASES = [
    {"op": "raw", "kind": "fixed", "import_layers": "none",
     "lib": {"name": "l", "units": "Nano", "layers": [],
             "cells": [{"name": "a", "layout": {"name": "a", "insts": [], "elems": [], "annots": []}, "abs": None},
                       {"name": "b", "layout": {"name": "b", "insts": [{"name": "i", "cell": 0, "loc": [3, 4], "reflect": True, "angle": f2b(90.0)}],
                                                "elems": [], "annots": []}, "abs": None}]}},
    {"op": "proto", "kind": "fixed", "layers": None,
     "plib": {"domain": "l", "units": 1, "author": False,
              "cells": [{"name": "a", "circuit": False, "abs": None, "layout": {"name": "a", "shapes": [], "insts": [], "annots": []}},
                        {"name": "b", "circuit": False, "abs": None,
                         "layout": {"name": "b", "shapes": [], "insts": [{"name": "i", "cell": {"local": "a"}, "origin": [3, 4], "reflect": True, "rot": 90}], "annots": []}}]}},
]

def audit_cases():
    """directed kinds added by the generator audit (2026-10-02): input classes the random kinds never reach (coordinates of points
    beyond +-90, registered Named/Other/Label purposes on elements, layer numbers at the i16 limits, abstracts without ports, empty
    shape lists, degenerate point lists, abstract names, empty libraries, deep and wide hierarchies, a rectangle without corner)."""
    out = []
    I = (1 << 63) - 1
    M = (1 << 31) - 1
    cl = lambda v: max(-I - 1, min(I, v))
    T0 = [{"num": 5, "name": None, "pairs": [[0, "Drawing"], [1, "Pin"], [2, "Obstruction"], [3, "Label"]]},
          {"num": 7, "name": "m2", "pairs": [[4, "Drawing"], [9, "Pin"], [6, "Obstruction"]]}]
    def lay(name, elems=None, insts=None, annots=None, lname=None):
        return {"name": name, "abs": None, "layout": {"name": lname or name, "insts": insts or [], "annots": annots or [], "elems": elems or []}}
    def el(shape, net=None, layer=0, purpose="Drawing"):
        return {"net": net, "layer": layer, "purpose": purpose, "shape": shape}
    def inst(cell, loc, reflect=False, angle=None, name="i"):
        return {"name": name, "cell": cell, "loc": list(loc), "reflect": reflect, "angle": None if angle is None else f2b(angle)}
    def raw(kind, cells, layers=None, units="Nano", name="lib"):
        for il in ("none", "same"):
            out.append({"op": "raw", "kind": kind, "import_layers": il,
                        "lib": {"name": name, "units": units, "layers": copy.deepcopy(T0 if layers is None else layers), "cells": copy.deepcopy(cells)}})
    # 1. points far from the origin on everything that goes through export_point / import_point
    for k, (a, b) in enumerate(((M, -M - 1), (1 << 40, -(1 << 40) - 3), (I, -I - 1), (-I - 1, I), ((1 << 53) + 1, -(1 << 62)))):
        cells = [lay("leaf", [el({"G": [[a, b], [cl(a - 7), cl(b + 9)], [0, 0]]}, "n"), el({"P": [[[a, 0], [a, b], [3, b]], 4]}, None, 1, "Pin"), el({"G": [[b, a], [0, 5], [a, a]]})],
                     annots=[["far", [a, b]], ["t", [b, a]]]),
                 lay("top", [], [inst(0, (a, b), True, 90.0), inst(0, (b, a), False, None, "j")])]
        cells[0]["abs"] = {"name": "leaf", "outline": [[a, b], [a, 0], [0, 0], [0, b]], "ports": [{"net": "p", "shapes": [[0, [{"G": [[a, b], [b, a], [1, 1]]}, {"P": [[[b, b], [a, b]], 0]}]]]}],
                           "blockages": [[1, [{"G": [[a, a], [b, b], [a, b]]}]]]}
        raw("aud_bigpoints", cells, units=["Micro", "Nano", "Angstrom"][k % 3])
    # 2. registered Label / Outline / Other / Named purposes on elements
    TP = [{"num": 7, "name": "m1", "pairs": [[0, "Drawing"], [1, "Label"], [2, "Pin"], [3, "Obstruction"], [4, "Outline"], [5, {"Other": 5}], [6, {"Named": ["fill", 6]}], [9, {"Named": ["Fill", 9]}]]},
          {"num": 8, "name": None, "pairs": [[20, "Label"], [0, {"Other": 0}], [-1, {"Named": ["", -1]}], [2, "Pin"], [3, "Obstruction"]]}]
    es = []
    for k, pu in enumerate(["Drawing", "Label", "Pin", "Obstruction", "Outline", {"Other": 5}, {"Named": ["fill", 6]}, {"Named": ["Fill", 9]}]):
        es.append(el({"R": [[10 * k, 0], [10 * k + 4, 2]]}, None if k % 2 else "n%d" % k, 0, pu))
    for k, pu in enumerate(["Label", {"Other": 0}, {"Named": ["", -1]}]):
        es.append(el({"G": [[10 * k, 30], [10 * k + 5, 30], [10 * k + 2, 38]]}, "P%d" % k, 1, pu))
        es.append(el({"P": [[[10 * k, 50], [10 * k + 6, 50]], 2]}, None, 1, pu))
    raw("aud_purpose_kinds", [lay("c0", es), lay("top", list(reversed(es)), [inst(0, (1, 2))])], layers=TP)
    # 3. layer and purpose numbers at the i16 limits and negative (raw side: in range by type)
    TE = [{"num": -32768, "name": None, "pairs": [[-32768, "Drawing"], [32767, "Pin"], [-1, "Obstruction"]]},
          {"num": 32767, "name": "top", "pairs": [[32767, "Drawing"], [-32768, "Pin"], [0, "Obstruction"]]},
          {"num": -1, "name": None, "pairs": [[-1, "Pin"], [-2, "Drawing"], [5, "Obstruction"]]}]
    es = [el({"R": [[0, 0], [4, 2]]}, "a", 0, "Drawing"), el({"R": [[10, 0], [14, 2]]}, None, 0, "Pin"), el({"R": [[20, 0], [24, 2]]}, "b", 1, "Drawing"), el({"R": [[30, 0], [34, 2]]}, "c", 1, "Pin"),
          el({"P": [[[0, 10], [8, 10], [8, 20]], 3]}, "d", 2, "Drawing"), el({"G": [[40, 0], [46, 0], [43, 5]]}, "e", 2, "Obstruction"), el({"R": [[0, 0], [1, 1]]}, None, 0, "Obstruction")]
    c0 = lay("c0", es)
    c0["abs"] = {"name": "c0", "outline": [[0, 0], [9, 0], [9, 9], [0, 9]], "ports": [{"net": "p", "shapes": [[0, [{"R": [[1, 1], [2, 2]]}]], [1, [{"R": [[3, 3], [4, 4]]}]], [2, [{"R": [[5, 5], [6, 6]]}]]]}],
                 "blockages": [[2, [{"R": [[0, 0], [9, 1]]}]], [0, [{"R": [[0, 8], [9, 9]]}]]]}
    raw("aud_layer_numbers_edge", [c0], layers=TE)
    # 4. abstracts: no ports, a port without layers, a layer with an empty shape list, an outline with 0 / 1 / 8 points, the abstract named
    #    differently from its cell, the same net on two ports
    def ab(name, outline, ports, blockages=None):
        return {"name": name, "outline": outline, "ports": ports, "blockages": blockages or []}
    sq = [[0, 0], [9, 0], [9, 9], [0, 9]]
    raw("aud_abstract_shapes", [{"name": "a", "layout": None, "abs": ab("a", sq, [])},
                                {"name": "b", "layout": None, "abs": ab("b", sq, [{"net": "p", "shapes": []}, {"net": "q", "shapes": [[0, []]]}], [[1, []]])},
                                {"name": "c", "layout": None, "abs": ab("c", [], [{"net": "p", "shapes": [[0, [{"R": [[1, 1], [2, 2]]}]]]}])},
                                {"name": "d", "layout": None, "abs": ab("d", [[3, 3]], [{"net": "p", "shapes": [[1, [{"R": [[1, 1], [2, 2]]}]]]}, {"net": "p", "shapes": [[1, [{"R": [[5, 5], [6, 6]]}]]]}])},
                                {"name": "e", "layout": None, "abs": ab("e", [[0, 0], [4, 0], [4, 2], [8, 2], [8, 8], [2, 8], [2, 4], [0, 4]], [{"net": "", "shapes": [[0, [{"P": [[[1, 1], [3, 1]], 1]}]]]}])}])
    both = lay("cellname", [el({"R": [[0, 0], [4, 2]]}, "n")], lname="layoutname")
    both["abs"] = ab("abstractname", sq, [{"net": "p", "shapes": [[0, [{"R": [[1, 1], [2, 2]]}]]]}])
    raw("aud_abstract_name", [both, {"name": "only_abs", "layout": None, "abs": ab("other_name", sq, [])}, lay("top", [], [inst(0, (0, 0)), inst(1, (5, 5), True)])])
    # 5. degenerate point lists and strings
    raw("aud_degenerate_shapes", [lay("c0", [el({"G": []}, "a"), el({"G": [[1, 1]]}), el({"G": [[0, 0], [4, 4]]}, "b"), el({"P": [[], 2]}), el({"P": [[[1, 1]], 0]}, "c"), el({"R": [[3, 3], [3, 3]]}, "d"),
                                              el({"G": [[0, 0], [2, 0], [2, 0], [0, 0]]}), el({"P": [[[0, 0], [0, 0]], 4]})], annots=[["", [0, 0]], ["two words", [1, 1]], ["ä中", [2, 2]]])])
    raw("aud_strings", [lay("Cell ä", [el({"R": [[0, 0], [4, 2]]}, "Nét"), el({"R": [[10, 0], [14, 2]]}, " "), el({"R": [[20, 0], [24, 2]]}, "x" * 300), el({"R": [[30, 0], [34, 2]]}, "VDD"), el({"R": [[40, 0], [44, 2]]}, "vdd")]),
                        lay("cell ä", [el({"R": [[0, 0], [1, 1]]})]), lay("top", [], [inst(0, (0, 0), name=""), inst(1, (9, 9), name="i"), inst(0, (5, 5), name="i"), inst(1, (7, 7), name="ä b")])], name="Lib ä")
    # 6. no cells at all; one cell without views
    raw("aud_empty_lib", [])
    raw("aud_empty_lib", [{"name": "ghost", "layout": None, "abs": None}], name="")
    # 7. a chain of 12 cells listed top first, and a cell with 150 instances and 150 elements
    cells = [lay("n0", [el({"R": [[0, 0], [4, 2]]}, "x")])]
    for k in range(1, 12):
        cells.append(lay("n%d" % k, [el({"R": [[k, -k], [k + 4, 2 - k]]}, "z%d" % k)], [inst(k - 1, (3 * k, -2 * k), k % 3 == 0, [None, 90.0, 180.0, 270.0, 0.0][k % 5])]))
    rev = [dict(c, layout=dict(c["layout"], insts=[dict(i, cell=11 - i["cell"]) for i in c["layout"]["insts"]])) for c in reversed(cells)]
    raw("aud_deep_chain", rev)
    raw("aud_wide_cell", [lay("top", [el({"R": [[7 * k, 100], [7 * k + 4, 102 + k % 3]]}, ("w%d" % k) if k % 2 else None, k % 2, ["Drawing", "Pin"][k % 2]) for k in range(150)],
                              [inst(1, (7 * k, -50 - k), k % 2 == 0, [None, 90.0, 180.0, 270.0][k % 4], "i%d" % k) for k in range(150)]), lay("leaf", [el({"R": [[0, 0], [4, 2]]}, "n")])])
    # ---- message side
    def pcell(name, layout=None, abs_=None):
        return {"name": name, "circuit": False, "abs": abs_, "layout": layout}
    def playout(name, shapes=None, insts=None, annots=None):
        return {"name": name, "shapes": shapes or [], "insts": insts or [], "annots": annots or []}
    def pinst(cell, origin, reflect=False, rot=0, name="i"):
        return {"name": name, "cell": {"local": cell}, "origin": list(origin), "reflect": reflect, "rot": rot}
    def pls(layer, rects=None, polys=None, paths=None):
        return {"layer": layer, "rects": rects or [], "polys": polys or [], "paths": paths or []}
    def proto(kind, cells, layers=None, units=1, domain="lib"):
        out.append({"op": "proto", "kind": kind, "layers": copy.deepcopy(layers), "plib": {"domain": domain, "units": units, "author": False, "cells": copy.deepcopy(cells)}})
    TL = [{"num": 5, "name": None, "pairs": [[0, "Drawing"], [1, "Pin"], [2, "Obstruction"]]}, {"num": 7, "name": "m2", "pairs": [[4, "Drawing"], [9, "Pin"], [6, "Obstruction"]]}]
    for k, (a, b) in enumerate(((M, -M - 1), (1 << 40, -(1 << 40) - 3), (I, -I - 1), (-I - 1, I), ((1 << 53) + 1, -(1 << 62)))):
        shapes = [pls([5, 0], rects=[{"net": "", "ll": [b, b], "w": 0, "h": 7}], polys=[{"net": "n", "v": [[a, b], [cl(a - 7), cl(b + 9)], [0, 0]]}], paths=[{"net": "", "pts": [[a, 0], [a, b], [3, b]], "w": 4}])]
        pa = {"name": "leaf", "outline": {"net": "", "v": [[a, b], [a, 0], [0, 0], [0, b]]}, "ports": [{"net": "p", "shapes": [pls([5, 1], polys=[{"net": "", "v": [[a, b], [b, a], [1, 1]]}])]}],
              "blockages": [pls([7, 6], paths=[{"net": "", "pts": [[b, b], [a, b]], "w": 0}])]}
        for ly in (TL, None):
            proto("aud_bigpoints", [pcell("leaf", playout("leaf", shapes, annots=[{"s": "far", "loc": [a, b]}]), pa if ly else None),
                                    pcell("top", playout("top", insts=[pinst("leaf", (a, b), True, 90), pinst("leaf", (b, a), False, 0, "j")]))], layers=ly, units=k % 3)
    # a rectangle without its corner; empty vertex / point lists; the limits of the layer numbers
    proto("aud_rect_no_corner", [pcell("c", playout("c", [pls([5, 0], rects=[{"net": "", "ll": [0, 0], "w": 1, "h": 1}, {"net": "", "ll": None, "w": 1, "h": 1}])]))], layers=TL)
    proto("aud_rect_no_corner", [pcell("c", None, {"name": "c", "outline": {"net": "", "v": [[0, 0], [9, 0], [9, 9]]}, "ports": [{"net": "p", "shapes": [pls([5, 1], rects=[{"net": "", "ll": None, "w": 1, "h": 1}])]}], "blockages": []})], layers=TL)
    proto("aud_degenerate_shapes", [pcell("c", playout("c", [pls([5, 0], polys=[{"net": "", "v": []}, {"net": "a", "v": [[1, 1]]}, {"net": "", "v": [[0, 0], [4, 4]]}], paths=[{"net": "", "pts": [], "w": 2}, {"net": "b", "pts": [[1, 1]], "w": 0}]),
                                                             pls([7, 4], rects=[{"net": "", "ll": [3, 3], "w": 0, "h": 0}])], annots=[{"s": "", "loc": [0, 0]}]),
                                          {"name": "c", "outline": {"net": "", "v": []}, "ports": [], "blockages": []})], layers=TL)
    for num, pur in ((32767, 32767), (-32768, -32768), (32768, 0), (-32769, 0), (0, 32768), (0, -32769), (-1, -1), (I, 0), (0, -I - 1)):
        proto("aud_layer_numbers_edge", [pcell("c", playout("c", [pls([num, pur], rects=[{"net": "", "ll": [0, 0], "w": 1, "h": 1}])]))])
    # abstracts: no ports, a port without shapes, two blockage groups on one layer, the abstract named differently from its cell
    sqp = {"net": "", "v": [[0, 0], [9, 0], [9, 9], [0, 9]]}
    r1 = [{"net": "", "ll": [1, 1], "w": 1, "h": 1}]
    proto("aud_abstract_shapes", [pcell("a", None, {"name": "a", "outline": sqp, "ports": [], "blockages": []}),
                                  pcell("b", None, {"name": "b", "outline": sqp, "ports": [{"net": "p", "shapes": []}, {"net": "q", "shapes": [pls([5, 1], rects=r1)]}], "blockages": [pls([5, 2], rects=r1), pls([7, 6], rects=r1)]}),
                                  pcell("top", playout("top", insts=[pinst("a", (0, 0)), pinst("b", (1, 1), True, 180)]))], layers=TL)
    proto("aud_abstract_shapes", [pcell("b", None, {"name": "b", "outline": sqp, "ports": [{"net": "p", "shapes": [pls([5, 1], rects=r1)]}], "blockages": [pls([5, 2], rects=r1), pls([5, 2], polys=[{"net": "", "v": [[0, 0], [1, 0], [1, 1]]}])]})], layers=TL)
    proto("aud_abstract_name", [pcell("cellname", playout("layoutname", [pls([5, 0], rects=r1)]), {"name": "abstractname", "outline": sqp, "ports": [{"net": "p", "shapes": [pls([5, 1], rects=r1)]}], "blockages": []}),
                                pcell("only_abs", None, {"name": "other_name", "outline": sqp, "ports": [], "blockages": []}),
                                pcell("top", playout("top", insts=[pinst("cellname", (0, 0)), pinst("only_abs", (5, 5), True)]))], layers=TL)
    proto("aud_empty_lib", [])
    proto("aud_empty_lib", [], units=0, domain="")
    proto("aud_empty_lib", [pcell("ghost")], units=2)
    pc = [pcell("n0", playout("n0", [pls([5, 0], rects=r1)]))]
    for k in range(1, 12):
        pc.append(pcell("n%d" % k, playout("n%d" % k, [pls([5, 0], rects=[{"net": "z%d" % k, "ll": [k, -k], "w": 4, "h": 2}])], [pinst("n%d" % (k - 1), (3 * k, -2 * k), k % 3 == 0, [0, 90, 180, 270, -90][k % 5])])))
    proto("aud_deep_chain", pc, layers=TL)
    proto("aud_wide_cell", [pcell("leaf", playout("leaf", [pls([5, 0], rects=r1)])),
                            pcell("top", playout("top", [pls([5, 0], rects=[{"net": ("w%d" % k) if k % 2 else "", "ll": [7 * k, 100], "w": 4, "h": 2 + k % 3} for k in range(150)])],
                                                 [pinst("leaf", (7 * k, -50 - k), k % 2 == 0, [0, 90, 180, 270][k % 4], "i%d" % k) for k in range(150)]))], layers=TL)
    proto("aud_strings", [pcell("Cell ä", playout("Cell ä", [pls([5, 0], rects=[{"net": "Nét", "ll": [0, 0], "w": 1, "h": 1}, {"net": " ", "ll": [5, 0], "w": 1, "h": 1}, {"net": "x" * 300, "ll": [9, 0], "w": 1, "h": 1}])], annots=[{"s": "ä中", "loc": [2, 2]}])),
                          pcell("top", playout("top", insts=[pinst("Cell ä", (0, 0), name=""), pinst("Cell ä", (1, 1), name="ä b")]))], layers=TL, domain="Lib ä")
    return out

def gen_cases(chk):
    rng = chk.rng
    quick = chk.tier == "quick"
    nraw = 900 if quick else 20000
    npro = 700 if quick else 15000
    cases = list(FIXED_CASES) + audit_cases()          # minimal regression cases and the directed kinds, always run first
    raw_kinds = RAW_KINDS if raw_deporder_checked() else [k for k in RAW_KINDS if k[0] != "cyclic"]   # without the pending set a cycle overflows the stack (C17)
    for _ in range(nraw):
        cases.append(gen_raw_case(rng, pick(rng, raw_kinds)))
    for _ in range(npro):
        cases.append(gen_proto_case(rng, pick(rng, PROTO_KINDS)))
    return cases

# ------------------------------------------------------------------ Coq terms
def cs(s):
    return Raw('"%s"%%string' % s.replace('"', '""'))
def cpt(p):
    return capp("mkpt", cz(p[0]), cz(p[1]))
def cpurpose(p):
    if isinstance(p, str):
        return Raw(p)
    if "Other" in p:
        return capp("Other", cz(p["Other"]))
    return capp("Named", cs(p["Named"][0]), cz(p["Named"][1]))
def cshape(s):
    if "R" in s:
        return capp("Rect", cpt(s["R"][0]), cpt(s["R"][1]))
    if "G" in s:
        return capp("Polygon", clist([cpt(p) for p in s["G"]]))
    return capp("Path", clist([cpt(p) for p in s["P"][0]]), cz(s["P"][1]))
def clayers(ls):
    return clist([capp("mklayer", cz(l["num"]), copt(None if l["name"] is None else cs(l["name"])),
                       clist([ctup(cz(p[0]), cpurpose(p[1])) for p in l["pairs"]])) for l in ls])
def cshapemap(m):
    return clist([ctup(cnat(e[0]), clist([cshape(s) for s in e[1]])) for e in m])
def clib(lib, layers_term=None):
    cells = []
    for c in lib["cells"]:
        if c["layout"] is None:
            lay = copt(None)
        else:
            l = c["layout"]
            lay = copt(capp("mklayout", cs(l["name"]),
                            clist([capp("mkinst", cs(i["name"]), cnat(i["cell"]), cpt(i["loc"]), cbool(i["reflect"]),
                                        copt(None if i["angle"] is None else cz(i["angle"]))) for i in l["insts"]]),
                            clist([capp("mkelem", copt(None if e["net"] is None else cs(e["net"])), cnat(e["layer"]),
                                        cpurpose(e["purpose"]), cshape(e["shape"])) for e in l["elems"]]),
                            clist([capp("mktext", cs(a[0]), cpt(a[1])) for a in l["annots"]])))
        if c["abs"] is None:
            ab = copt(None)
        else:
            a = c["abs"]
            ab = copt(capp("mkabstract", cs(a["name"]), clist([cpt(p) for p in a["outline"]]),
                           clist([capp("mkabsport", cs(p["net"]), cshapemap(p["shapes"])) for p in a["ports"]]),
                           cshapemap(a["blockages"])))
        cells.append(capp("mkcell", cs(c["name"]), ab, lay))
    return capp("mklib", cs(lib["name"]), Raw(lib["units"]), layers_term if layers_term is not None else clayers(lib["layers"]), clist(cells))
def cppt(p):
    return copt(None if p is None else capp("mkpp", cz(p[0]), cz(p[1])))
def cppts(v):
    return clist([capp("mkpp", cz(p[0]), cz(p[1])) for p in v])
def cppoly(g):
    return capp("mkppoly", cs(g["net"]), cppts(g["v"]))
def cpls(l):
    return capp("mkpls", copt(None if l["layer"] is None else capp("mkplayer", cz(l["layer"][0]), cz(l["layer"][1]))),
                clist([capp("mkprect", cs(r["net"]), cppt(r["ll"]), cz(r["w"]), cz(r["h"])) for r in l["rects"]]),
                clist([cppoly(g) for g in l["polys"]]),
                clist([capp("mkppath", cs(p["net"]), cppts(p["pts"]), cz(p["w"])) for p in l["paths"]]))
def cplib(P):
    cells = []
    for c in P["cells"]:
        if c["abs"] is None:
            ab = copt(None)
        else:
            a = c["abs"]
            ab = copt(capp("mkpabstract", cs(a["name"]), copt(None if a["outline"] is None else cppoly(a["outline"])),
                           clist([capp("mkpabsport", cs(p["net"]), clist([cpls(x) for x in p["shapes"]])) for p in a["ports"]]),
                           clist([cpls(x) for x in a["blockages"]])))
        if c["layout"] is None:
            lay = copt(None)
        else:
            l = c["layout"]
            def cref(r):
                if r is None:
                    return copt(None)
                if "local" in r:
                    return copt(copt(capp("RefLocal", cs(r["local"]))))
                if "ext" in r:
                    return copt(copt(capp("RefExternal", cs(r["ext"][0]), cs(r["ext"][1]))))
                return copt(copt(None))
            lay = copt(capp("mkplayout", cs(l["name"]), clist([cpls(x) for x in l["shapes"]]),
                            clist([capp("mkpinst", cs(i["name"]), cref(i["cell"]), cppt(i["origin"]), cbool(i["reflect"]), cz(i["rot"])) for i in l["insts"]]),
                            clist([capp("mkptext", cs(t["s"]), cppt(t["loc"])) for t in l["annots"]])))
        cells.append(capp("mkpcell", cs(c["name"]), cbool(c["circuit"]), ab, lay))
    return capp("mkplib", cs(P["domain"]), cz(P["units"]), clist(cells), cbool(P["author"]))
def layers_from_obs(obs):
    """the impl's table as observed: pairs (n, purpose) for the probed numbers"""
    return [{"num": l["num"], "name": l["name"], "pairs": [[p[0], p[1]] for p in l["pairs"]]} for l in obs]
def cires(v, conv):
    if v is None:
        return Raw("INotRun")
    if isinstance(v, dict) and "err" in v and len(v) == 1:
        return Raw("IErr")
    if isinstance(v, dict) and "panic" in v and len(v) == 1:
        return Raw("IPanic")
    return capp("IOk", conv(v))
def craw_out(v):
    return clib(v, clayers(layers_from_obs(v["layers"])))

def table_consistent(v):
    """every observed (n, p) has num(p) == n and keynum(num) is the slot itself"""
    if not isinstance(v, dict) or "layers" not in v:
        return True
    return all(l["keynum"] is True and all(p[2] == p[0] for p in l["pairs"]) for l in v["layers"])

def probes_of(case):
    s = set(range(-1, 13))
    def walk(x):
        if isinstance(x, dict):
            if "layer" in x and isinstance(x["layer"], list):
                for v in x["layer"]:
                    if -32768 <= v < 32768:
                        s.add(v)
            for v in x.values():
                walk(v)
        elif isinstance(x, list):
            for v in x:
                walk(v)
    walk(case.get("plib"))
    for l in (case.get("layers") or []) + ((case.get("lib") or {}).get("layers") or []):
        for p in l["pairs"]:
            s.add(p[0])
    return sorted(s)

def coq_item(c, r, rep):
    pr = clist([cz(x) for x in c["probe"]])
    rep = cbool(rep)
    if c["op"] == "raw":
        ly0 = clayers(c["lib"]["layers"]) if c["import_layers"] == "same" else Raw("[]")
        return capp("c14_check_raw", rep, clib(c["lib"]), ly0, pr, cires(r.get("proto"), cplib), cires(r.get("raw"), craw_out))
    ly0 = clayers(c["layers"]) if c["layers"] is not None else Raw("[]")
    return capp("c14_check_proto", rep, cplib(c["plib"]), ly0, pr, cires(r.get("raw"), craw_out), cires(r.get("proto"), cplib))

HDR = ("From Coq Require Import ZArith List String.\nImport ListNotations.\n"
       "From L21 Require Import Raw.RawData Raw.RawProto Raw.RawProtoSpec Raw.RawProtoCheck.\nOpen Scope Z_scope.\n")

def evaluate(chk, cases, tag, rep):
    for c in cases:
        c["probe"] = probes_of(c)
    res = harness("c14", [{k: v for k, v in c.items() if k != "kind"} for c in cases])
    items, idx = [], []
    out = [None] * len(cases)
    for i, (c, r) in enumerate(zip(cases, res)):
        if "proto" not in r and "raw" not in r:
            out[i] = (3, r)      # crash / harness error
        elif not (table_consistent(r.get("raw"))):
            out[i] = (1, r)      # the impl's layer table answers inconsistently: cannot be reconstructed
        else:
            items.append(coq_item(c, r, rep))
            idx.append(i)
    codes = coq_eval_lists(HDR, items, chk.rundir, tag, shard=60)
    for i, s in zip(idx, codes):
        out[i] = (parse_z(s), res[i])
    return out

# ------------------------------------------------------------------ classification of violations
def int_deg(bits):
    """the whole number of degrees an angle stands for, if it is one that fits an i32"""
    x = struct.unpack(">d", struct.pack(">Q", bits))[0]
    if x != x or x in (float("inf"), float("-inf")) or x != int(x) or not (-2 ** 31 <= int(x) < 2 ** 31):
        return None
    return int(x)

def classify(c, r):
    """known-finding class of a violating case (None = unclassified)"""
    if c["op"] == "raw":
        degs = [int_deg(i["angle"]) for cell in c["lib"]["cells"] if cell["layout"] for i in cell["layout"]["insts"] if i["angle"] is not None]
        if any(d not in (None, 0) for d in degs):
            return "proto-instance-rotation-dropped"
    else:
        rots = [i["rot"] for cell in c["plib"]["cells"] if cell["layout"] for i in cell["layout"]["insts"]]
        if any(x != 0 for x in rots):
            return "proto-instance-rotation-dropped"
    return None

def nontrivial(c):
    if c["op"] == "raw":
        return any(cell["layout"] and (cell["layout"]["elems"] or cell["layout"]["insts"]) or cell["abs"] for cell in c["lib"]["cells"])
    return any(cell["layout"] and (cell["layout"]["shapes"] or cell["layout"]["insts"]) or cell["abs"] for cell in c["plib"]["cells"])

def run(chk, replay=None):
    chk.proof_leg(["Raw/RawProtoCheck.vo"], "Properties/C14.v",
                  ["Raw/RawProtoBase_proofs.v", "Raw/RawProtoImport_proofs.v", "Raw/RawProtoOrder_proofs.v", "Raw/RawProtoTotal_proofs.v",
                   "Raw/RawProtoExport_proofs.v", "Raw/RawProtoBack_proofs.v", "Raw/RawProto_proofs.v"], "Properties.C14")
    kernel_tie_leg(chk, "raw_proto")       # generated-from-source kernels = the model functions (Properties/KernelsRaw2.v)
    chk.assumptions += [
        "Ptr<Cell> targets are indices into the library's own cell list (libraries closed under instantiation); locks not modelled",
        "LayerKey = slot index (no layer is ever removed); Layers.nums/names and Layer.purps/nums are derived from the sequence of add / add_purpose calls",
        "isize = i64 (64-bit target); arithmetic overflow has debug-build semantics (panic)",
        "HashMap iteration order is an explicit oracle; theorem C14_raw_proto_raw holds for every oracle that permutes; the harness prints hash-ordered lists sorted by layer number",
        "instance angles: exact f64 semantics of fract() == 0.0, comparison with the i32 bounds, `as i32` on whole numbers in range, f64::from(i32); validated by the correspondence run (NaN, infinities, -0.0, 2^31, -2^31-1, subnormals generated)",
        "DepOrder::order/push is the C17 model order_checked (Order/DepOrderFixed.v), tied to the source by the C17 check; C14 re-reads that the struct carries `pending`",
        "prost structs are plain records; Cell.interface/module and Library.author are reduced to presence flags",
    ]
    if not getattr(chk, "model_ok", False):
        return
    if replay:
        obj = json.load(open(replay))["replay"]
        cases = obj.get("cases", [])
    else:
        cases = gen_cases(chk)
    dist = {}
    for c in cases:
        k = c["op"] + ":" + c.get("kind", "?")
        dist[k] = dist.get(k, 0) + 1
    chk.cov["input_distribution"] = dist
    chk.cov["rule"] = ("raw libraries built through the public API (cell DAGs in shuffled listing order, rects in both corner orders, polygons, paths, nets on/off, "
                       "3 layers x >=3 purposes, instances with reflection and angle in {None,0,90,180,270} plus odd angles (negative, >=360, fractional, NaN, infinite, around the i32 bounds), cyclic libraries, annotations, abstracts with 1-3 ports on 1-3 layers and blockages) "
                       "through to_proto then from_proto (fresh or same Layers); proto messages built directly (canonical w.r.t. the importer's Layers, and one-clause-broken variants) "
                       "through from_proto then to_proto; a case is non-trivial when some cell has shapes, instances or an abstract; distinct by JSON text")
    rep = model_variant()
    chk.cov["model_variant"] = ("export_instance copies the angle (repaired: to_proto)" if rep else "export_instance writes rotation 0 (as found: to_proto_orig)")
    if VARIANT_PROBLEMS:
        chk.broken.append("model/source tie: " + VARIANT_PROBLEMS[0])
    results = evaluate(chk, cases, "c14", rep)
    chk.cov["evaluations"] = len(cases)
    chk.cov["distinct_nontrivial"] = len({json.dumps({k: v for k, v in c.items() if k != "probe"}, sort_keys=True) for c in cases if nontrivial(c)})
    chk.cov["traces_validated_against_impl"] = sum(1 for r in results if r[0] == 0)
    chk.add_samples([{"case": c, "impl": r[1], "code": r[0]} for c, r in list(zip(cases, results))[:: max(1, len(cases) // 4)]], k=4)
    known = {k["class"]: k for k in load_known() if k.get("kind") == "finding" and k.get("property") == "C14"}
    mism = [(c, r) for c, r in zip(cases, results) if r[0] == 1]
    crash = [(c, r) for c, r in zip(cases, results) if r[0] == 3]
    viol = []
    for c, r in zip(cases, results):
        if r[0] == 2:
            cl = classify(c, r[1])
            if cl in known:
                chk.known(known[cl], c)
            else:
                viol.append((c, r, cl))
    chk.cov["correspondence_mismatches"] = len(mism)
    # observations that C14 does not judge
    pan = sum(1 for c, r in zip(cases, results) if any(isinstance(v, dict) and "panic" in v for v in r[1].values() if v is not None))
    if pan:
        chk.notes.append("%d generated inputs outside the supported subset make the conversion panic (Units::Pico, message without layer/outline in an abstract, coordinate overflow); model agrees; not judged by C14" % pan)
    if viol:
        viol.sort(key=lambda x: len(json.dumps(x[0])))
        c, r, cl = viol[0]
        chk.violation("raw<->proto: %s case kind=%s class=%s fails the property (%d failing cases of %d); impl=%s"
                      % (c["op"], c.get("kind"), cl, len(viol), len(cases), json.dumps(r[1])[:600]),
                      {"cases": [x[0] for x in viol[:20]], "impl": [x[1][1] for x in viol[:20]], "classes": sorted({str(x[2]) for x in viol})})
    elif crash:
        c, r = crash[0]
        chk.violation("raw<->proto: harness crash / error on a generated case: %s" % json.dumps(r[1])[:300], {"cases": [x[0] for x in crash[:10]]})
    elif mism:
        mism.sort(key=lambda x: len(json.dumps(x[0])))
        c, r = mism[0]
        chk.write_log("mismatch.json", json.dumps({"case": c, "impl": r[1]}, indent=1))
        chk.broken.append("correspondence C14: impl differs from model on %d cases, e.g. op=%s kind=%s (work/run/C14/mismatch.json)" % (len(mism), c["op"], c.get("kind")))
