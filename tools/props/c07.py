"""C07: raw layout exported to GDSII and imported back is unchanged.
Model Raw/RawGdsExport.v (GdsExporter, PlaceLabels, the unit tables), spec Raw/RawGdsExportSpec.v
(raw_equiv, exportable, labels_unambiguous, exact geometry from Geom/ContainsSpec.v), checker
Raw/RawGdsExportCheck.v, theorems Properties/C07.v; correspondence against
layout21raw::Library::to_gds followed by Library::from_gds(gds, Some(the same Layers)).

The model carries one flag per defect found in the pinned tree; each flag is RE-READ FROM THE SOURCE TEXT on every
run (model_cfg), so the model follows the tree: with the defective form in the source the model of the code as found
is compared, with the repaired form the repaired model.  VERIF_C07_CFG="(mkxcfg b b b)" overrides (experiments only)."""
import copy, json, os, re, struct
from vlib import *
from props.kernelcommon import kernel_tie_leg
import vlib
from props import c13 as C13, c14 as C14, gdscommon as G

HARNESS_BINS = ["c07"]

def f2b(x):
    return struct.unpack(">Q", struct.pack(">d", x))[0]

# ------------------------------------------------------------------ which code does the tree carry
CFG_PROBLEMS = []
def _fn_body(src, header_re, start=0):
    """text of the brace-balanced block that follows the first match of header_re"""
    m = re.compile(header_re).search(src, start)
    if not m:
        return None
    i = src.index("{", m.end() - 1) if src[m.end() - 1] != "{" else m.end() - 1
    depth = 0
    for j in range(i, len(src)):
        if src[j] == "{":
            depth += 1
        elif src[j] == "}":
            depth -= 1
            if depth == 0:
                return src[i:j + 1]
    return None

def model_cfg():
    """(path_close, contains_orig, no_pico) as Coq booleans, read from the repository's source text."""
    c = os.environ.get("VERIF_C07_CFG")
    if c:
        m = re.match(r"\(mkxcfg (true|false) (true|false) (true|false)\)$", c.strip())
        assert m, "VERIF_C07_CFG must be (mkxcfg b b b)"
        return [x == "true" for x in m.groups()]
    gds = open(os.path.join(vlib.REPO, "layout21raw/src/gds.rs")).read()
    geom = open(os.path.join(vlib.REPO, "layout21raw/src/geom.rs")).read()
    flags = []
    def flag(defective, repaired, what):
        if defective and not repaired:
            flags.append(True)
        elif repaired and not defective:
            flags.append(False)
        else:
            CFG_PROBLEMS.append("cannot tell which code the tree has for: " + what)
            flags.append(False)
    es = _fn_body(gds, r"pub fn export_shape\s*\(") or ""
    arm = _fn_body(es, r"Shape::Path\(path\)\s*=>\s*\{") or ""
    flag("&path.points[0]" in arm, "path.points.iter()" in arm and "&path.points[0]" not in arm, "export_shape, PATH arm (closing point)")
    pc = _fn_body(geom, r"impl ShapeTrait for Polygon\s*\{") or ""
    cont = _fn_body(pc, r"fn contains\s*\(") or ""
    flag("let xsolve" in cont, "as i128" in cont and "let xsolve" not in cont, "Polygon::contains (x-intercept by division / exact cross product)")
    iu = _fn_body(gds, r"fn import_units\s*\(") or ""
    flag("Units::Pico" not in iu and "Units::Angstrom" in iu, "Units::Pico" in iu, "import_units (branch for the 1e-12 database unit)")
    return flags

def ccfg(flags):
    return Raw("(mkxcfg %s %s %s)" % tuple(cbool(b) for b in flags))

# ------------------------------------------------------------------ generators
NETS = ["VDD", "vss", "Net1", "n_2", "A", "clk", "Q[3]", "a"]
PURPS = ["Drawing", "Pin", "Obstruction"]

def gen_layers(rng, label=True):
    """3 layers x (Drawing, Pin, Label, Obstruction and sometimes an Other/Named purpose); all numbers distinct per layer"""
    ls = C14.gen_layers(rng, full=True)
    for l in ls:
        if not any(p[1] == "Label" for p in l["pairs"]) and label:
            used = {p[0] for p in l["pairs"]}
            n = rng.choice([x for x in range(0, 12) if x not in used])
            l["pairs"].insert(rng.randrange(len(l["pairs"]) + 1), [n, "Label"])
    return ls

def u_shape(rng):
    a, b = rng.randrange(6, 30), rng.randrange(6, 30)
    t = rng.randrange(1, 3)
    P = [(0, 0), (0, b), (t, b), (t, t), (a - t, t), (a - t, b), (a, b), (a, 0)]
    return P
def l_shape(rng):
    a, b = rng.randrange(6, 30), rng.randrange(6, 30)
    t = rng.randrange(1, 3)
    return [(0, 0), (a, 0), (a, t), (t, t), (t, b), (0, b)]
def c_shape(rng):
    a, b = rng.randrange(8, 30), rng.randrange(8, 30)
    t = rng.randrange(1, 3)
    return [(0, 0), (a, 0), (a, t), (t, t), (t, b - t), (a, b - t), (a, b), (0, b)]

def vary(rng, P):
    """another starting vertex, orientation, a mirror image or a quarter turn of the same polygon"""
    P = list(P)
    k = rng.randrange(len(P))
    P = P[k:] + P[:k]
    if rng.random() < 0.5:
        P.reverse()
    c = rng.randrange(4)
    if c == 1:
        P = [(-x, y) for x, y in P]
    elif c == 2:
        P = [(x, -y) for x, y in P]
    elif c == 3:
        P = [(-y, x) for x, y in P]
    return P

def gen_polygon(rng):
    """-> (kind, simple vertex list)"""
    for _ in range(30):
        c = rng.randrange(8)
        if c == 0:
            k, P = "poly_U", vary(rng, u_shape(rng))
        elif c == 1:
            k, P = "poly_L", vary(rng, l_shape(rng))
        elif c == 2:
            k, P = "poly_C", vary(rng, c_shape(rng))
        elif c in (3, 4):
            k, P = "poly_rectilinear", C13.gen_rectilinear(rng, 24)
        elif c == 5:
            k, P = "poly_45deg", C13.gen_45(rng, 24)
        elif c == 6:
            k, P = "poly_general", C13.gen_general(rng, 12)
        else:
            a, b = rng.randrange(1, 20), rng.randrange(1, 20)
            k, P = "poly_rect4", vary(rng, [(0, 0), (a, 0), (a, b), (0, b)])
        P = [tuple(p) for p in P]
        if C13.is_simple(P) and len(set(P)) == len(P):
            return k, P
    return "poly_rect4", [(0, 0), (3, 0), (3, 2), (0, 2)]

def gen_path(rng):
    n = rng.randrange(2, 7)
    w = rng.choice([0, 1, 2, 3, 4, 5, 6, 7, 10, 11])
    P = [(0, 0)]
    horiz = rng.random() < 0.5
    for _ in range(n - 1):
        d = rng.choice([-9, -5, -3, -2, -1, 1, 2, 3, 5, 9, 12])
        a = P[-1]
        P.append((a[0] + d, a[1]) if horiz else (a[0], a[1] + d))
        if rng.random() < 0.85:
            horiz = not horiz
    return P, w

def gen_rect(rng):
    a, b = rng.randrange(0, 25), rng.randrange(0, 25)
    c = [(0, 0), (a, b)]
    if rng.random() < 0.5:
        c = [(a, 0), (0, b)]
    if rng.random() < 0.5:
        c.reverse()
    return c

def shape_bbox(s):
    if "R" in s:
        pts, h = s["R"], 0
    elif "G" in s:
        pts, h = s["G"], 0
    else:
        pts, h = s["P"][0], s["P"][1] // 2 + 1
    xs = [p[0] for p in pts]; ys = [p[1] for p in pts]
    return min(xs) - h, min(ys) - h, max(xs) + h, max(ys) + h

def shift(s, dx, dy):
    f = lambda p: [p[0] + dx, p[1] + dy]
    if "R" in s:
        return {"R": [f(p) for p in s["R"]]}
    if "G" in s:
        return {"G": [f(p) for p in s["G"]]}
    return {"P": [[f(p) for p in s["P"][0]], s["P"][1]]}

def gen_shape(rng, dist):
    c = rng.randrange(10)
    if c < 3:
        dist["rect"] = dist.get("rect", 0) + 1
        return {"R": [list(p) for p in gen_rect(rng)]}
    if c < 7:
        k, P = gen_polygon(rng)
        dist[k] = dist.get(k, 0) + 1
        return {"G": [list(p) for p in P]}
    P, w = gen_path(rng)
    dist["path_w_odd" if w % 2 else "path_w_even"] = dist.get("path_w_odd" if w % 2 else "path_w_even", 0) + 1
    return {"P": [[list(p) for p in P], w]}

class Placer:
    """puts shapes side by side so that no two of them (whatever their layer) share a point"""
    def __init__(self, rng, overlap=False):
        self.rng = rng
        self.x = rng.choice([-400, -120, -37, 0, 5, 1000])
        self.overlap = overlap
    def place(self, s):
        x0, y0, x1, y1 = shape_bbox(s)
        if self.overlap:
            return shift(s, self.rng.randrange(-20, 20) - x0, self.rng.randrange(-20, 20) - y0)
        dy = self.rng.choice([-60, -7, -1, 0, 3, 40]) - (y0 if self.rng.random() < 0.5 else y1)
        out = shift(s, self.x - x0, dy)
        self.x += (x1 - x0) + self.rng.choice([2, 3, 5, 11])
        return out

ANGLES = [None, 0.0, 90.0, 180.0, 270.0]
ODD_ANGLES = [-0.0, 360.0, -90.0, 45.0, 0.5, 33.0]

def gen_case(rng, kind, dist):
    layers = gen_layers(rng, label=(kind != "nolabel"))
    ncell = rng.randrange(1, 6)
    topo = list(range(ncell))
    rng.shuffle(topo)
    rank = {c: r for r, c in enumerate(topo)}
    cells = []
    for ci in range(ncell):
        name = rng.choice(["c%d", "Cell_%d", "x%d"]) % ci
        c = {"name": name, "layout": None, "abs": None}
        has_layout = rng.random() < (0.85 if kind not in ("abstract", "abs_slot") else 0.4)
        pl = Placer(rng, overlap=(kind == "overlap"))
        if has_layout:
            lower = [x for x in range(ncell) if rank[x] < rank[ci]]
            insts = []
            if lower:
                for k in range(rng.randrange(0, 4)):
                    a = rng.choice(ANGLES)
                    if rng.random() < 0.08:
                        a = rng.choice(ODD_ANGLES)
                    insts.append({"name": "i%d" % k, "cell": rng.choice(lower), "loc": [rng.randrange(-500, 500), rng.randrange(-500, 500)],
                                  "reflect": rng.random() < 0.5, "angle": None if a is None else f2b(a)})
                    dist["inst_%s%s" % ("R" if insts[-1]["reflect"] else "N", "none" if a is None else ("%g" % a))] = \
                        dist.get("inst_%s%s" % ("R" if insts[-1]["reflect"] else "N", "none" if a is None else ("%g" % a)), 0) + 1
            elems = []
            for k in range(rng.randrange(0, 6)):
                lay = rng.randrange(3)
                pur = rng.choice(PURPS)
                net = rng.choice(NETS) if rng.random() < 0.55 else None
                elems.append({"net": net, "layer": lay, "purpose": pur, "shape": pl.place(gen_shape(rng, dist))})
            annots = [["t%d" % k, [rng.randrange(-50, 50), rng.randrange(-50, 50)]] for k in range(rng.randrange(0, 2))]
            c["layout"] = {"name": name, "insts": insts, "elems": elems, "annots": annots}
        if not has_layout or rng.random() < 0.15:
            ports = []
            for k in range(rng.randrange(0, 3)):
                ks = rng.sample(range(3), rng.randrange(1, 3))
                ports.append({"net": rng.choice(NETS), "shapes": [[kk, [pl.place(gen_shape(rng, dist)) for _ in range(rng.randrange(1, 3))]] for kk in ks]})
            w, h = rng.randrange(1, 90), rng.randrange(1, 90)
            c["abs"] = {"name": name, "outline": [[0, 0], [w, 0], [w, h], [0, h]] if rng.random() < 0.7 else [[0, 0], [w, 0], [w + 3, h], [0, h + 2]],
                        "ports": ports, "blockages": [[rng.randrange(3), [gen_shape(rng, {})]]] if rng.random() < 0.3 else []}
            dist["abstract_exported" if not has_layout else "abstract_shadowed"] = dist.get("abstract_exported" if not has_layout else "abstract_shadowed", 0) + 1
        cells.append(c)
    units = rng.choice(["Micro", "Nano", "Angstrom", "Pico"])
    if kind == "abs_slot":
        # (builder-c07a) a table that already has a layer numbered 32767, the number export_abstract reserves for the outline:
        # with the purpose number 32767 registered (as Other or as Drawing) or not; sometimes a port sits on that layer
        v = rng.randrange(4)
        pairs = [[[32767, {"Other": 32767}]], [[0, "Drawing"], [1, "Label"], [2, "Pin"]],
                 [[32767, "Drawing"], [1, "Label"], [2, "Pin"]], [[3, "Label"], [32767, {"Other": 32767}], [0, "Pin"], [5, "Drawing"]]][v]
        layers.append({"num": 32767, "name": rng.choice([None, "outl"]), "pairs": pairs})
        dist["abs_slot_table_%d" % v] = dist.get("abs_slot_table_%d" % v, 0) + 1
        if v != 0 and rng.random() < 0.3:
            for c in cells:
                if c["abs"] and not c["layout"] and c["abs"]["ports"]:
                    c["abs"]["ports"][0]["shapes"].append([3, [shift(gen_shape(rng, dist), 2000, 2000)]])
                    break
    lib = {"name": rng.choice(["lib", "MyLib", "l"]), "units": units, "layers": layers, "cells": cells}
    lays = [c["layout"] for c in cells if c["layout"]]
    allelems = [e for l in lays for e in l["elems"]]
    # kinds that leave the property's input space (model comparison only) or probe its edge
    if kind == "bigcoord" and allelems:
        e = rng.choice(allelems)
        big = rng.choice([1 << 31, -(1 << 31) - 1, 1 << 40, (1 << 63) - 1, -(1 << 63)])
        e["shape"] = rng.choice([{"R": [[0, 0], [big, 5]]}, {"G": [[0, 0], [big, 0], [3, 4]]}, {"P": [[[0, 0], [0, big]], 2]},
                                 {"P": [[[0, 0], [0, 7]], rng.choice([1 << 31, (1 << 63) + 5])]}])
    elif kind == "i32edge" and allelems:
        e = rng.choice(allelems)
        m = (1 << 31) - 1
        e["shape"] = rng.choice([{"R": [[-m - 1, -m - 1], [m, m]]}, {"R": [[m, m], [m - 4, m - 9]]}, {"G": [[-m - 1, -m - 1], [-m - 1 + 6, -m - 1], [-m - 1, -m - 1 + 9]]},
                                 {"P": [[[m, -m - 1], [m - 8, -m - 1]], 3]}, {"P": [[[0, 0], [0, 7]], m]}])
        e["layer"] = 0
        for o in allelems:
            if o is not e and o["layer"] == 0:
                o["layer"] = 1
    elif kind == "badname" and lays:
        rng.choice(lays)["name"] += "_lay"
    elif kind == "noview":
        cells.append({"name": "empty", "layout": None, "abs": None})
    elif kind == "dupname" and ncell > 1:
        cells[1]["name"] = cells[0]["name"]
        if cells[1]["layout"]:
            cells[1]["layout"]["name"] = cells[0]["name"]
        if cells[1]["abs"]:
            cells[1]["abs"]["name"] = cells[0]["name"]
    elif kind == "degenerate" and allelems:
        e = rng.choice(allelems)
        e["shape"] = rng.choice([{"G": []}, {"P": [[], 2]}, {"P": [[[1, 1]], 2]}, {"G": [[1, 1]]}, {"G": [[0, 0], [4, 4]]}, {"G": [[0, 0], [2, 0], [1, 0]]},
                                 {"P": [[[0, 0], [0, 0]], 4]}, {"P": [[[0, 0], [5, 0], [5, 0], [5, 7]], 3]}])
    elif kind == "nonmanhattan" and allelems:
        e = rng.choice(allelems)
        x0, y0, _, _ = shape_bbox(e["shape"])
        e["shape"] = {"P": [[[x0, y0], [x0 + 5, y0], [x0 + 6, y0 + 3]], 2]}
    elif kind == "badkey" and allelems:
        rng.choice(allelems)["layer"] = 3
    elif kind == "nopurpose" and allelems:
        rng.choice(allelems)["purpose"] = rng.choice(["Outline", {"Other": 77}])
    elif kind == "sliver" and allelems:
        e = rng.choice(allelems)
        x0, y0, _, _ = shape_bbox(e["shape"])
        e["shape"] = shift({"G": rng.choice([[[0, 0], [9, 2], [20, 3]], [[0, 0], [7, 1], [16, 5], [8, 2]]])}, x0, y0)
        e["net"] = "thin"
    return {"op": "rt", "kind": kind, "lib": lib}

def single(shape, net="N1", units="Nano", kind="directed", purpose="Drawing"):
    lib = {"name": "lib", "units": units, "layers": [{"num": 5, "name": None, "pairs": [[0, "Drawing"], [1, "Label"], [2, "Pin"]]}],
           "cells": [{"name": "c0", "abs": None, "layout": {"name": "c0", "insts": [], "annots": [],
                      "elems": ([] if shape is None else [{"net": net, "layer": 0, "purpose": purpose, "shape": shape}])}}]}
    return {"op": "rt", "kind": kind, "lib": lib}

def directed_cases():
    out = []
    out.append(single({"P": [[[0, 0], [10, 0], [10, 10]], 2]}, net=None, kind="directed_open_path"))
    out.append(single({"P": [[[0, 0], [10, 0]], 3]}, net="n", kind="directed_open_path"))
    for u in ("Micro", "Nano", "Angstrom", "Pico"):
        out.append(single(None, units=u, kind="directed_units"))
    # the triangle whose bounding-box centre (0,1) the code as found wrongly reports as contained
    out.append(single({"G": [[0, 0], [1, 3], [1, 0]]}, kind="directed_contains"))
    out.append(single({"G": [[0, 0], [5, 0], [5, 4], [0, 4], [1, 2]]}, kind="directed_contains"))
    # U and L shapes whose bounding-box centre lies outside
    out.append(single({"G": [[0, 0], [0, 10], [2, 10], [2, 2], [8, 2], [8, 10], [10, 10], [10, 0]]}, kind="directed_U"))
    out.append(single({"G": [[10, 10], [8, 10], [8, 2], [2, 2], [2, 10], [0, 10], [0, 0], [10, 0]]}, kind="directed_U"))
    out.append(single({"G": [[0, 0], [9, 0], [9, 2], [2, 2], [2, 9], [0, 9]]}, kind="directed_L"))
    out.append(single({"G": [[9, 2], [2, 2], [2, 9], [0, 9], [0, 0], [9, 0]]}, kind="directed_L"))
    # label arithmetic: truncating /2 on negative sums, odd widths, corners in every order
    for r in ([[-3, -3], [0, -8]], [[0, -8], [-3, -3]], [[-7, 2], [-2, -5]], [[1, 1], [2, 2]], [[-1, -1], [-2, -2]], [[0, 0], [0, 0]], [[-5, 0], [0, 0]]):
        out.append(single({"R": r}, kind="directed_rect_label"))
    for p, w in (([[-3, -3], [-3, -8]], 1), ([[-3, -3], [-8, -3], [-8, 4]], 3), ([[0, 0], [0, 1]], 0), ([[5, -1], [-6, -1]], 7)):
        out.append(single({"P": [p, w]}, kind="directed_path_label"))
    # Some(0.0) and None angles, all eight orientations
    lib = single({"R": [[0, 0], [4, 2]]}, kind="directed_orientations")
    insts = []
    for refl in (False, True):
        for a in ANGLES + [-0.0]:
            insts.append({"name": "i", "cell": 0, "loc": [len(insts) * 7 - 20, -3], "reflect": refl, "angle": None if a is None else f2b(a)})
    lib["lib"]["cells"].append({"name": "top", "abs": None, "layout": {"name": "top", "insts": insts, "elems": [], "annots": []}})
    out.append(lib)
    out += directed_abstract_cases()
    return out

def directed_abstract_cases():
    """(builder-c07a) abstract-only cells: the image on re-import, the outline slot of the layer table, and the inputs on which
    export_abstract fails (C07_abstract_empty_outline_panics, C07_abstract_port_needs_purposes)"""
    L3 = [{"num": 5, "name": None, "pairs": [[0, "Drawing"], [1, "Label"], [2, "Pin"]]},
          {"num": 7, "name": "m2", "pairs": [[3, "Label"], [4, "Drawing"], [9, "Pin"]]}]
    U = [[50, 0], [50, 10], [52, 10], [52, 2], [58, 2], [58, 10], [60, 10], [60, 0]]
    def ab(name="macro", outline=None, ports=None, blockages=None):
        return {"name": name, "outline": [[0, 0], [70, 0], [70, 30], [0, 30]] if outline is None else outline,
                "ports": [{"net": "VDD", "shapes": [[1, [{"G": U}]], [0, [{"R": [[10, 6], [2, 2]]}, {"P": [[[20, 5], [30, 5], [30, 15]], 3]}]]]},
                          {"net": "a", "shapes": [[0, [{"R": [[40, 20], [44, 28]]}]]]}] if ports is None else ports,
                "blockages": [[0, [{"R": [[0, 0], [70, 1]]}]]] if blockages is None else blockages}
    def lib(cells, layers=None, kind="directed_abstract"):
        return {"op": "rt", "kind": kind, "lib": {"name": "lib", "units": "Nano", "layers": copy.deepcopy(L3 if layers is None else layers), "cells": cells}}
    top = {"name": "top", "abs": None, "layout": {"name": "top", "annots": [], "elems": [{"net": "Net", "layer": 0, "purpose": "Drawing", "shape": {"R": [[0, 0], [5, 5]]}}],
                                                   "insts": [{"name": "i0", "cell": 0, "loc": [100, -50], "reflect": True, "angle": f2b(90.0)}]}}
    both = {"name": "both", "abs": ab("both"), "layout": {"name": "both", "insts": [], "annots": [], "elems": [{"net": None, "layer": 1, "purpose": "Drawing", "shape": {"R": [[1, 1], [2, 3]]}}]}}
    out = []
    # the library of Example C07_roundtrip_abstract_nonvacuous
    out.append(lib([{"name": "macro", "abs": ab(), "layout": None}, top, both]))
    out.append(lib([{"name": "macro", "abs": ab(ports=[], blockages=[]), "layout": None}]))
    out.append(lib([{"name": "macro", "abs": ab(outline=[[0, 0], [9, 0], [12, 7], [3, 30], [-4, 8]]), "layout": None}, {"name": "m2", "abs": ab("m2", ports=[]), "layout": None}]))
    # the outline slot: a table that already has a layer numbered 32767
    for pairs in ([[32767, {"Other": 32767}]], [[0, "Drawing"], [1, "Label"], [2, "Pin"]], [[32767, "Pin"], [1, "Label"]], []):
        out.append(lib([{"name": "macro", "abs": ab(), "layout": None}, top], layers=L3 + [{"num": 32767, "name": None, "pairs": pairs}], kind="directed_abstract_slot"))
        out.append(lib([top_only()], layers=L3 + [{"num": 32767, "name": None, "pairs": pairs}], kind="directed_abstract_slot"))
    # failures of export_abstract (outside the input space)
    out.append(lib([{"name": "macro", "abs": ab(outline=[]), "layout": None}], kind="directed_abstract_fail"))
    out.append(lib([{"name": "macro", "abs": ab(outline=[], ports=[]), "layout": None}], kind="directed_abstract_fail"))
    nopin = [{"num": 5, "name": None, "pairs": [[0, "Drawing"], [1, "Label"]]}]
    out.append(lib([{"name": "macro", "abs": ab(ports=[{"net": "p", "shapes": [[0, []]]}]), "layout": None}], layers=nopin, kind="directed_abstract_fail"))
    out.append(lib([{"name": "macro", "abs": ab(ports=[{"net": "p", "shapes": [[0, [{"R": [[1, 1], [3, 3]]}]]]}]), "layout": None}], layers=nopin, kind="directed_abstract_fail"))
    out.append(lib([{"name": "macro", "abs": ab(ports=[{"net": "p", "shapes": [[0, [{"R": [[1, 1], [3, 3]]}]]]}]), "layout": None}],
                   layers=[{"num": 5, "name": None, "pairs": [[0, "Drawing"], [2, "Pin"]]}], kind="directed_abstract_fail"))
    out.append(lib([{"name": "macro", "abs": ab(ports=[{"net": "p", "shapes": [[7, [{"R": [[1, 1], [3, 3]]}]]]}]), "layout": None}], kind="directed_abstract_fail"))
    return out

def top_only():
    return {"name": "t", "abs": None, "layout": {"name": "t", "annots": [], "insts": [], "elems": [{"net": "n", "layer": 0, "purpose": "Pin", "shape": {"R": [[0, 0], [5, 5]]}}]}}

def audit_cases():
    """directed kinds added by the generator audit (2026-10-02): input classes the random kinds never reach.
    `aud_*` are inside the property's input space (exportable), `aud_out_*` outside (compared with the model only)."""
    out = []
    M = (1 << 31) - 1
    T0 = [{"num": 5, "name": None, "pairs": [[0, "Drawing"], [1, "Label"], [2, "Pin"]]}]
    def lay(name, elems=None, insts=None):
        return {"name": name, "abs": None, "layout": {"name": name, "insts": insts or [], "annots": [], "elems": elems or []}}
    def el(shape, net=None, layer=0, purpose="Drawing"):
        return {"net": net, "layer": layer, "purpose": purpose, "shape": shape}
    def inst(cell, loc, reflect=False, angle=None, name="i"):
        return {"name": name, "cell": cell, "loc": list(loc), "reflect": reflect, "angle": None if angle is None else (angle if isinstance(angle, int) else f2b(angle))}
    def lib(kind, cells, layers=None, units="Nano", name="lib"):
        out.append({"op": "rt", "kind": kind, "lib": {"name": name, "units": units, "layers": copy.deepcopy(T0 if layers is None else layers), "cells": cells}})
    R = lambda x, y, w=4, h=2: {"R": [[x, y], [x + w, y + h]]}
    # 1. every purpose variant on an element (the random kinds use Drawing / Pin / Obstruction only), with and without a net
    TP = [{"num": 7, "name": "m1", "pairs": [[0, "Drawing"], [1, "Label"], [2, "Pin"], [3, "Obstruction"], [4, "Outline"], [5, {"Other": 5}], [6, {"Named": ["fill", 6]}], [9, {"Named": ["Fill", 9]}]]},
          {"num": 8, "name": None, "pairs": [[20, "Label"], [0, {"Other": 0}], [-1, {"Named": ["", -1]}]]}]
    es = []
    for k, pu in enumerate(["Drawing", "Label", "Pin", "Obstruction", "Outline", {"Other": 5}, {"Named": ["fill", 6]}, {"Named": ["Fill", 9]}]):
        es.append(el(R(10 * k, 0), None, 0, pu))
        es.append(el(R(10 * k, 10), "n%d" % k, 0, pu))
    for k, pu in enumerate(["Label", {"Other": 0}, {"Named": ["", -1]}]):
        es.append(el({"G": [[10 * k, 30], [10 * k + 5, 30], [10 * k + 5, 32], [10 * k + 2, 32], [10 * k + 2, 38], [10 * k, 38]]}, "P%d" % k, 1, pu))
        es.append(el({"P": [[[10 * k, 50], [10 * k + 6, 50]], 2]}, None, 1, pu))
    lib("aud_purpose_kinds", [lay("c0", es)], layers=TP)
    lib("aud_purpose_kinds", [lay("c0", es[:6]), lay("top", es[6:], [inst(0, (100, 100), True, 90.0)])], layers=TP, units="Micro")
    # 2. layer and purpose numbers at the i16 limits and negative
    TE = [{"num": -32768, "name": None, "pairs": [[-32768, "Drawing"], [32767, "Label"], [-1, "Pin"]]},
          {"num": 32766, "name": "top", "pairs": [[32767, "Drawing"], [-32768, "Label"], [0, {"Other": 0}]]},
          {"num": -1, "name": None, "pairs": [[-1, "Label"], [-2, "Drawing"]]}]
    es = [el(R(0, 0), "a", 0, "Drawing"), el(R(10, 0), None, 0, "Pin"), el(R(20, 0), "b", 1, "Drawing"), el(R(30, 0), "c", 1, {"Other": 0}),
          el({"P": [[[0, 10], [8, 10], [8, 20]], 3]}, "d", 2, "Drawing"), el({"G": [[40, 0], [46, 0], [43, 5]]}, "e", 2, "Drawing")]
    lib("aud_layer_numbers_edge", [lay("c0", es)], layers=TE)
    lib("aud_layer_numbers_edge", [lay("c0", es[:3]), {"name": "ab", "layout": None, "abs": {"name": "ab", "outline": [[0, 0], [9, 0], [9, 9], [0, 9]],
         "ports": [{"net": "p", "shapes": [[0, [R(1, 1)]]]}], "blockages": []}}], layers=TE)
    # 2b. overlapping shapes on two layers whose NUMBERS agree modulo 256 / 2^12 / 2^15: the label of a named shape lies inside
    # the shape of the other layer too, which must not pick the net up (nor lose its own)
    for na, nb in ((44, 300), (1, 257), (0, 256), (5, -251), (255, -1), (0, -32768), (32767, -1), (12, 4108)):
        TC = [{"num": na, "name": None, "pairs": [[0, "Drawing"], [1, "Label"]]}, {"num": nb, "name": None, "pairs": [[0, "Drawing"], [1, "Label"]]}]
        lib("aud_layers_congruent", [lay("c0", [el(R(0, 0, 10, 6), "a", 0), el(R(2, 1, 6, 4), None, 1), el({"P": [[[0, 3], [10, 3]], 2]}, None, 1)])], layers=TC)
        lib("aud_layers_congruent", [lay("c0", [el(R(0, 0, 10, 6), "a", 0), el(R(0, 0, 10, 6), "b", 1)])], layers=TC)
    # 2c. (fourth seeded wave, C07-m10) named shapes of DIFFERENT nets on one layer, one inside the other, in both listing orders and three
    # deep: the label of the inner shape lies inside the outer one too; which label a shape keeps is decided by the order of the labels
    for order in ((0, 1), (1, 0)):
        two = [el(R(0, 0, 100, 100), "vdd", 0), el(R(60, 60, 20, 20), "vss", 0)]
        lib("aud_nested_nets", [lay("c0", [two[i] for i in order])])
        lib("aud_nested_nets", [lay("c0", [two[i] for i in order] + [el(R(200, 0, 10, 10), "x", 0)]), lay("top", [el(R(0, 0, 50, 50), "a", 0), el(R(30, 30, 10, 10), "b", 0)], [inst(0, (500, 0))])])
    three = [el(R(0, 0, 90, 90), "n1", 0), el(R(50, 50, 30, 30), "n2", 0), el(R(60, 60, 4, 4), "n3", 0)]
    for perm in ((0, 1, 2), (0, 2, 1), (1, 0, 2), (2, 1, 0)):
        lib("aud_nested_nets", [lay("c0", [three[i] for i in perm])])
    lib("aud_nested_nets", [lay("c0", [el({"G": [[0, 0], [80, 0], [80, 80], [0, 80]]}, "p", 0), el({"P": [[[50, 50], [70, 50]], 4]}, "q", 0), el(R(10, 10, 6, 6), None, 0)])])
    # 3. named polygons spanning most of the i32 range (Polygon::contains multiplies coordinate differences: 2^32 * 2^32)
    B = 2000000000
    for P in ([[-B, -B], [B, -B], [B, -B + 10], [-B + 10, -B + 10], [-B + 10, B], [-B, B]],                                  # L, centre outside
              [[-B, B], [-B, -B], [B, -B], [B, B], [B - 10, B], [B - 10, -B + 10], [-B + 10, -B + 10], [-B + 10, B]],       # U, centre outside
              [[3, M - 1], [-M - 1, -M - 1], [M, -M + 5]],                                                                  # triangle, centre inside
              [[M - 1, M - 1], [-M - 1, M - 7], [-M - 1, -M - 1], [M - 9, -M - 1]],
              [[1, M - 2], [-M - 1, 0], [0, -M - 1], [M, 0], [0, M]],                                                       # diamond touching the four limits
              [[B, B - 10], [-B + 10, B - 10], [-B + 10, -B], [-B, -B], [-B, B], [B, B]]):
        for k in (0, 2) if abs(P[2][0]) < M and abs(P[2][1]) < M else (0,):
            Q = P[k:] + P[:k]
            lib("aud_huge_polygon", [lay("c0", [el({"G": Q}, "big")])])
            lib("aud_huge_polygon", [lay("c0", [el({"G": [Q[0]] + Q[:0:-1]}, "big")])])
    # (a right triangle over the whole range whose hypotenuse misses the bounding-box centre and ends at the first point: the label
    #  candidates next to it are tested against an edge that is 4e9 long in x AND y)
    D4 = [[-M + 1, -M + 1], [M - 1, -M + 1], [M - 1, M - 1], [M - 11, M - 2000001]]
    for sym in range(4):
        Q = [[x, y] if sym == 0 else [-x, y] if sym == 1 else [x, -y] if sym == 2 else [-y, x] for x, y in D4]
        lib("aud_huge_polygon", [lay("c0", [el({"G": Q if sym % 2 == 0 else [Q[0]] + Q[:0:-1]}, "diag")])])
    # (the L of seeded change C07-m6: the long arm's far edge is 4e9 away from the first point, whose neighbours are the label candidates)
    L6 = [[-B, -B], [B, -B], [B, B], [B - 10, B], [B - 10, -B + 10], [-B, -B + 10]]
    for sym in range(4):
        Q0 = [[x, y] if sym == 0 else [-x, y] if sym == 1 else [x, -y] if sym == 2 else [-y, x] for x, y in L6]
        for k in range(6):
            Q = Q0[k:] + Q0[:k]
            if (k + sym) % 2:
                Q = [Q[0]] + Q[:0:-1]
            lib("aud_huge_polygon", [lay("c0", [el({"G": Q}, "ring")])])
    lib("aud_huge_polygon", [lay("c0", [el({"G": [[-B, -B], [B, -B], [B, -B + 10], [-B + 10, -B + 10], [-B + 10, B], [-B, B]]}, None), el(R(0, 0), "in")])])
    # 4. instance locations at the i32 limits (inside) and beyond them (outside: the export is an error)
    leafc = lay("leaf", [el(R(0, 0), "n")])
    lib("aud_inst_loc_edge", [leafc, lay("top", [], [inst(0, (M, -M - 1)), inst(0, (-M - 1, M), True, 270.0), inst(0, (M, M), False, 180.0), inst(0, (0, -M - 1), True)])])
    for loc in ((M + 1, 0), (0, -M - 2), (1 << 40, 1), (-(1 << 63), (1 << 63) - 1)):
        lib("aud_out_inst_loc", [leafc, lay("top", [el(R(5, 5))], [inst(0, (1, 1)), inst(0, loc, True, 90.0)])])
    # 5. angles beyond one turn, negative zero, tiny, huge, not numbers (stored and brought back bit for bit)
    for k, a in enumerate((450.0, -270.0, 720.0, -0.0, 1e300, 5e-324, 89.99999999999999, float("inf"), -float("inf"), float("nan"), 0x7FF0000000000001, 0xFFF8000000000000)):
        lib("aud_inst_odd_angle", [leafc, lay("top", [], [inst(0, (3, -4), k % 2 == 0, a), inst(0, (30, 40), k % 2 == 1, a)])])
    # 6. instances of a cell that has no view / of the instantiating cell itself (outside: nothing to re-import / cyclic)
    lib("aud_out_inst_noview", [{"name": "ghost", "layout": None, "abs": None}, lay("top", [el(R(0, 0))], [inst(0, (1, 1))])])
    lib("aud_out_inst_noview", [lay("top", [el(R(0, 0))], [inst(1, (1, 1))]), {"name": "ghost", "layout": None, "abs": None}])
    lib("aud_out_inst_cyclic", [lay("a", [el(R(0, 0))], [inst(0, (1, 1))])])
    lib("aud_out_inst_cyclic", [lay("a", [], [inst(1, (1, 1))]), lay("b", [el(R(0, 0))], [inst(0, (2, 2), True)])])
    # 7. net names: empty, blanks, the characters next to the ASCII letters, long, differing in case only on two shapes
    for k, net in enumerate(("", " ", " pad ", "@[\\]^_`{|}~", "AZaz09", "N" * 300, "a.b/c<3>", "\x01\x7f")):
        lib("aud_net_chars", [lay("c0", [el(R(0, 0), net), el({"P": [[[0, 10], [9, 10]], 2]}, net, 0, "Pin"), el({"G": [[20, 0], [26, 0], [23, 5]]}, net.lower() if k % 2 else net)])])
    lib("aud_net_chars", [lay("c0", [el(R(0, 0), "VDD"), el(R(10, 0), "vdd"), el(R(20, 0), "Vdd")])])
    # 8. no cells at all; cells without content; names differing in case only, empty, with brackets / blanks
    lib("aud_empty_lib", [])
    lib("aud_empty_lib", [], units="Pico", name="")
    lib("aud_empty_lib", [lay("only")], layers=[])
    lib("aud_case_names", [lay("cell", [el(R(0, 0), "a")]), lay("CELL", [el(R(0, 0, 9, 9), "b")]), lay("Cell", [el({"P": [[[0, 0], [5, 0]], 1]})]),
                           lay("top", [], [inst(0, (0, 0)), inst(1, (20, 0), True), inst(2, (40, 0), False, 90.0)]), lay("TOP", [el(R(1, 1))], [inst(3, (5, 5))])], name="LIB")
    lib("aud_case_names", [lay("TOP", [el(R(1, 1))], [inst(1, (5, 5)), inst(2, (9, 9))]), lay("Top", [], [inst(2, (0, 0)), inst(3, (20, 0), True)]), lay("top", [el(R(0, 0), "a")]), lay("tOP", [el(R(0, 0, 9, 9), "b")])])
    lib("aud_case_names", [lay("a[0][0]", [el(R(0, 0), "a")]), lay("", [el(R(0, 0), "e")]), lay(" x y ", [el(R(0, 0))]),
                           lay("t", [], [inst(0, (0, 0)), inst(1, (20, 0)), inst(2, (40, 0))])], name="my lib (2)")
    # 9. a chain of 12 cells in changing orientations; 150 elements and 150 instances in one cell
    cells = [lay("n0", [el(R(0, 0), "x"), el({"P": [[[0, 5], [7, 5], [7, 9]], 2]}, "y", 0, "Pin")])]
    for k in range(1, 12):
        cells.append(lay("n%d" % k, [el(R(k, -k), "z%d" % k)], [inst(k - 1, (3 * k, -2 * k), k % 3 == 0, [None, 90.0, 180.0, 270.0, 0.0][k % 5])]))
    lib("aud_deep_chain", list(reversed([dict(c) for c in cells])) and [dict(c, layout=dict(c["layout"], insts=[dict(i, cell=11 - i["cell"]) for i in c["layout"]["insts"]])) for c in reversed(cells)])
    lib("aud_deep_chain", cells, units="Angstrom")
    lib("aud_wide_cell", [leafc, lay("top", [el(R(7 * k, 100 + (k % 3)), ("w%d" % k) if k % 2 else None, 0, ["Drawing", "Pin"][k % 2]) for k in range(150)],
                                    [inst(0, (7 * k, -50 - k), k % 2 == 0, [None, 90.0, 180.0, 270.0][k % 4], "i%d" % k) for k in range(150)])])
    return out

KINDS = [("plain", 58), ("abstract", 8), ("abs_slot", 4), ("overlap", 8), ("nolabel", 2), ("bigcoord", 3), ("i32edge", 3), ("badname", 2), ("noview", 1),
         ("dupname", 1), ("degenerate", 3), ("nonmanhattan", 2), ("badkey", 1), ("nopurpose", 2), ("sliver", 2)]

def grid_cases(chk, npoly, per=10):
    """simple polygons with 3-5 distinct vertices on the 4x4 grid (every start, both orientations), each carrying a net,
    `per` of them side by side in one cell"""
    rng = chk.rng
    E, _ = C13.enum_cases(chk, 4, (3, 4, 5))
    total = len(E)
    if npoly is not None and npoly < len(E):
        E = rng.sample(E, npoly)
    out = []
    for k in range(0, len(E), per):
        elems = []
        for j, P in enumerate(E[k:k + per]):
            dx = (j - per // 2) * 9 - 2
            elems.append({"net": "g%d" % j, "layer": 0, "purpose": "Drawing", "shape": {"G": [[p[0] + dx, p[1] - 2] for p in P]}})
        c = single(None, kind="grid_polygons")
        c["lib"]["cells"][0]["layout"]["elems"] = elems
        out.append(c)
    return out, total, len(E)

def gen_cases(chk):
    rng = chk.rng
    quick = chk.tier == "quick"
    dist = {}
    cases = directed_cases() + audit_cases()
    n = 1100 if quick else 25000
    for _ in range(n):
        cases.append(gen_case(rng, C14.pick(rng, KINDS), dist))
    g, total, used = grid_cases(chk, 2500 if quick else None)
    cases += g
    chk.cov["grid_polygons"] = "%d of the %d simple polygons with 3-5 distinct vertices on the 4x4 grid (every start, both orientations), each exported with a net" % (used, total)
    return cases, dist

# ------------------------------------------------------------------ Coq terms
HDR = ("From Coq Require Import ZArith List String.\nImport ListNotations.\n"
       "From L21 Require Import Base.Outcome Base.Hex Raw.RawData Raw.RawGdsExport Raw.RawGdsExportSpec Raw.RawGdsExportCheck.\n"
       "From L21 Require Gds.GdsData.\nOpen Scope Z_scope.\n")

HDR_ABS = ("From Coq Require Import ZArith List String.\nImport ListNotations.\n"
           "From L21 Require Import Base.Outcome Base.Hex Raw.RawData Raw.RawGdsExport Raw.RawGdsExportSpec Raw.RawGdsExportCheck "
           "Raw.RawGdsAbstractSpec Raw.RawGdsAbstractCheck.\n"
           "From L21 Require Gds.GdsData.\nOpen Scope Z_scope.\n")

def q_gds(term):
    """qualify the constructors of Gds/GdsData.v in a term written by gdscommon.to_coq"""
    return Raw(re.sub(r"\b(mkLib|mkStruct|mkDTs|mkDT|mkPt|mkStrans|mkProp|mkBoundary|mkPath|mkSref|mkAref|mkText|mkNode|mkBox|"
                      r"EBoundary|EPath|ESref|EAref|EText|ENode|EBox)\b", r"GdsData.\1", term))

def c_gres(v):
    if isinstance(v, dict) and set(v) == {"err"}:
        return Raw("GErr")
    if isinstance(v, dict) and set(v) == {"panic"}:
        return Raw("GPanic")
    return Raw("(GOk %s)" % q_gds(G.to_coq(G.from_json(v))))

def raw_out_lib(v):
    """the harness' print of the re-imported library -> the dict shape C14.clib expects"""
    cells = []
    for c in v["cells"]:
        l = c["layout"]
        if l is not None:
            l = dict(l)
            l["insts"] = [dict(i, cell=(i["cell"] if i["cell"] is not None else 10 ** 6)) for i in l["insts"]]
        cells.append({"name": c["name"], "layout": l, "abs": None})
    return {"name": v["name"], "units": v["units"], "cells": cells}

def c_rres(v):
    if v is None:
        return Raw("RNone")
    if isinstance(v, dict) and set(v) == {"err"}:
        return Raw("RErr")
    if isinstance(v, dict) and set(v) == {"panic"}:
        return Raw("RPanic")
    return Raw("(ROk %s)" % C14.clib(raw_out_lib(v), C14.clayers(C14.layers_from_obs(v["layers"]))))

def probes_of(case):
    s = set(range(-1, 13)) | {32767}
    for l in case["lib"]["layers"]:
        for p in l["pairs"]:
            s.add(p[0])
    return sorted(s)

def coq_item(cfg, c, r):
    return capp("c07_check", ccfg(cfg), C14.clib(c["lib"]), c_gres(r["gds"]), c_rres(r.get("raw")))

def evaluate(chk, cfg, cases, tag):
    for c in cases:
        c["probe"] = probes_of(c)
    res = harness("c07", [{k: v for k, v in c.items() if k != "kind"} for c in cases])
    items, idx = [], []
    out = [None] * len(cases)
    for i, (c, r) in enumerate(zip(cases, res)):
        if "gds" not in r:
            out[i] = (-1, r)     # crash / harness error
        elif not C14.table_consistent(r.get("raw")):
            out[i] = (-2, r)     # the impl's layer table answers inconsistently: cannot be reconstructed
        else:
            items.append(coq_item(cfg, c, r)); idx.append(i)
    codes = coq_eval_lists(HDR, items, chk.rundir, tag, shard=40)
    for i, s in zip(idx, codes):
        out[i] = (parse_z(s), res[i])
    return out

def has_abstract_only(c):
    return any(cell["abs"] and not cell["layout"] for cell in c["lib"]["cells"])

def evaluate_abstract(chk, cases, results, tag="c07abs"):
    """(builder-c07a) the content oracle for abstract-only cells and the layer table after the round trip
    (Raw/RawGdsAbstractCheck.v c07_abstract_check), decided on the implementation's output:
    0 = judged, holds, abstract-only cell present; 1 = judged, holds, no abstract-only cell; 2 = fails; 10 = not judged; None = not evaluated"""
    items, idx = [], []
    out = [None] * len(cases)
    for i, (c, (v, r)) in enumerate(zip(cases, results)):
        if v < 0 or c.get("kind") == "grid_polygons":
            continue
        if not isinstance(r.get("gds"), dict) or "structs" not in r["gds"] or not isinstance(r.get("raw"), dict) or "cells" not in r["raw"]:
            continue
        items.append(capp("c07_abstract_check", C14.clib(c["lib"]), c_gres(r["gds"]), c_rres(r.get("raw")))); idx.append(i)
    codes = coq_eval_lists(HDR_ABS, items, chk.rundir, tag, shard=40)
    for i, s in zip(idx, codes):
        out[i] = parse_z(s)
    return out

# ------------------------------------------------------------------ classification, shrinking
def shapes_of(c):
    out = []
    for cell in c["lib"]["cells"]:
        if cell["layout"]:
            out += [(e["shape"], e["net"]) for e in cell["layout"]["elems"]]
        elif cell["abs"]:
            out += [(s, p["net"]) for p in cell["abs"]["ports"] for m in p["shapes"] for s in m[1]]
    return out

def classify(c, v, r):
    """names what fails (diagnostic digits of c07_check): used to group violations, not to excuse them"""
    inside = v // 1000 % 10
    popen = v // 10000 % 10
    unamb = v // 100 % 10
    requiv = v // 100000 % 10
    if not isinstance(r.get("gds"), dict) or "structs" not in r["gds"]:
        return "export-fails"
    if not popen:
        return "path-exported-closed"
    if not inside:
        return "label-outside-shape"
    if isinstance(r.get("raw"), dict) and set(r["raw"]) == {"err"}:
        return "reimport-error-pico" if c["lib"]["units"] == "Pico" else "reimport-error"
    if isinstance(r.get("raw"), dict) and set(r["raw"]) == {"panic"}:
        return "reimport-panic"
    if unamb and not requiv:
        return "reimport-differs"
    return "other"

def label_candidates(P):
    xs = [p[0] for p in P]; ys = [p[1] for p in P]
    tq = lambda a: -((-a) // 2) if a < 0 else a // 2          # Rust `/ 2`: toward zero
    x0, y0 = P[0]
    return [(tq(min(xs) + max(xs)), tq(min(ys) + max(ys))), (x0, y0 - 1), (x0 - 1, y0), (x0, y0 + 1), (x0 + 1, y0)]

def polygons_without_label_location(cases):
    """named simple polygons none of whose five label candidates lies inside (generator-side count, for the evidence)"""
    n = tot = 0
    for c in cases:
        for s, net in shapes_of(c):
            if "G" in s and net is not None and len(s["G"]) >= 3:
                P = [tuple(p) for p in s["G"]]
                if C13.is_simple(P):
                    tot += 1
                    if not any(C13.py_in_region(P, q) for q in label_candidates(P)):
                        n += 1
    return n, tot

def lib_size(c):
    return len(json.dumps(c["lib"]))

def shrink_candidates(c):
    out = []
    lib = c["lib"]
    def w(f):
        c2 = copy.deepcopy(c)
        if f(c2["lib"]) is not False:
            out.append(c2)
    ncell = len(lib["cells"])
    used = {i["cell"] for cell in lib["cells"] if cell["layout"] for i in cell["layout"]["insts"]}
    for k in range(ncell):
        if k not in used and ncell > 1:
            def rm(l, k=k):
                l["cells"].pop(k)
                for cell in l["cells"]:
                    if cell["layout"]:
                        for i in cell["layout"]["insts"]:
                            if i["cell"] > k:
                                i["cell"] -= 1
            w(rm)
    for k, cell in enumerate(lib["cells"]):
        if cell["layout"]:
            for j in range(len(cell["layout"]["elems"])):
                w(lambda l, k=k, j=j: l["cells"][k]["layout"]["elems"].pop(j))
            for j in range(len(cell["layout"]["insts"])):
                w(lambda l, k=k, j=j: l["cells"][k]["layout"]["insts"].pop(j))
            if cell["layout"]["annots"]:
                w(lambda l, k=k: l["cells"][k]["layout"].__setitem__("annots", []))
            if cell["abs"]:
                w(lambda l, k=k: l["cells"][k].__setitem__("abs", None))
            for j, e in enumerate(cell["layout"]["elems"]):
                if e["net"] is not None:
                    w(lambda l, k=k, j=j: l["cells"][k]["layout"]["elems"][j].__setitem__("net", None))
                x0, y0, _, _ = shape_bbox(e["shape"]) if (e["shape"].get("G") or e["shape"].get("R") or (e["shape"].get("P") and e["shape"]["P"][0])) else (0, 0, 0, 0)
                if (x0, y0) != (0, 0) and abs(x0) < 10 ** 6:
                    w(lambda l, k=k, j=j, x0=x0, y0=y0: l["cells"][k]["layout"]["elems"][j].__setitem__("shape", shift(l["cells"][k]["layout"]["elems"][j]["shape"], -x0, -y0)))
        elif cell["abs"]:
            for j in range(len(cell["abs"]["ports"])):
                w(lambda l, k=k, j=j: l["cells"][k]["abs"]["ports"].pop(j))
    if lib["units"] != "Pico" and lib["units"] != "Nano":
        w(lambda l: l.__setitem__("units", "Nano"))
    return out

def shrink(chk, cfg, c, cls, rounds=10):
    cur = c
    for rd in range(rounds):
        cands = shrink_candidates(cur)[:60]
        if not cands:
            break
        rs = evaluate(chk, cfg, cands, "c07s%d" % rd)
        good = [cc for cc, (v, r) in zip(cands, rs) if v >= 0 and v % 10 == 2 and classify(cc, v, r) == cls]
        if not good:
            break
        cur = min(good, key=lib_size)
    return cur

def nontrivial(c):
    return any((cell["layout"] and (cell["layout"]["elems"] or cell["layout"]["insts"])) or (not cell["layout"] and cell["abs"]) for cell in c["lib"]["cells"])

def run(chk, replay=None):
    targets = ["Raw/RawGdsExportCheck.vo", "Raw/RawGdsAbstractCheck.vo"]
    chk.proof_leg(targets, "Properties/C07.v", ["Raw/RawGdsExport_proofs.v", "Raw/RawGdsRoundtrip_proofs.v", "Raw/RawGdsBridge_proofs.v", "Raw/RawGdsLibrary_proofs.v", "Raw/RawGdsNoPanic_proofs.v",
                                                "Raw/RawGdsAbstract_proofs.v"], "Properties.C07")
    kernel_tie_leg(chk, "transform")
    kernel_tie_leg(chk, "contains")       # label placement and the re-import's label pass call Polygon::contains
    kernel_tie_leg(chk, "raw")
    kernel_tie_leg(chk, "raw_gdsx")       # gds.rs export_point / export_layerspec / export_shape / label_location generated from the source = the model (Properties/KernelsRawGdsExport.v)
    chk.assumptions += [
        "Ptr<Cell> targets are indices into the library's own cell list (libraries closed under instantiation); locks not modelled",
        "LayerKey = slot index (no layer is ever removed); Layer.purps/nums are derived from the sequence of add_purpose calls",
        "isize = i64 (64-bit target); arithmetic overflow has debug-build semantics (panic)",
        "the dates of the exported GdsLibrary (time of the call) are compared as zeros",
        "import_units: `(x - c).abs() < eps` is decided on exact dyadic values; rounding of the subtraction cannot change the answer (Sterbenz inside [c/2, 2c], |x - c| >= c/2 >> eps outside)",
        "polygons: the run decides `inside` by the closed even-odd region of Geom/ContainsSpec.v (exact integer arithmetic); the theorems use the closed non-zero-winding region; that the two coincide for simple polygons is not proved (Jordan curve theorem), only for signed crossing numbers within {-1,0,1}",
        "C07_roundtrip_layouts_partial covers libraries whose cells all have layouts; C07_roundtrip_abstract covers libraries that mix layout cells and abstract-only cells: an abstract-only cell comes back as a LAYOUT cell whose content is abstract_image (outline on 32767/32767, every port shape on the Drawing and on the Pin number, both with the port's net; blockages and the abstract of a cell that also has a layout are not written: inherent to the format mapping), and the layer table grows by the outline slot only",
        "C07_roundtrip_abstract assumes outline_slot_okb: when the table already has a layer numbered 32767 WITHOUT purpose number 32767, that layer's Named/Other purposes are registered under their own numbers (the check of Layer::add_purpose, so true of every table built through the API)",
        "the importer side of the composition is builder-c06's model Raw/RawGds.v (any cfg with fx_contains and fx_pico true); GdsDepOrder through the C17 theorem on Order/DepOrderFixed.v",
        "exportable (the input space): i16 layer tables whose two maps agree and whose layer numbers are pairwise distinct; cell name = name of its layout/abstract, pairwise distinct cell names, nested hierarchy; coordinates and widths in i32; ASCII net names; Label purpose registered for named shapes; Manhattan paths with >= 2 points and no zero-length segment; simple polygons; a named polygon has a representable label location",
        "the export/import composition is observed at the gds21 data-structure level (to_gds / from_gds), as the property's observe_at says; no byte stream is written",
    ]
    if not getattr(chk, "model_ok", False):
        return
    cfg = model_cfg()
    chk.cov["model_variant"] = {"path_close": cfg[0], "contains_orig": cfg[1], "no_pico": cfg[2],
                                "source": "read from layout21raw/src/gds.rs and geom.rs of %s on this run" % vlib.REPO}
    for p in CFG_PROBLEMS:
        chk.broken.append("tie between the flagged model and the source is broken: " + p)
    pr = harness("c07", [{"op": "probe"}])[0]
    if pr.get("contains_fixed") is not None and pr["contains_fixed"] == cfg[1]:
        chk.broken.append("the source text of Polygon::contains and its behaviour on the two probe points disagree (text says %s)" % ("code as found" if cfg[1] else "repaired"))
    if replay:
        obj = json.load(open(replay))["replay"]
        cases = obj.get("cases", [])
        dist = {}
    else:
        cases, dist = gen_cases(chk)
    for c in cases:
        k = "case:" + c.get("kind", "?")
        dist[k] = dist.get(k, 0) + 1
    chk.cov["input_distribution"] = dist
    results = evaluate(chk, cfg, cases, "c07")
    codes = [v % 10 if v >= 0 else v for v, _ in results]
    chk.cov["evaluations"] = len(cases)
    keyed = {}
    for c, (v, r) in zip(cases, results):
        if v >= 0 and (v // 10) % 10 == 1 and nontrivial(c):
            keyed[json.dumps(c["lib"], sort_keys=True)] = 1
    chk.cov["distinct_nontrivial"] = len(keyed)
    chk.cov["rule"] = ("one evaluation = one raw library built through the public API, exported with to_gds and re-imported with from_gds(gds, Some(same Layers)); "
                       "checked in Coq against the exporter model (variant read from the source) and against the spec oracles raw_equiv / label inside / path stays open; "
                       "non-trivial = the library is exportable (inside the property's input space) and has a cell with shapes, instances or an exported abstract; distinct by JSON text of the library")
    chk.cov["traces_validated_against_impl"] = sum(1 for x in codes if x == 0)
    chk.cov["exportable_cases"] = sum(1 for v, _ in results if v >= 0 and (v // 10) % 10 == 1)
    chk.cov["exportable_and_unambiguous"] = sum(1 for v, _ in results if v >= 0 and (v // 10) % 10 == 1 and (v // 100) % 10 == 1)
    chk.cov["exportable_ambiguous_not_judged"] = sum(1 for v, _ in results if v >= 0 and (v // 10) % 10 == 1 and (v // 100) % 10 == 0 and (v // 1000) % 10 == 1)
    # (builder-c07a) abstract-only cells and the layer table after the round trip, judged on the implementation's output
    acodes = evaluate_abstract(chk, cases, results)
    nabs_cells = sum(sum(1 for cell in c["lib"]["cells"] if cell["abs"] and not cell["layout"]) for c, a in zip(cases, acodes) if a == 0)
    chk.cov["abstract_oracle"] = {
        "evaluated": sum(1 for a in acodes if a is not None),
        "judged_with_abstract_only_cell": sum(1 for a in acodes if a == 0),
        "abstract_only_cells_judged": nabs_cells,
        "judged_table_only": sum(1 for a in acodes if a == 1),
        "not_judged_outside_input_space_or_ambiguous": sum(1 for a in acodes if a == 10),
        "fails": sum(1 for a in acodes if a == 2),
        "judged_with_layer_32767_in_table": sum(1 for c, a in zip(cases, acodes) if a in (0, 1) and any(l["num"] == 32767 for l in c["lib"]["layers"])),
        "rule": "c07_abstract_check (Raw/RawGdsAbstractCheck.v): every abstract-only cell is found by name in the re-imported library as a cell without abstract whose layout is, as content, abstract_image of the abstract; the re-imported layer table answers like table_after (the source table, grown by the outline slot iff an abstract-only cell was exported)"}
    aviol = [(c, r, a) for c, (v, r), a in zip(cases, results, acodes) if a == 2]
    main_viol_ids = {id(c) for c, (v, r) in zip(cases, results) if v >= 0 and v % 10 == 2}
    aviol_only = [x for x in aviol if id(x[0]) not in main_viol_ids]
    if aviol_only:
        aviol_only.sort(key=lambda x: lib_size(x[0]))
        c, r, a = aviol_only[0]
        small = {k: v for k, v in c.items() if k != "probe"}
        chk.violation("raw->GDSII->raw [abstract-image]: on %d of %d cases an abstract-only cell does not come back as abstract_image of its abstract, or the layer table is not table_after; smallest: %s -> impl %s"
                      % (len(aviol_only), len(cases), json.dumps(small["lib"])[:900], json.dumps(r)[:900]),
                      {"cases": [small] + [{k: v for k, v in x[0].items() if k != "probe"} for x in aviol_only[1:6]], "class": "abstract-image", "impl": r},
                      suffix="-abstract-image")
    nl, nt = polygons_without_label_location(cases)
    chk.cov["named_simple_polygons_without_label_location"] = "%d of %d (export is an error by design: `exportable` demands a label location; not judged)" % (nl, nt)
    nshape = {}
    for c, (v, r) in zip(cases, results):
        if v >= 0 and (v // 10) % 10 == 1:
            for s, net in shapes_of(c):
                k = ("rect" if "R" in s else "polygon" if "G" in s else "path") + ("_named" if net is not None else "")
                nshape[k] = nshape.get(k, 0) + 1
    chk.cov["shapes_in_exportable_cases"] = nshape
    step = max(1, len(cases) // 4)
    chk.add_samples([{"case": {k: v for k, v in c.items() if k != "probe"}, "impl": r, "code": v} for c, (v, r) in list(zip(cases, results))[::step]], k=4)
    mism = [(c, v, r) for c, (v, r) in zip(cases, results) if v >= 0 and v % 10 == 1]
    crash = [(c, v, r) for c, (v, r) in zip(cases, results) if v < 0]
    viol = [(c, v, r) for c, (v, r) in zip(cases, results) if v >= 0 and v % 10 == 2]
    chk.cov["correspondence_mismatches"] = len(mism)
    # observations that C07 does not judge
    obs = {}
    for c, (v, r) in zip(cases, results):
        if v >= 0 and (v // 10) % 10 == 0:
            g = r.get("gds"); w = r.get("raw")
            if isinstance(g, dict) and "panic" in g:
                obs["export panics (outside the input space: %s)" % c.get("kind")] = obs.get("export panics (outside the input space: %s)" % c.get("kind"), 0) + 1
            elif isinstance(w, dict) and "panic" in w:
                obs["re-import panics (outside the input space: %s)" % c.get("kind")] = obs.get("re-import panics (outside the input space: %s)" % c.get("kind"), 0) + 1
            elif isinstance(w, dict) and "err" in w and c.get("kind") in ("badname", "dupname"):
                obs["re-import error (%s)" % c.get("kind")] = obs.get("re-import error (%s)" % c.get("kind"), 0) + 1
    if obs:
        chk.notes.append("not judged by C07 (inputs outside `exportable`; the exporter model agrees unless counted as mismatch): " + json.dumps(obs, sort_keys=True))
    by_class = {}
    for c, v, r in viol:
        by_class.setdefault(classify(c, v, r), []).append((c, v, r))
    chk.cov["violations_by_class"] = {k: len(x) for k, x in by_class.items()}
    for cls, vs in sorted(by_class.items()):
        vs.sort(key=lambda x: lib_size(x[0]))
        c0 = vs[0][0]
        if not replay:
            try:
                c0 = shrink(chk, cfg, c0, cls)
            except Exception as ex:
                chk.notes.append("shrinking failed: %s" % str(ex)[:200])
        v0, r0 = evaluate(chk, cfg, [c0], "c07w")[0]
        small = {k: v for k, v in c0.items() if k != "probe"}
        chk.violation("raw->GDSII->raw [%s]: %d of %d cases fail the property; smallest: %s -> impl %s"
                      % (cls, len(vs), len(cases), json.dumps(small["lib"])[:900], json.dumps(r0)[:900]),
                      {"cases": [small] + [{k: v for k, v in x[0].items() if k != "probe"} for x in vs[:6]], "class": cls, "impl": r0, "code": v0},
                      suffix="-" + cls)
    if crash and not viol:
        c, v, r = crash[0]
        chk.violation("raw->GDSII->raw: harness crash / unreconstructable output on a generated case: %s" % json.dumps(r)[:300],
                      {"cases": [{k: x for k, x in c.items() if k != "probe"}]})
    if mism:
        mism.sort(key=lambda x: lib_size(x[0]))
        c, v, r = mism[0]
        chk.write_log("mismatch.json", json.dumps({"case": c, "impl": r, "code": v}, indent=1))
        msg = "correspondence C07: impl differs from the exporter model on %d cases (property holds or silent), e.g. kind=%s (work/run/C07/mismatch.json)" % (len(mism), c.get("kind"))
        if viol:
            chk.notes.append(msg)
        else:
            chk.broken.append(msg)
