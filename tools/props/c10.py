from props.gdscommon import *
HARNESS_BINS = ["c01"]
def run(chk, replay=None):
    pass
