"""C10: the GDSII reader never panics / hangs / reads out of bounds on any bytes; truncated
streams are rejected; every library returned can be written and read back to the same value.
Model Gds/GdsRead.v (total, explicit Panic / OutOfFuel), theorems Properties/C10.v,
correspondence by fault injection against gds21::GdsLibrary::from_bytes (+ write + re-read)."""
import json, os, sys, time
from vlib import *
from props.kernelcommon import kernel_tie_leg
from props.gdscommon import *

HARNESS_BINS = ["c01"]
C10_PROOF_FILES = ["Gds/GdsSafety_proofs.v", "Gds/GdsImage_proofs.v",
                   # the write-then-read round trip that C10_reread composes with (shared with C01-C03)
                   "Gds/GdsRoundtrip_proofs.v", "Gds/GdsRtRead_proofs.v", "Gds/GdsRtUnfold_proofs.v", "Gds/GdsWrite_proofs.v", "Gds/GdsBytes_proofs.v"]
CLASS_REAL = "gds-real-rounds-to-16^63"
TWO252 = (252 + 1023) << 52
FOREIGN = ["/repo/gds21/resources/sample1.gds", "/repo/gds21/resources/invalid_dates.gds",
           "/repo/layout21converters/resources/sky130_fd_sc_hd__dfxtp_1.gds"]
VALID_RT = [x for x in range(60) if x not in (0x14, 0x18, 0x1D, 0x1E, 0x24, 0x25, 0x27, 0x28, 0x29, 0x34, 0x35)]
REAL_WORDS = [0x7FFFFFFFFFFFFFFF, 0xFFFFFFFFFFFFFFFC, 0x7FFFFFFFFFFFFFFB, 0x0000000000000001, 0x8000000000000000, 0x00FFFFFFFFFFFFFF,
              0x4110000000000000, 0x0010000000000000, 0x7F10000000000000, 0x7F00000000000001, 0x40FFFFFFFFFFFFFF, 0x4100000000000001, 0x41000000000000FF]

# generator audit 2026-10-02: words whose mantissa is zero although exponent / sign are not (they denote +-0 and are not what the
# writer produces), the smallest and largest un-normalised words
REAL_WORDS_2 = [0x4100000000000000, 0xC100000000000000, 0x7F00000000000000, 0xFF00000000000000, 0x0100000000000000,
                0x4000000000000001, 0x400FFFFFFFFFFFFF, 0x7F0FFFFFFFFFFFFF]

# fourth seeded wave (C10-m11): words whose value is the double just below / just above a power of sixteen, at several exponents and
# both signs (the writer's exponent estimate sits on the edge there: one step too high or too low changes the re-read value)
REAL_WORDS_3 = [(sg << 63) | (e << 56) | m for e in (0x41, 0x40, 0x42, 0x3F, 0x48, 0x38, 0x01, 0x7F, 0x20, 0x60)
                for m in (0xFFFFFFFFFFFFF8, 0xFFFFFFFFFFFFF0, 0x10000000000001, 0x10000000000000, 0x1FFFFFFFFFFFFF, 0x80000000000000) for sg in (0, 1)]

def read_str_repaired():
    """textual marker, re-read from the source on every run: does GdsReader::read_str guard `data[len - 1]` with `len > 0`?
    (commit a280dfb). The verdict does not depend on it (a panic fails the property whatever the model says); it selects
    which model the implementation is COMPARED with: Gds/GdsRead.v read_lib (repaired) or read_lib_orig (as found)."""
    import re
    try:
        src = open(os.path.join(REPO, "gds21/src/read.rs"), encoding="utf8").read()
    except OSError:
        return None
    m = re.search(r"fn read_str\b(.*?)\n    fn ", src, re.S)
    body = m.group(1) if m else src
    if re.search(r"len\s*>\s*0\s*&&\s*data\[len\s*-\s*1\]", body):
        return True
    if re.search(r"if\s+data\[len\s*-\s*1\]\s*==", body):
        return False
    return None

def rec(rt, dt, payload=b""):
    n = len(payload) + 4
    return bytes([n >> 8, n & 255, rt, dt]) + payload

# one well-formed record per record type of the GDSII table: (record type, data type, payload)
WELLFORMED = ([(rt, 0, b"") for rt in (0x04, 0x07, 0x08, 0x09, 0x0A, 0x0B, 0x0C, 0x11, 0x14, 0x15, 0x2D, 0x38)] +
              [(0x00, 2, b"\0\3"), (0x01, 2, bytes(24)), (0x05, 2, bytes(24)), (0x13, 2, b"\0\2\0\3"), (0x3B, 2, bytes(6))] +
              [(rt, 2, b"\0\1") for rt in (0x0D, 0x0E, 0x16, 0x21, 0x22, 0x2A, 0x2B, 0x2E, 0x36, 0x39, 0x29, 0x1E, 0x32, 0x33)] +
              [(rt, 1, b"\0\1") for rt in (0x17, 0x1A, 0x26)] +
              [(rt, 3, b"\0\0\0\5") for rt in (0x0F, 0x2F, 0x30, 0x31)] + [(0x10, 3, bytes(8)), (0x10, 3, bytes(40))] +
              [(0x03, 5, bytes.fromhex("3e4189374bc6a7f03944b82fa09b5a54")), (0x1B, 5, bytes.fromhex("4110000000000000")), (0x1C, 5, bytes.fromhex("425a000000000000"))] +
              [(rt, 6, b"ab") for rt in (0x02, 0x06, 0x12, 0x19, 0x1F, 0x20, 0x23, 0x2C, 0x37, 0x3A, 0x18, 0x1D, 0x27, 0x28)])
PROLOG = rec(0, 2, b"\0\3") + rec(1, 2, bytes(24)) + rec(2, 6, b"ab") + rec(3, 5, bytes.fromhex("3e4189374bc6a7f03944b82fa09b5a54"))
def in_lib(*recs):
    return PROLOG + b"".join(recs) + rec(4, 0)
def in_struct(*recs):
    return in_lib(rec(5, 2, bytes(24)), rec(6, 6, b"cell"), *recs, rec(7, 0))
def in_boundary(*recs):
    return in_struct(rec(8, 0), rec(0x0D, 2, b"\0\1"), rec(0x0E, 2, b"\0\2"), *recs, rec(0x10, 3, bytes(8)), rec(0x11, 0))
def in_text(*recs):
    return in_struct(rec(0x0C, 0), rec(0x0D, 2, b"\0\1"), rec(0x16, 2, b"\0\2"), *recs, rec(0x10, 3, bytes(8)), rec(0x19, 6, b"tx"), rec(0x11, 0))

def base_streams(chk, g, n):
    libs = [g.lib() for _ in range(n)]
    # make sure every element kind with every option occurs in some base stream
    libs.append(base_lib(b"all", [{"name": b"cell", "dates": list(range(12)), "elems": [g.elem(k, force=set(OPT_FIELDS[k])) for k in KINDS]}]))
    res = harness("c01", [{"op": "write", "lib": to_json(l)} for l in libs])
    return [bytes.fromhex(r["w"]["ok"]) for r in res if "w" in r and "ok" in r["w"]]

def directed_streams(chk):
    """impl-written streams of the directed libraries of gdscommon (optional fields holding their default value, STRANS flag
    combinations, repeated names / elements / attributes, white space and control characters, 48 properties): read, written again
    and re-read INTACT (the 'every library the reader returns can be written again and read back' half of the property on
    library values the random generator hardly produces)"""
    ds = [(fam, name, l) for fam, name, l in directed_libs(chk.seed, chk.tier == "quick", many=("many_props",)) if fam != "mid_len"]
    res = harness("c01", [{"op": "write", "lib": to_json(l)} for _, _, l in ds])
    return [(fam, bytes.fromhex(r["w"]["ok"])) for (fam, _, _), r in zip(ds, res) if "w" in r and "ok" in r["w"]]

def gen_cases(chk):
    quick = chk.tier == "quick"
    r = chk.rng
    g = Gen(r, allow_known=False, allow_empty=True, allow_out_of_range=False)
    cases = []
    dist = {}
    cur = [None]       # the stream the next cases are derived from (their Coq terms are written as edits of it)
    def add(kind, b):
        cases.append({"kind": kind, "bytes": bytes(b), "base": cur[0]})
        dist[kind] = dist.get(kind, 0) + 1
    streams = base_streams(chk, g, 48 if quick else 400)
    streams.sort(key=len)
    foreign = [open(f, "rb").read() for f in FOREIGN if os.path.exists(f) and os.path.getsize(f) > 0]
    # 0. the intact streams
    for s in streams:
        cur[0] = s
        add("intact", s)
    cur[0] = None
    for fam, s in directed_streams(chk):
        add("intact_directed_" + fam, s)
    # 1. every truncation point (small streams), record boundaries +-1 (all streams, foreign files)
    # budgets (thorough): the evaluation costs about 80 us of coqc time per stream byte, so the tiers are sized in bytes:
    # quick ~3 MB, thorough ~400 MB of streams (most of it shared: a case is written as an edit of its base stream)
    small = [s for s in streams if len(s) <= (400 if quick else 3000)]
    nsmall = 8 if quick else 120
    for s in small[:nsmall]:
        cur[0] = s
        for k in range(len(s)):
            add("truncate_every", s[:k])
    for s in [t for t in streams if not any(t is u for u in small[:nsmall])] + foreign:
        recs = split_py(s)
        pts = set()
        for off, ln in recs:
            pts.update([off, off + 1, off + 2, off + 3, off + 4, off + ln - 1])
        pts = sorted(p for p in pts if p < len(s))
        if quick:
            pts = r.sample(pts, min(len(pts), 8 if len(s) < 5000 else 3))
        else:
            pts = r.sample(pts, min(len(pts), 60 if len(s) < 5000 else 16 if len(s) < 20000 else 6))
        cur[0] = s
        for k in pts:
            add("truncate_boundary", s[:k])
    # 2. per record: length field faults, zero-length payload, type bytes, structure faults
    for si, s in enumerate(streams + foreign):
        recs = split_py(s)
        if not recs:
            continue
        cur[0] = s
        idxs = list(range(len(recs)))
        if quick:
            idxs = r.sample(idxs, min(len(idxs), 3 if len(s) < 5000 else 2))
        else:
            idxs = r.sample(idxs, min(len(idxs), 10 if len(s) < 5000 else 4 if len(s) < 20000 else 2))
        # thorough: the record type and data type bytes take EVERY value 0..255 at four record positions of every stream
        # of at most 800 bytes; elsewhere a sample that always contains valid, invalid and out-of-table values
        exhaustive = set(idxs[:4]) if (not quick and len(s) <= 800) else set()
        for i in idxs:
            off, ln = recs[i]
            for nl in (0, 1, 2, 3, ln + 1, ln - 2, ln + 2, 0xFFFF, 0xFFFE, 4):
                if nl < 0 or nl == ln:
                    continue
                add("len_field", s[:off] + bytes([nl >> 8, nl & 255]) + s[off + 2:])
            add("zero_payload", s[:off] + bytes([0, 4]) + s[off + 2:off + 4] + s[off + ln:])
            if quick:
                rts = r.sample(range(256), 3) + r.sample(VALID_RT, 5) + [r.choice([0x3B, 0x3C, 0xFF])]
            elif i in exhaustive:
                rts = range(256)
            else:
                rts = r.sample(range(256), 6) + r.sample(VALID_RT, 10) + [0x3B, 0x3C, 0xFF]
            for v in rts:
                if v != s[off + 2]:
                    add("rtype_byte", s[:off + 2] + bytes([v]) + s[off + 3:])
            for v in (r.sample(range(8), 4) + [r.choice([8, 255])] if quick else range(256) if i in exhaustive else list(range(9)) + [0x80, 0xFF]):
                if v != s[off + 3]:
                    add("dtype_byte", s[:off + 3] + bytes([v]) + s[off + 4:])
            add("rec_deleted", s[:off] + s[off + ln:])
            add("rec_duplicated", s[:off + ln] + s[off:off + ln] + s[off + ln:])
            if i + 1 < len(recs):
                o2, l2 = recs[i + 1]
                add("rec_swapped", s[:off] + s[o2:o2 + l2] + s[off:off + ln] + s[o2 + l2:])
            t = r.choice(streams)
            tr = split_py(t)
            if tr:
                o2, l2 = r.choice(tr)
                add("rec_spliced", s[:off] + t[o2:o2 + l2] + s[off:])
                add("rec_replaced", s[:off] + t[o2:o2 + l2] + s[off + ln:])
            # a byte flipped inside the payload
            if ln > 4:
                p = off + 4 + r.randrange(ln - 4)
                add("payload_byte", s[:p] + bytes([s[p] ^ (1 << r.randrange(8))]) + s[p + 1:])
    cur[0] = None
    # 3. zero-length payload / short payloads for EVERY record type and data type, in each context
    ctxs = ((in_lib, "lib"), (in_struct, "struct"), (in_boundary, "boundary"), (in_text, "text"))
    for rt in range(64):
        for dt in range(8):
            for ci, (ctx, nm) in enumerate(ctxs):
                if quick and (rt + dt + ci + chk.seed) % 4 != 0:
                    continue
                add("empty_rec_in_" + nm, ctx(rec(rt, dt)))
        for pi, pl in enumerate((b"\0\0", b"\0\0\0\0", bytes(8), bytes(6), bytes(24))):
            for dt in (1, 2, 3, 5, 6):
                if quick and (rt + dt + pi + chk.seed) % 5 != 0:
                    continue
                add("short_rec", in_text(rec(rt, dt, pl)) if rt % 2 else in_lib(rec(rt, dt, pl)))
    # 3b. a WELL-FORMED record of every record type (payload as its (type, datatype, length) arm wants it) dropped into each
    # context, alone and followed by the records that usually follow it: the reader must come back with a library or an
    # error on each (a record it skips must not make it wait for a companion that never comes)
    for rt, dt, pl in WELLFORMED:
        for ctx, nm in ctxs:
            add("wellformed_in_" + nm, ctx(rec(rt, dt, pl)))
        add("wellformed_in_lib", in_lib(rec(rt, dt, pl), rec(rt, dt, pl)))
        add("wellformed_before_lib", rec(0, 2, b"\0\3") + rec(1, 2, bytes(24)) + rec(rt, dt, pl) + rec(2, 6, b"ab") + rec(3, 5, bytes(16)) + rec(4, 0))
    add("wellformed_in_lib", in_lib(rec(0x36, 2, b"\0\1"), rec(0x37, 6, b"m1"), rec(0x37, 6, b"m2"), rec(0x38, 0)))
    add("wellformed_in_lib", in_lib(rec(0x36, 2, b"\0\1"), rec(0x37, 6, b"m1")))
    add("wellformed_in_lib", in_lib(rec(0x37, 6, b"m1"), rec(0x38, 0)))
    # 4. reals: special eight-byte words in UNITS / MAG / ANGLE (incl. the known class words)
    for w in REAL_WORDS + REAL_WORDS_2 + REAL_WORDS_3:
        wb = w.to_bytes(8, "big")
        add("real_word", rec(0, 2, b"\0\3") + rec(1, 2, bytes(24)) + rec(2, 6, b"ab") + rec(3, 5, wb + wb) + rec(4, 0))
        add("real_word", in_text(rec(0x1A, 1, b"\x80\x06"), rec(0x1B, 5, wb)))
        add("real_word", in_text(rec(0x1A, 1, b"\0\0"), rec(0x1C, 5, wb), rec(0x1B, 5, wb), rec(0x1C, 5, bytes(8))))
    # 5. strings: NUL padding variants, invalid UTF-8; XY with stray bytes / odd counts
    for pl in (b"", b"\0\0", b"a\0", b"a\0\0\0", b"\0\0\0\0", b"\xff\xfe", b"\xc3\x28", b"\xe2\x82", b"\xed\xa0\x80\0", b"\xf4\x90\x80\x80", b"\xc0\xaf", b"\xc3\xa9", b"ab\xc3", b"\xc3\xa9\0\0"):
        add("string_payload", rec(0, 2, b"\0\3") + rec(1, 2, bytes(24)) + rec(2, 6, pl) + rec(3, 5, bytes(16)) + rec(4, 0))
        add("string_payload", in_text(rec(0x19, 6, pl)))
        add("string_payload", in_boundary(rec(0x2B, 2, b"\0\1"), rec(0x2C, 6, pl)))
    # 5a. long non-ASCII strings in every string record type, in every context (most are rejected there: the error value carries the
    # record): 4-, 3- and 2-byte characters after 0..3 ASCII bytes, so that every byte offset below 300 falls inside a character in
    # one of the variants (a reader that cuts a string at a byte offset - for a message, a preview, a limit - must cut on a boundary)
    for rt in (0x02, 0x06, 0x12, 0x19, 0x1F, 0x20, 0x23, 0x2C, 0x37, 0x3A, 0x18, 0x1D, 0x27, 0x28):
        for k, ch, n in ((0, "\U0001F600", 76), (1, "\U0001F600", 76), (2, "\U0001F600", 76), (3, "\U0001F600", 76), (0, "\u4e2d", 101), (1, "\u4e2d", 101), (2, "\u4e2d", 101), (0, "\u00e9", 151), (1, "\u00e9", 151)):
            pl = b"a" * k + (ch * n).encode("utf8")
            pl += b"\0" * (len(pl) % 2)
            for ctx, nm in ctxs:
                add("long_nonascii_string_in_" + nm, ctx(rec(rt, 6, pl)))
            add("long_nonascii_string_in_lib", rec(0, 2, b"\0\3") + rec(1, 2, bytes(24)) + rec(rt, 6, pl) + rec(2, 6, b"ab") + rec(3, 5, bytes(16)) + rec(4, 0))
    for n in (0, 2, 4, 6, 10, 12, 14, 8, 16, 24):
        add("xy_len", in_struct(rec(8, 0), rec(0x0D, 2, b"\0\1"), rec(0x0E, 2, b"\0\2"), rec(0x10, 3, bytes(n)), rec(0x11, 0)))
        add("xy_len", in_struct(rec(0x0C, 0), rec(0x0D, 2, b"\0\1"), rec(0x16, 2, b"\0\2"), rec(0x10, 3, bytes(n)), rec(0x19, 6, b"tx"), rec(0x11, 0)))
        add("xy_len", in_struct(rec(0x2D, 0), rec(0x0D, 2, b"\0\1"), rec(0x2E, 2, b"\0\2"), rec(0x10, 3, bytes(n + 32)), rec(0x11, 0)))
        add("xy_len", in_struct(rec(0x0B, 0), rec(0x12, 6, b"cc"), rec(0x13, 2, bytes(4)), rec(0x10, 3, bytes(n + 16)), rec(0x11, 0)))
    # 5b. records of the largest size the length field can express (payload 65530: the reader's buffer is 65537 bytes) and at the
    # signed-16-bit boundary (record length 32768), complete and cut short; a short string after a long one (shared buffer)
    def text_with(*strs):
        return b"".join(rec(0x0C, 0) + rec(0x0D, 2, b"\0\1") + rec(0x16, 2, b"\0\2") + rec(0x10, 3, bytes(8)) + rec(0x19, 6, st) + rec(0x11, 0) for st in strs)
    big = b"s" * 65529 + b"e"
    add("long_record", in_struct(text_with(big)))
    add("long_record", in_struct(text_with(big, b"ab", b"")))
    add("long_record", in_struct(text_with(b"s" * 32763 + b"e")))
    add("long_record", in_struct(text_with(b"s" * 32766 + b"e\0")))
    add("long_record", rec(0, 2, b"\0\3") + rec(1, 2, bytes(24)) + rec(2, 6, big) + rec(3, 5, bytes(16)) + rec(4, 0))
    add("long_record", in_boundary(rec(0x2B, 2, b"\0\1"), rec(0x2C, 6, big)))
    add("long_record", in_struct(rec(8, 0), rec(0x0D, 2, b"\0\1"), rec(0x0E, 2, b"\0\2"), rec(0x10, 3, b"\x01" * 65528), rec(0x11, 0)))
    add("long_record", in_struct(rec(0x15, 0), rec(0x0D, 2, b"\0\1"), rec(0x2A, 2, b"\0\2"), rec(0x10, 3, b"\xff" * 65524), rec(0x11, 0)))
    add("long_record", in_struct(rec(9, 0), rec(0x0D, 2, b"\0\1"), rec(0x0E, 2, b"\0\2"), rec(0x10, 3, b"\x02" * 32768), rec(0x11, 0)))
    lt = in_struct(text_with(big))
    add("long_record", lt[:len(lt) - 20])
    add("long_record", lt[:70000 - 4464])
    # missing required fields, duplicated setters, ENDLIB in odd places
    add("structural", rec(4, 0))
    add("structural", rec(0, 2, b"\0\3") + rec(4, 0))
    add("structural", rec(0, 2, b"\0\3") + rec(1, 2, bytes(24)) + rec(4, 0))
    add("structural", rec(0, 2, b"\0\3") + rec(1, 2, bytes(24)) + rec(2, 6, b"ab") + rec(4, 0))
    add("structural", rec(0, 2, b"\0\3") + rec(1, 2, bytes(24)) + rec(3, 5, bytes(16)) + rec(4, 0))
    add("structural", in_lib(rec(2, 6, b"second"), rec(3, 5, bytes(16))))
    add("structural", in_lib(rec(5, 2, bytes(24)), rec(4, 0)))
    add("structural", in_struct(rec(8, 0), rec(4, 0)))
    add("structural", in_struct(rec(8, 0), rec(0x11, 0)))
    add("structural", in_struct(rec(0x0C, 0), rec(0x1A, 1, b"\0\0"), rec(4, 0)))
    add("structural", in_struct(rec(0x0A, 0), rec(0x2B, 2, b"\0\1"), rec(4, 0)))
    add("structural", in_boundary(rec(0x2B, 2, b"\0\1"), rec(0x2B, 2, b"\0\1")))
    add("structural", in_boundary(rec(0x0D, 2, b"\0\7"), rec(0x0D, 2, b"\0\7")))
    # 6. noise
    for _ in range(250 if quick else 10000):
        n = r.choice([0, 1, 2, 3, 4, 5, 6, 8, 16, 40, 64])
        add("noise", bytes(r.getrandbits(8) for _ in range(n)))
    for _ in range(250 if quick else 10000):
        # plausible headers followed by noise
        b = bytearray(PROLOG if r.random() < 0.5 else b"")
        for _ in range(r.randrange(1, 8)):
            n = r.choice([0, 2, 4, 8, 16, 24])
            b += rec(r.choice(VALID_RT), r.randrange(7), bytes(r.getrandbits(8) for _ in range(n)))
        if r.random() < 0.5:
            b += rec(4, 0)
        add("noise_records", b)
    return cases, dist

PHDR = HDR + "From Coq Require Import Uint63.\nFrom L21 Require Import Gds.GdsPack.\n"

def pbytes(b):
    """bytes -> Coq term of type list Z through Gds/GdsPack.v: seven bytes per primitive-integer literal (coqc reads those
    about ten times faster than the characters of a string literal); long runs of one byte become `rep`"""
    b = bytes(b)
    if len(b) < 14:
        return cbytes(b)
    if len(b) > 256:
        best, i, n = (0, 0), 0, len(b)
        while i < n:
            j = i
            while j < n and b[j] == b[i]:
                j += 1
            if j - i > best[1] - best[0]:
                best = (i, j)
            i = j
        st, e = best
        if e - st > 128:
            parts = ([str(pbytes(b[:st]))] if st else []) + ["(rep %d %d)" % (b[st], e - st)] + ([str(pbytes(b[e:]))] if e < n else [])
            return Raw("(" + " ++ ".join(parts) + ")")
    out = []
    for a in range(0, len(b), 1750):
        ch = b[a:a + 1750]
        k = len(ch) // 7 * 7
        ws = "; ".join(str(int.from_bytes(ch[i:i + 7], "big")) for i in range(0, k, 7))
        tl = "; ".join(str(x) for x in ch[k:])
        out.append("(unpack [%s]%%uint63 [%s])" % (ws, tl))
    return Raw(out[0] if len(out) == 1 else "(" + " ++ ".join(out) + ")")

def case_term(c, names):
    """Coq term for the bytes of a case. A case derived from a base stream is written as an edit of it,
    `firstn p B ++ middle ++ skipn q B` (common prefix / suffix computed here and asserted to reproduce the bytes; the harness always gets
    the plain bytes), so that a shard file holds each base stream once
    instead of once per case (reading a byte string literal costs coqc about 100 us per byte)."""
    b, base = c["bytes"], c.get("base")
    if base is None or len(b) < 160 or len(base) < 160:
        return pbytes(b), None
    m = min(len(b), len(base))
    p = 0
    while p < m and b[p] == base[p]:
        p += 1
    q = 0
    while q < m - p and b[len(b) - 1 - q] == base[len(base) - 1 - q]:
        q += 1
    mid = b[p:len(b) - q]
    if len(mid) * 2 > len(b):
        return pbytes(b), None
    assert base[:p] + mid + base[len(base) - q:] == b
    k = names.setdefault(base, len(names))
    parts = []
    if p:
        parts.append("firstn (Z.to_nat %d) B_%d" % (p, k))
    if mid:
        parts.append(str(pbytes(mid)))
    if q:
        parts.append("skipn (Z.to_nat %d) B_%d" % (len(base) - q, k))
    return Raw("(" + " ++ ".join(parts or ["(@nil Z)"]) + ")"), base

def eval_balanced(chk, items, tag, deps=None, names=None, raw=None):
    """c10_check terms -> codes. One coqc per bin, NCPU at a time. The terms differ in size by three orders of magnitude, so
    the bins are balanced by size (largest group first into the lightest bin) instead of by count; the items that are edits of
    a base stream (deps[i] = that stream) are grouped by base, and a bin's file defines the bases it uses once, in its header."""
    if not items:
        return []
    from concurrent.futures import ThreadPoolExecutor as TPE
    deps = deps or [None] * len(items)
    names = names or {}
    groups = {}
    for i, d in enumerate(deps):
        groups.setdefault(d, []).append(i)
    chunks = []                                  # (cost, base, [item indices])
    for d, ix in groups.items():
        step = 400 if d is not None else 150
        for a in range(0, len(ix), step):
            part = ix[a:a + step]
            chunks.append((sum(len(str(items[i])) + 2500 for i in part) + (2 * len(d) + 20000 if d is not None else 0), d, part))
    nb = max(1, min(len(chunks), max(3 * NCPU, sum(ch[0] for ch in chunks) // 4000000)))
    bins = [[] for _ in range(nb)]
    load = [0] * nb
    for ch in sorted(chunks, key=lambda ch: -ch[0]):
        b = load.index(min(load))
        bins[b].append(ch)
        load[b] += ch[0]
    bins = [b for b in bins if b]
    def run(bi):
        ix = [i for ch in bins[bi] for i in ch[2]]
        bases = []
        for ch in bins[bi]:
            if ch[1] is not None and ch[1] not in bases:
                bases.append(ch[1])
        hdr = PHDR + "".join("Definition B_%d : list Z := Eval vm_compute in %s.\n" % (names[d], pbytes(d)) for d in bases)
        t0 = time.time()
        # several checks per Coq command (a list of codes): the fixed cost of a command is about as large as a small check
        K = 12
        packs = [ix[a:a + K] for a in range(0, len(ix), K)]
        # self-test of the byte packing (Gds/GdsPack.v against Base/Hex.v unhex) on a stream of this bin
        probe = raw[ix[0]] if raw is not None else b"\x00\x01\x7f\x80\xfe\xff" * 5
        selftest = "[if zlist_eqb %s %s then 0 else 1]" % (pbytes(probe[:4000]), cbytes(probe[:4000]))
        po = coq_eval_lists(hdr, [selftest] + ["[" + "; ".join(str(items[i]) for i in pk) + "]" for pk in packs], chk.rundir, "%s_b%02d" % (tag, bi), shard=len(packs) + 1)
        if po[0].replace(" ", "") != "[0]":
            raise RuntimeError("c10: byte packing self-test failed in %s_b%02d: %r" % (tag, bi, po[0][:100]))
        po = po[1:]
        o = []
        for pk, txt in zip(packs, po):
            vals = [v.strip() for v in txt.strip().strip("[]").split(";") if v.strip()]
            if len(vals) != len(pk):
                raise RuntimeError("c10: result count mismatch in %s_b%02d: %r" % (tag, bi, txt[:200]))
            o.extend(vals)
        if os.environ.get("C10_DEBUG"):
            print("bin", bi, "items", len(ix), "cost", sum(ch[0] for ch in bins[bi]), "bases", [len(d) for d in bases], "chunks", [(len(ch[2]), ch[0]) for ch in bins[bi]][:6], "t", round(time.time() - t0, 1), file=sys.stderr)
        return ix, o
    with TPE(max_workers=NCPU) as ex:
        outs = list(ex.map(run, range(len(bins))))
    codes = [None] * len(items)
    for ix, o in outs:
        for i, s in zip(ix, o):
            codes[i] = parse_z(s)
    return codes

def evaluate(chk, cases, tag):
    res = harness("c01", [{"op": "read_write_read", "bytes": c["bytes"].hex()} for c in cases], timeout=1800, chunk=20000)
    items, idx, deps, names = [], [], [], {}
    out = [None] * len(cases)
    for i, (c, r) in enumerate(zip(cases, res)):
        if "r" not in r:
            out[i] = (2, r)            # crash / hang / harness error
            continue
        w = r.get("w")
        wtag = 3 if w is None else 0 if "ok" in w else 1 if "err" in w else 2
        term, dep = case_term(c, names)
        items.append(capp("c10_check", term, c_rres(r["r"]), cz(wtag), c_rres(r.get("r2"))))
        idx.append(i)
        deps.append(dep)
    codes = eval_balanced(chk, items, tag, deps, names, raw=[cases[i]["bytes"] for i in idx])
    for i, cde in zip(idx, codes):
        r = res[i]
        slim = {"r": "ok" if "ok" in r["r"] else r["r"]}
        if "ok" in r["r"]:
            slim["reals"] = [x for x in lib_reals_py(r["r"]["ok"]) if (x & ~(1 << 63)) == TWO252]
            slim["w"] = r.get("w"); slim["eq"] = r.get("eq")
            slim["r2"] = "ok" if "ok" in r.get("r2", {}) else r.get("r2")
        out[i] = (cde, slim)
    return out

def guards(chk):
    """impl-only guards: big inputs one per process with a timeout (hang / stack overflow / abort), and a linearity measurement"""
    unit = rec(5, 2, bytes(24)) + rec(6, 6, b"cell") + rec(8, 0) + rec(0x0D, 2, b"\0\1") + rec(0x0E, 2, b"\0\2") + rec(0x10, 3, bytes(40)) + rec(0x11, 0) + rec(7, 0)
    ns = [2000, 4000, 8000, 16000, 32000]
    cases = [{"op": "read_time", "pre": PROLOG.hex(), "unit": unit.hex(), "post": rec(4, 0).hex(), "n": n, "expect": "ok:%d" % n} for n in ns]
    # adversarial shapes: unterminated, huge element, huge strans chain, no ENDLIB
    mag = rec(0x1B, 5, bytes(8))
    cases.append({"op": "read_time", "pre": (PROLOG + rec(5, 2, bytes(24)) + rec(6, 6, b"cell") + rec(0x0C, 0) + rec(0x1A, 1, b"\0\0")).hex(), "unit": mag.hex(), "post": b"".hex(), "n": 200000})
    cases.append({"op": "read_time", "pre": (PROLOG + rec(5, 2, bytes(24)) + rec(6, 6, b"cell") + rec(8, 0)).hex(), "unit": rec(0x0D, 2, b"\0\1").hex(), "post": b"".hex(), "n": 300000})
    cases.append({"op": "read_time", "pre": PROLOG.hex(), "unit": rec(2, 6, b"ab").hex(), "post": b"".hex(), "n": 300000})
    cases.append({"op": "read_time", "pre": b"".hex(), "unit": b"\xff".hex(), "post": b"".hex(), "n": 2000000})
    # generator audit 2026-10-02: time against the number of properties of ONE element and of elements of ONE struct (the series
    # above grows the number of structs only); three runs per size, the fastest counts (see run)
    bgn = PROLOG + rec(5, 2, bytes(24)) + rec(6, 6, b"cell")
    el = rec(8, 0) + rec(0x0D, 2, b"\0\1") + rec(0x0E, 2, b"\0\2") + rec(0x10, 3, bytes(8)) + rec(0x11, 0)
    series = {}
    for nm, pre, un, post in (("props_of_one_element", bgn + el[:-4], rec(0x2B, 2, b"\0\1") + rec(0x2C, 6, b"value!"), rec(0x11, 0) + rec(7, 0) + rec(4, 0)),
                              ("elements_of_one_struct", bgn, el, rec(7, 0) + rec(4, 0))):
        series[nm] = []
        for n in NS2:
            for _ in range(3):
                series[nm].append(len(cases))
                cases.append({"op": "read_time", "pre": pre.hex(), "unit": un.hex(), "post": post.hex(), "n": n, "expect": "ok:1", "series": nm})
    res = harness("c01", cases, timeout=60, chunk=1)
    return ns, cases, res, series
NS2 = [4000, 16000, 64000]

def classify(c, impl):
    if isinstance(impl, dict) and impl.get("reals") and impl.get("eq") is False:
        return CLASS_REAL
    if isinstance(impl, dict) and isinstance(impl.get("r"), dict) and "panic" in impl["r"]:
        return "read-panic"
    if isinstance(impl, dict) and ("crash" in impl):
        return "crash-or-hang"
    return "other"

def run(chk, replay=None):
    chk.proof_leg(MODEL_TARGETS + ["Gds/GdsPack.vo"], "Properties/C10.v", C10_PROOF_FILES, "Properties.C10")
    kernel_tie_leg(chk, "gds_read")       # GdsReader::read_record_header / read_record_content / read_record generated from gds21/src/read.rs = read_header / read_content / read_record of the reader model (Properties/KernelsGdsCodec.v)
    kernel_tie_leg(chk, "gds_parse")      # GdsParser::parse_property / parse_strans generated from gds21/src/read.rs = the parser model (Properties/KernelsGdsCodec.v)
    kernel_tie_leg(chk, "gds_parse_e1")   # GdsParser::parse_boundary / parse_path / parse_node / parse_box = parse_elem of Gds/GdsRead.v, fuel for fuel
    kernel_tie_leg(chk, "gds_parse_e2")   # GdsParser::parse_struct_ref / parse_array_ref / parse_text_elem = parse_elem
    kernel_tie_leg(chk, "gds_parse_lib")  # GdsParser::parse_struct / parse_lib (+ the generated read_record) = parse_struct / parse_lib / read_lib_fuel
    chk.assumptions += [
        "time and stack use of the implementation are measured, not proved (DESIGN.md section 4): the model-level statement is a bound on fuel / records read",
        "out-of-bounds reads cannot be expressed in the model other than as Panic (every slice is checked); the correspondence shows the impl agrees class by class",
        "reading from a byte slice (GdsLibrary::from_bytes); errors compared by GdsError variant",
        "runner glue: byte strings reach coqc packed seven to a primitive integer literal (Gds/GdsPack.v, self-tested against Base/Hex.v unhex in every shard of every run) and, for a case derived from a base stream, as an edit `firstn p B ++ middle ++ skipn q B` of it (asserted in Python to reproduce the bytes the harness gets)",
    ]
    if not getattr(chk, "model_ok", False):
        return
    if replay:
        obj = json.load(open(replay))["replay"]
        cases = [{"kind": "replay", "bytes": bytes.fromhex(h)} for h in obj.get("cases", [])]
        dist = {}
    else:
        cases, dist = gen_cases(chk)
    results = evaluate(chk, cases, "c10")
    rep = read_str_repaired()
    chk.cov["model_variant"] = {True: "repaired read_str (`len > 0 &&` guard present in gds21/src/read.rs): compared with read_lib",
                                False: "read_str as found (no `len > 0` guard): panics additionally compared with read_lib_orig",
                                None: "read_str not recognised in gds21/src/read.rs: compared with read_lib"}[rep]
    if rep is None:
        chk.broken.append("source marker: GdsReader::read_str in gds21/src/read.rs has neither the as-found nor the repaired form; the model may not describe it")
    if rep is False:
        # the code as found: the model of the code as found must predict every panic (and everything else)
        idx = [i for i, (c, r) in enumerate(zip(cases, results)) if isinstance(r[1], dict) and "r" in r[1]]
        res0 = harness("c01", [{"op": "read", "bytes": cases[i]["bytes"].hex()} for i in idx], timeout=300)
        items = [capp("c10_check_orig", pbytes(cases[i]["bytes"]), c_rres(r0["r"])) for i, r0 in zip(idx, res0) if "r" in r0]
        oc = eval_balanced(chk, items, "c10orig")
        chk.cov["as_found_model_agrees"] = "%d of %d" % (sum(1 for x in oc if x == 0), len(oc))
    chk.cov["input_distribution"] = dist
    chk.cov["rule"] = ("fault injection per DESIGN.md C10 on impl-written streams of generated libraries and on the repository's GDSII files: truncation at every byte / around every record boundary, "
                       "length-field faults, zero-length payloads for every record and data type in four contexts, record/data type byte replaced, records deleted/duplicated/swapped/spliced, "
                       "special real words, string and XY payload variants, records of the largest size, the directed libraries of C01 read intact, random noise; non-trivial = at least one complete record header; distinct by byte string")
    chk.cov["evaluations"] = len(cases)
    chk.cov["distinct_nontrivial"] = len({c["bytes"] for c in cases if len(c["bytes"]) >= 4})
    chk.cov["traces_validated_against_impl"] = sum(1 for r in results if r[0] == 0)
    chk.cov["accepted_streams"] = sum(1 for r in results if isinstance(r[1], dict) and r[1].get("r") == "ok")
    chk.add_samples([{"kind": c["kind"], "len": len(c["bytes"]), "head": c["bytes"][:48].hex(), "impl": r[1], "code": r[0]}
                     for c, r in list(zip(cases, results))[:: max(1, len(cases) // 6)]], k=6)
    if not replay:
        ns, gcases, gres, series = guards(chk)
        meas = []
        for c, r in zip(gcases, gres):
            meas.append({"n": c["n"], "unit_len": len(c["unit"]) // 2, "len": r.get("len"), "ns": r.get("ns"), "r": r.get("r"), "crash": r.get("crash"), "panic": r.get("panic")})
            if c.get("series"):
                meas[-1]["series"] = c["series"]
            if c.get("expect") and "r" in r and r["r"] != c["expect"] and not str(r["r"]).startswith("panic"):
                chk.broken.append("correspondence C10: a well-formed stream of %d copies of %s is read as %s, expected %s" % (c["n"], c["unit"][:60], r["r"], c["expect"]))
            if "crash" in r or "panic" in r or str(r.get("r", "")).startswith("panic"):
                chk.violation("GDSII reader crashed, hung or panicked on a large input (%s copies of %s after %s): %s" % (c["n"], c["unit"][:40], c["pre"][:40], json.dumps(r)[:200]),
                              {"guard_case": c}, suffix="-guard")
        chk.cov["timing"] = meas
        t = [m["ns"] for m in meas[:len(ns)] if m["ns"]]
        if len(t) == len(ns):
            ratio = t[-1] / max(1, t[0])
            chk.cov["time_ratio_%dx_input" % (ns[-1] // ns[0])] = round(ratio, 2)
            if ratio > 4 * ns[-1] / ns[0]:
                chk.violation("GDSII reader time is not proportional to input length: %s structs take %d ns, %s take %d ns" % (ns[0], t[0], ns[-1], t[-1]),
                              {"timing": meas}, suffix="-time")
    if not replay:
        for nm, ix in series.items():
            best = {}
            for i in ix:
                if gres[i].get("ns"):
                    best[gcases[i]["n"]] = min(best.get(gcases[i]["n"], 1 << 62), gres[i]["ns"])
            if len(best) == len(NS2):
                ratio = best[NS2[-1]] / max(1, best[NS2[0]])
                chk.cov["time_ratio_%dx_%s" % (NS2[-1] // NS2[0], nm)] = round(ratio, 2)
                if ratio > 4 * NS2[-1] / NS2[0]:
                    chk.violation("GDSII reader time is not proportional to input length (%s): %d take %d ns, %d take %d ns" % (nm, NS2[0], best[NS2[0]], NS2[-1], best[NS2[-1]]),
                                  {"timing": [m for m in meas if m.get("series") == nm]}, suffix="-time-" + nm)
    report(chk, chk.pid, "GDSII reader on damaged / arbitrary bytes", cases, results,
           classify=classify, to_replay=lambda c: c["bytes"].hex(), size=lambda c: len(c["bytes"]),
           describe=lambda c: "%s bytes=%s" % (c["kind"], c["bytes"].hex()[:400]))
