"""C18: JSON / YAML copies of GDSII and LEF libraries are lossless.
Proof leg: Properties/C18.v over the serde shapes regenerated from the Rust sources.
Correspondence: values generated GENERICALLY from those shapes (every field of every type, so new fields are
covered automatically) -> the real types via serde -> to_string/from_str and save/open in JSON and YAML."""
import json, os, struct
from vlib import *

SPECIAL_STRINGS = [
    "", " ", "a", "abc", " lead", "trail ", "  ", "a b", "a: b", "a:b", ": x", "# c", "a # c", "a#c", "'", '"', "''", '"q"', "it's",
    "\\", "\\n", "a\\b", "\n", "a\nb", "a\n", "\nb", "a\n\nb", "a\n  \nb", "\r", "a\r\nb", "\t", "a\tb", "\x00", "a\x00b", "\x7f", "\x1b",
    "\u0085", "a\u0085b", " ", " ", "﻿", "﻿abc", "é", "日本語", "😀", "é", "~", "null", "Null", "NULL", "true", "false",
    "True", "yes", "no", "on", "off", "y", "n", "1", "1.0", "-1", "0x10", "0o7", "1e3", ".5", "+1", "1_000", ".inf", ".nan", "-.inf", "0.1", "1:30",
    "- a", "-", "- ", "? a", "?", "| a", "|", "> a", ">", "& a", "* a", "! a", "!tag", "% a", "@ a", "` a", "[a]", "{a}", "[", "]", "{", "}", ",",
    "a, b", "---", "...", "--- a", "<<", "=", "a\\", "a'b\"c", "\"", " # ", "key: [1, 2]", "'single'", "a  b", "x" * 200, "line1\nline2\n  indented\n",
    " ", "a ", "​", "tab\there", " \t ", "\\u0041", "\\x41", "%41", "&amp;", "</script>", "\U0001F600\u0000",
]
# generator audit 2026-10-02: words that YAML 1.1 types implicitly (dates, sexagesimal, binary / octal, merge key, tags, document
# markers inside a text), JSON look-alikes, a long text with blanks and a line break far beyond any folding width, a lone surrogate escape
SPECIAL_STRINGS += ["2001-12-14", "2001-12-14t21:59:43.10-05:00", "12:30:45", "190:20:30.15", "0b101", "0o17", "017", "1__0", "!!str a", "!!binary aGk=", "<<: *a", "*a", "&a b",
                    "Y", "N", "ON", "Off", "~ ", "null ", " null", "NaN", ".NaN", ".Inf", "-.INF", "1e", "1.e5", "0.", "-0", "+.5", "0x", "{\"a\": 1}", "[1, 2]", "a: b: c", "a:\tb",
                    "text\n---\nmore", "text\n...\n", "--- |", "key:\n  - item", "? ", ": ", "- - a", "#", " #", "a #", "a\t#b", "\\ud83d", "\\", "\"\\\"\"", "'\"'",
                    "word " * 60 + "\n" + "tail " * 40, "trailing blanks   \n  leading blanks", "\n\n", "\n ", " \n", "\r\n", "a\rb", "\t\n\t"]
SPECIAL_CHARS = ["a", " ", "\n", "\t", "'", '"', "\\", ":", "#", "~", "-", "0", "é", "日", "😀", "\u0085", " ", "\x00", "|", ">", "[", "{", ","]
DECIMALS = ["0", "1", "-1", "2", "10", "1.5", "1.50", "-0.001", "0.0001", "123.456", "1000000", "0.10", "2.000", "-12345.678900",
            "79228162514264337593543950335", "0.0000000000000000000000000001", "7922816251426433759354395.0335", "3.14159265358979323846264338",
            # (all in the form Decimal's Display prints: the data-model level treats a decimal as that string)
            "-79228162514264337593543950335", "-0.0000000000000000000000000001", "0.0", "0.000", "0.5", "-0.5", "0.50", "100", "4294967296", "18446744073709551616",
            "-18446744073709551616.0", "0.1000000000000000000000000000", "9999999999999999999999999999", "1.000000000000000000000000000"]

def f2b(x):
    return struct.unpack(">Q", struct.pack(">d", x))[0]

def gen_f64(rng):
    c = rng.randrange(8)
    if c == 0:
        return f2b(rng.choice([0.0, -0.0, 1.0, -1.0, 1e-3, 1e-9, 1e-6, 0.001, 90.0, 180.0, 270.0, 0.5, 2.0, 1e-12, 1e22, 1e23, 5e-324, 1.7976931348623157e308, 0.1, 0.2, 0.3, 1/3, 2/3]))
    if c == 1:   # near a power of two/sixteen in the GDSII range
        j = rng.randrange(-256, 252)
        return (((j + 1023) << 52) + rng.randrange(-3, 4)) & 0x7FFFFFFFFFFFFFFF | (rng.getrandbits(1) << 63)
    if c == 2:   # whole GDSII range, random mantissa
        e = rng.randrange(-256 + 1023, 252 + 1023)
        return (rng.getrandbits(1) << 63) | (e << 52) | rng.getrandbits(52)
    if c == 3:   # short decimals
        return f2b(round(rng.uniform(-1000, 1000), rng.randrange(0, 6)))
    if c == 4:   # any finite double
        e = rng.randrange(0, 2047)
        return (rng.getrandbits(1) << 63) | (e << 52) | rng.getrandbits(52)
    if c == 5:   # integers as doubles
        return f2b(float(rng.randrange(-10**6, 10**6)))
    if c == 6:   # 17-significant-digit troublemakers
        return f2b(rng.choice([1, 3, 7, 9]) * 10.0 ** rng.randrange(-30, 30) * (1 + rng.random()))
    return f2b(rng.random() * 10.0 ** rng.randrange(-12, 3))

class Gen:
    def __init__(self, types, rng, lossy_bias):
        self.types = types
        self.rng = rng
        self.lossy_bias = lossy_bias    # probability of giving a non-default value to an always-skipped field
        self.lossy_used = False
    def val(self, t, depth=0):
        rng = self.rng
        k = t["k"]
        if k == "named":
            return self.val(self.types[t["name"]], depth)
        if k == "bool":
            return ("B", rng.random() < 0.5)
        if k == "int":
            lo, hi = t["lo"], t["hi"]
            return ("I", rng.choice([lo, hi, 0 if lo <= 0 <= hi else lo, 1 if lo <= 1 <= hi else lo, rng.randint(lo, hi), rng.randint(max(lo, -100), min(hi, 100))]))
        if k == "f64":
            return ("F", gen_f64(rng))
        if k == "str":
            if rng.random() < 0.25:
                return ("S", "".join(rng.choice(SPECIAL_STRINGS) for _ in range(rng.randrange(1, 4))))
            return ("S", rng.choice(SPECIAL_STRINGS))
        if k == "char":
            return ("S", rng.choice(SPECIAL_CHARS))
        if k == "dec":
            return ("S", rng.choice(DECIMALS))
        if k == "unit":
            return ("Null",)
        if k == "option":
            inner = t["t"]
            nullable = self.nullable(inner)
            if nullable or rng.random() < 0.4:
                return ("None",)
            return ("Some", self.val(inner, depth + 1))
        if k == "vec":
            n = rng.choice([0, 0, 1, 1, 2, 3]) if depth < 6 else rng.choice([0, 1])
            if depth >= 3 and rng.random() < 0.008:
                n = rng.choice([17, 33])          # now and then a long list (of points, elements, properties ...)
            return ("L", [self.val(t["t"], depth + 1) for _ in range(n)])
        if k == "array":
            return ("L", [self.val(t["t"], depth + 1) for _ in range(t["n"])])
        if k == "tuple":
            return ("L", [self.val(x, depth + 1) for x in t["ts"]])
        if k == "newtype":
            return self.val(t["t"], depth)
        if k == "struct":
            out = []
            for f in t["fs"]:
                if f["skip"] == "always":
                    ft = self.resolve(f["t"])
                    if ft["k"] == "bool" and rng.random() < self.lossy_bias:
                        self.lossy_used = True
                        out.append(("B", True))
                    else:
                        out.append(self.default(ft))
                else:
                    out.append(self.val(f["t"], depth + 1))
            return ("L", out)
        if k == "enum":
            i = rng.randrange(len(t["vs"]))
            v = t["vs"][i]
            return ("V", i, None if v["t"] is None else self.val(v["t"], depth + 1))
        raise ValueError(k)
    def resolve(self, t):
        while t["k"] == "named":
            t = self.types[t["name"]]
        return t
    def nullable(self, t):
        t = self.resolve(t)
        if t["k"] in ("unit", "option"):
            return True
        if t["k"] == "newtype":
            return self.nullable(t["t"])
        return False
    def default(self, t):
        k = t["k"]
        return {"bool": ("B", False), "int": ("I", 0), "str": ("S", ""), "char": ("S", ""), "dec": ("S", ""),
                "option": ("None",), "vec": ("L", [])}.get(k, ("Null",))

    # value -> serde data-model JSON for the harness (floats as {"$f64": bits})
    def to_json(self, t, v, explicit):
        t = self.resolve(t)
        k = t["k"]
        if k in ("bool", "int", "str", "char", "dec"):
            return v[1]
        if k == "f64":
            return {"$f64": v[1]}
        if k == "unit":
            return None
        if k == "option":
            return None if v[0] == "None" else self.to_json(t["t"], v[1], explicit)
        if k in ("vec", "array"):
            return [self.to_json(t["t"], x, explicit) for x in v[1]]
        if k == "tuple":
            return [self.to_json(tt, x, explicit) for tt, x in zip(t["ts"], v[1])]
        if k == "newtype":
            return self.to_json(t["t"], v, explicit)
        if k == "struct":
            out = {}
            for f, x in zip(t["fs"], v[1]):
                sk = f["skip"]
                dfl = self.default(self.resolve(f["t"]))
                skipped = (sk == "always" and x == dfl) or (sk == "ifnone" and x == ("None",)) or \
                          (sk == "ifempty" and x == ("L", [])) or (sk == "iffalse" and x == ("B", False))
                if skipped and not explicit:
                    continue
                if sk == "always" and self.resolve(f["t"])["k"] not in ("bool",):
                    continue
                out[f["de"]] = self.to_json(f["t"], x, explicit)
            return out
        if k == "enum":
            vs = t["vs"][v[1]]
            if vs["t"] is None:
                return vs["name"]
            return {vs["name"]: self.to_json(vs["t"], v[2], explicit)}
        raise ValueError(k)

def hexs(s):
    return Raw('(hs "%s")' % s.encode("utf8").hex())

def val_to_coq(v):
    k = v[0]
    if k == "B": return capp("VB", cbool(v[1]))
    if k == "I": return capp("VI", cz(v[1]))
    if k == "F": return capp("VF", cz(v[1]))
    if k == "S": return capp("VS", hexs(v[1]))
    if k == "Null": return Raw("VNull")
    if k == "None": return Raw("VNone")
    if k == "Some": return capp("VSome", val_to_coq(v[1]))
    if k == "L": return capp("VList", clist([val_to_coq(x) for x in v[1]]))
    if k == "V": return capp("VVariant", cnat(v[1]), copt(None if v[2] is None else val_to_coq(v[2])))
    raise ValueError(k)

def sval_to_coq(j):
    if j is None: return Raw("SNull")
    if isinstance(j, bool): return capp("SBool", cbool(j))
    if isinstance(j, int): return capp("SInt", cz(j))
    if isinstance(j, str): return capp("SStr", hexs(j))
    if isinstance(j, list): return capp("SSeq", clist([sval_to_coq(x) for x in j]))
    if isinstance(j, dict):
        if set(j.keys()) == {"$f64"}:
            return capp("SF64", cz(j["$f64"]))
        return capp("SMap", clist([ctup(hexs(k), sval_to_coq(x)) for k, x in j.items()]))
    raise ValueError(type(j))

def val_size(v):
    if v[0] in ("L",):
        return 1 + sum(val_size(x) for x in v[1])
    if v[0] == "Some":
        return 1 + val_size(v[1])
    if v[0] == "V" and v[2] is not None:
        return 1 + val_size(v[2])
    return 1

def copies_ok(res, ty):
    ok = res.get("json", {}).get("ok") is True and res.get("yaml", {}).get("ok") is True
    if ty == "gds":
        ok = ok and all(x is True for x in res.get("gds_bytes_same", [False]))
        # the converter functions on files (to_markup / from_markup): null = the library is no GDSII file at all (not a case)
        ok = ok and all(x is not False for x in res.get("gds_files_same", [False]))
    return ok

def run(chk, replay=None):
    chk.proof_leg(["Serde/SerdeCheck.vo", "Gen/SerdeShapeGen.vo", "Serde/JsonTextCheck.vo"], "Properties/C18.v",
                   ["Serde/SerdeGeneric_proofs.v", "Serde/JsonText_proofs.v"], "Properties.C18")
    chk.assumptions += [
        "JSON text layer: serde_json's pretty printer and parser and textwrap::dedent are MODELLED (coq/Serde/JsonText.v) and the model is compared with the implementation on every run "
        "(text byte for byte, both readers, damaged texts, dedent through a TOML probe); the theorems C18_json_* are about that model",
        "float pair hypothesis float_pair_ok (the token ryu prints for a double is a JSON number with a fraction or exponent, and serde_json's number parser returns the same bits from it) is a "
        "hypothesis of every C18_json_* theorem about values with doubles; it is discharged NOWHERE (ryu and serde_json's lexical/float code are third-party and not modelled), only tested per generated double "
        "by the correspondence run; it is false for serde_json built without the feature float_roundtrip (repository commit b30a5a8 enables it)",
        "the layering parse-to-a-value-tree then derive(Deserialize) on the tree (json_from_str_ty) stands for serde's streaming deserialisation; tied by comparing from_str::<T> with the model on every generated library",
        "YAML text layer (serde_yaml / yaml-rust emitter and scanner) is third-party code outside the model: exercised by the correspondence run only (partial)",
        "serde_derive follows the rules stated at the top of coq/Serde/SerdeGeneric.v (validated by comparing serde_json::to_value of every generated value with the model's ser)",
        "values of rust_decimal::Decimal and char are treated as opaque strings at the data-model level",
    ]
    if not getattr(chk, "model_ok", False):
        return
    shapes = json.load(open(os.path.join(GEN_WORK, "serde_shapes.json")))
    known = {k["class"]: k for k in load_known() if k.get("kind") == "finding" and k.get("property") == "C18"}
    quick = chk.tier == "quick"
    cases = []
    text_replay = None
    if replay:
        cases = json.load(open(replay))["replay"]["cases"]
        text_replay = [c for c in cases if c.get("leg") == "jsontext"]
        cases = [c for c in cases if c.get("leg") != "jsontext"]
    else:
        n = {"gds": 220 if quick else 4000, "lef": 180 if quick else 3000}
        for ty in ("gds", "lef"):
            sh = shapes[ty]
            for i in range(n[ty]):
                g = Gen(sh["types"], chk.rng, 0.0 if i % 10 else 0.3)
                v = g.val({"k": "named", "name": sh["root"]})
                explicit = chk.rng.random() < 0.3
                cases.append({"ty": ty, "v": v, "explicit": explicit or g.lossy_used, "lossy": g.lossy_used})
    # run the implementation
    hcases = []
    for c in cases:
        sh = shapes[c["ty"]]
        g = Gen(sh["types"], chk.rng, 0)
        c["v"] = tuplify(c["v"])
        hcases.append({"ty": c["ty"], "val": g.to_json({"k": "named", "name": sh["root"]}, c["v"], c["explicit"]), "want_text": False})
    res = harness("c18", hcases)
    items, idx = [], []
    codes = [None] * len(cases)
    for i, (c, r) in enumerate(zip(cases, res)):
        if "ser" not in r:
            codes[i] = 2 if ("panic" in r or "crash" in r) else 5   # 5: the harness could not build the value (de_err): generator/model mismatch
            continue
        t = Raw("%s_library_ty" % c["ty"])
        items.append(capp("c18_check", t, val_to_coq(c["v"]), sval_to_coq(r["ser"]), cbool(copies_ok(r, c["ty"]))))
        idx.append(i)
    hdr = ("From Coq Require Import ZArith List String.\nImport ListNotations.\n"
           "From L21 Require Import Serde.SerdeGeneric Serde.SerdeCheck Gen.SerdeShapeGen.\nOpen Scope Z_scope.\n")
    out = coq_eval_lists(hdr, items, chk.rundir, "c18", shard=12)
    for i, s in zip(idx, out):
        codes[i] = parse_z(s)
    chk.cov["evaluations"] = len(cases)
    chk.cov["distinct_nontrivial"] = len({json.dumps(c["v"]) for c in cases if val_size(c["v"]) > 30})
    chk.cov["rule"] = ("values generated generically from the serde shapes of GdsLibrary / LefLibrary read from the Rust sources (every field, option, "
                       "vector 0-3, enum variant; strings from a JSON/YAML-special alphabet; doubles over the GDSII range and beyond); "
                       "non-trivial = value tree with more than 30 nodes; distinct by value")
    chk.cov["traces_validated_against_impl"] = sum(1 for c in codes if c == 0)
    chk.cov["input_distribution"] = {"gds": sum(1 for c in cases if c["ty"] == "gds"), "lef": sum(1 for c in cases if c["ty"] == "lef"),
                                     "explicit_field_mode": sum(1 for c in cases if c["explicit"]), "lossy_field_set": sum(1 for c in cases if c["lossy"]),
                                     "mean_value_nodes": round(sum(val_size(c["v"]) for c in cases) / max(1, len(cases)), 1),
                                     "codes": {str(k): codes.count(k) for k in sorted(set(codes), key=str)}}
    chk.add_samples([{"ty": c["ty"], "harness_input": h["val"], "code": k} for c, h, k in list(zip(cases, hcases, codes))[:: max(1, len(cases) // 3)]], k=3)
    viol = [(c, r, k) for c, r, k in zip(cases, res, codes) if k == 2]
    mism = [(c, r, k) for c, r, k in zip(cases, res, codes) if k in (1, 4, 5)]
    lossy = [(c, r, k) for c, r, k in zip(cases, res, codes) if k == 3]
    chk.cov["correspondence_mismatches"] = len(mism)
    if lossy:
        ent = known.get("lef-fixed-mask-true")
        if ent:
            chk.known(ent, None)
        else:
            c, r, k = min(lossy, key=lambda x: val_size(x[0]["v"]))
            chk.violation("a `skip_serializing` field holding a non-default value is lost in the JSON/YAML copy: %s" % summarize(r),
                          {"cases": [strip(c)], "impl": [r]}, suffix="-lossy")
    # the value-level class that no markup text can express: Some(Unsupported), built directly by the harness
    r = harness("c18", [{"ty": "lef_some_unsupported"}])[0]
    chk.cov["evaluations"] += 1
    if not (r.get("json", {}).get("ok") is True and r.get("yaml", {}).get("ok") is True):
        ent = known.get("lef-some-unsupported")
        if ent and "panic" not in r and "crash" not in r:
            chk.known(ent, None)
        else:
            chk.violation("LefLibrary with layers = Some(Unsupported) does not survive the JSON/YAML copy: %s" % summarize(r),
                          {"cases": [{"ty": "lef_some_unsupported"}], "impl": [r]}, suffix="-someunsupported")
    json_text_leg(chk, shapes, cases, hcases, text_replay)
    if viol:
        viol.sort(key=lambda x: val_size(x[0]["v"]))
        c, r, k = viol[0]
        # re-run the smallest with texts for the replay file
        chk.violation("%s library copy through JSON/YAML is not lossless (%d of %d cases): %s" % (c["ty"], len(viol), len(cases), summarize(r)),
                      {"cases": [strip(x[0]) for x in viol[:5]], "impl": [x[1] for x in viol[:2]], "failing_flags": failing_flags([x[1] for x in viol])})
    elif mism:
        c, r, k = mism[0]
        chk.broken.append("correspondence C18: serde_json::to_value / from_value of a generated value differs from the model (code %s): %s" % (k, json.dumps(r)[:300]))

def failing_flags(rs):
    """which of the harness' comparisons fail, over all failing cases"""
    out = {}
    def hit(k):
        out[k] = out.get(k, 0) + 1
    for r in rs:
        for f in ("json", "yaml"):
            x = r.get(f, {})
            for k, v in x.items():
                if k in ("str_eq", "str_bits", "file_eq", "file_bits") and v is not True:
                    hit("%s.%s" % (f, k))
                elif k.endswith("_err"):
                    hit("%s.%s" % (f, k))
                elif k == "more":
                    for k2, v2 in v.items():
                        if v2 is not True:
                            hit("%s.%s" % (f, k2))
        for name in ("gds_bytes_same", "gds_files_same"):
            for i, v in enumerate(r.get(name, [])):
                if v is False or (v is None and name == "gds_bytes_same"):
                    hit("%s[%s]" % (name, ("json", "yaml")[i]))
    return out

def tuplify(v):
    if isinstance(v, (list, tuple)) and v and isinstance(v[0], str) and v[0] in ("B", "I", "F", "S", "Null", "None", "Some", "L", "V"):
        if v[0] == "L":
            return ("L", [tuplify(x) for x in v[1]])
        if v[0] == "Some":
            return ("Some", tuplify(v[1]))
        if v[0] == "V":
            return ("V", v[1], None if v[2] is None else tuplify(v[2]))
        return tuple(v)
    return v

def strip(c):
    return {"ty": c["ty"], "v": c["v"], "explicit": c["explicit"], "lossy": c.get("lossy", False)}

def summarize(r):
    out = {}
    for f in ("json", "yaml"):
        x = r.get(f, {})
        out[f] = {k: (v if k != "text" else v[:200]) for k, v in x.items()}
    if "gds_bytes_same" in r:
        out["gds_bytes_same"] = r["gds_bytes_same"]
    if "gds_files_same" in r:
        out["gds_files_same (to_markup/from_markup on files)"] = r["gds_files_same"]
    return json.dumps(out)[:700]


# ---------------------------------------------------------------------------------------------------------------
# Layer 2 (JSON text): the model's printer / parser / dedent (coq/Serde/JsonText.v) against
# SerializationFormat::Json.{to_string, from_str, save, open}; harness op "jsonlayer", checks in coq/Serde/JsonTextCheck.v.
# The float print/parse pair is an ORACLE taken from the implementation per case (tables bits->token, token->bits).

# one character of every class the printer / parser / dedent treat differently
TEXT_ALPHABET = ([chr(i) for i in range(0, 32)] + ['"', "\\", "/", " ", "a", "Z", "0", "9", "-", "+", ".", "e", "E", ":", ",", "#", "[", "]", "{", "}",
                 "'", "u", "n", "t", "b", "f", "r", "\x7f", "\x80", "\x85", "\xa0", "\xe9", "\u07ff", "\u0800", "\u1680", "\u2003", "\u2028",
                 "\u2029", "\u202f", "\u3000", "\ud7ff", "\ue000", "\ufeff", "\ufffd", "\uffff", "\U00010000", "\U0001F600", "\U0010ffff"])
TEXT_INTS = [0, 1, -1, 9, 10, 99, 100, 255, 256, 65535, 2**31 - 1, -2**31, 2**32, 2**53, 2**53 + 1, 2**63 - 1, 2**63, 2**63 + 1, -2**63, -2**63 + 1,
             2**64 - 1, 2**64 - 2, 10**18, 10**19, -10**18, 12345678901234567890, 9999999999999999999, 1000000000000000000]

def gen_text_string(rng):
    c = rng.randrange(5)
    if c == 0:
        return rng.choice(SPECIAL_STRINGS)
    if c == 1:
        return "".join(rng.choice(TEXT_ALPHABET) for _ in range(rng.randrange(0, 12)))
    if c == 2:   # any scalar value
        out = []
        for _ in range(rng.randrange(1, 6)):
            cp = rng.choice([rng.randrange(0, 0x80), rng.randrange(0x80, 0x800), rng.randrange(0x800, 0xd800), rng.randrange(0xe000, 0x10000),
                             rng.randrange(0x10000, 0x110000)])
            out.append(chr(cp))
        return "".join(out)
    if c == 3:
        return "".join(rng.choice(SPECIAL_STRINGS) for _ in range(rng.randrange(1, 4)))
    return rng.choice(["k", "name", "x", "", "a b"])

def gen_sval(rng, depth, floats=True):
    """a serde_json::Value-shaped tree (object keys distinct and in byte order, as the BTreeMap of Value keeps them)"""
    c = rng.randrange(12 if depth > 0 else 8)
    if c == 0: return None
    if c == 1: return rng.random() < 0.5
    if c == 2: return rng.choice(TEXT_INTS)
    if c == 3: return rng.choice([rng.randrange(-2**63, 2**64), rng.randrange(-1000, 1000), rng.randrange(0, 10) * 10 ** rng.randrange(0, 19)])
    if c in (4, 5): return gen_text_string(rng)
    if c in (6, 7): return {"$f64": gen_f64(rng)} if floats else gen_text_string(rng)
    if c in (8, 9):
        n = rng.choice([0, 1, 1, 2, 3, 5, 8]) if depth > 1 else rng.choice([0, 1, 2])
        return [gen_sval(rng, depth - 1, floats) for _ in range(n)]
    n = rng.choice([0, 1, 1, 2, 3, 5, 8]) if depth > 1 else rng.choice([0, 1, 2])
    keys = sorted({gen_text_string(rng) for _ in range(n)}, key=lambda k: k.encode("utf8"))
    return {k: gen_sval(rng, depth - 1, floats) for k in keys if k != "$f64"}

def wrap_sval(j, n):
    for i in range(n):
        j = [j] if i % 2 == 0 else {"k": j}
    return j

def sval_nodes(j):
    if isinstance(j, list): return 1 + sum(sval_nodes(x) for x in j)
    if isinstance(j, dict) and set(j.keys()) != {"$f64"}: return 1 + sum(sval_nodes(x) for x in j.values())
    return 1

def tree_to_coq(j):
    """the harness' order-keeping Tree: seq = array, map = {"m": [[k, v], ...]}, double = {"f": bits}"""
    if j is None: return Raw("SNull")
    if isinstance(j, bool): return capp("SBool", cbool(j))
    if isinstance(j, int): return capp("SInt", cz(j))
    if isinstance(j, str): return capp("SStr", hexs(j))
    if isinstance(j, list): return capp("SSeq", clist([tree_to_coq(x) for x in j]))
    if "f" in j: return capp("SF64", cz(j["f"]))
    return capp("SMap", clist([ctup(hexs(k), tree_to_coq(x)) for k, x in j["m"]]))

def read_to_coq(r):
    """{"ok": tree} | {"err": msg} -> option sval"""
    return copt(tree_to_coq(r["ok"])) if isinstance(r, dict) and "ok" in r else Raw("None")

def hexb(b):
    """bytes -> Coq string; longer texts packed 7 bytes to a primitive integer (JsonTextCheck.us)"""
    if len(b) <= 14:
        return Raw('(hs "%s")' % b.hex())
    return Raw("(us %d%%Z [%s]%%uint63)" % (len(b), "; ".join("%d" % int.from_bytes(b[i:i + 7], "big") for i in range(0, len(b), 7))))

def tree_to_coq_p(j):
    """as tree_to_coq, strings through hexb"""
    if j is None: return Raw("SNull")
    if isinstance(j, bool): return capp("SBool", cbool(j))
    if isinstance(j, int): return capp("SInt", cz(j))
    if isinstance(j, str): return capp("SStr", hexb(j.encode("utf8")))
    if isinstance(j, list): return capp("SSeq", clist([tree_to_coq_p(x) for x in j]))
    if "f" in j: return capp("SF64", cz(j["f"]))
    return capp("SMap", clist([ctup(hexb(k.encode("utf8")), tree_to_coq_p(x)) for k, x in j["m"]]))

def reads_to_coq(r, f):
    """the two readings {"ok": tree} | {"err": msg} as option sval terms; f: (a, b) -> Coq term. One shared term when they are equal."""
    a, b = r["from_str"], r["open"]
    def one(x):
        return copt(tree_to_coq_p(x["ok"])) if isinstance(x, dict) and "ok" in x else Raw("None")
    if a == b:
        return Raw("(let rd := %s in %s)" % (one(a), f(Raw("rd"), Raw("rd"))))
    return f(one(a), one(b))

MUT_BYTES = [b'"', b"\\", b",", b":", b"[", b"]", b"{", b"}", b" ", b"\n", b"\t", b"\r", b"0", b"1", b"9", b"-", b"+", b"t", b"f", b"n", b"u", b"/", b"x",
             b"\x01", b"\x1f", b"\x7f", b"\x80", b"\xc3", b"\xe2\x80\xa8", b"\\u0041", b"\\ud83d\\ude00", b"\\ud83d", b"\\ude00", b"\\u00e9", b"\\/", b"\\b\\f",
             b"true", b"null", b"false", b"[]", b"{}", b"00", b"-0", b"\xef\xbb\xbf", b"  ", b"\r\n", b"\\x", b"\\u12", b"\\uD83D\\uDE00", b"\\u0000"]

def mutate_text(rng, t):
    """one to three byte-level edits of a JSON text"""
    b = bytearray(t)
    for _ in range(rng.choice([1, 1, 1, 2, 3])):
        k = rng.randrange(7)
        pos = rng.randrange(len(b) + 1)
        if k == 0 and b:
            del b[min(pos, len(b) - 1)]
        elif k in (1, 2):
            b[pos:pos] = rng.choice(MUT_BYTES)
        elif k == 3 and b:
            p = min(pos, len(b) - 1)
            b[p:p + 1] = rng.choice(MUT_BYTES)
        elif k == 4:
            b = b[:pos]
        elif k == 5 and b:
            q = min(len(b), pos + rng.randrange(1, 8))
            b[pos:pos] = b[pos:q]
        else:   # whole-text edits that dedent reacts to: indent every line, blank lines, CRLF, trailing newline
            ind = rng.choice([b"  ", b"\t", b" \t", b"    ", b"\xc2\xa0", b"\xe2\x80\x83 "])
            lines = bytes(b).split(b"\n")
            kind = rng.randrange(4)
            if kind == 0: lines = [ind + l for l in lines]
            elif kind == 1: lines = [ind + l if i else l for i, l in enumerate(lines)] + [b""]
            elif kind == 2: lines = [l + b"\r" for l in lines]
            else: lines = [ind * (1 + i % 2) + l for i, l in enumerate(lines)] + [ind]
            b = bytearray(b"\n".join(lines))
    return bytes(b)

HAND_TEXTS = [b"", b" ", b"null", b" null ", b"nul", b"nulll", b"true false", b"[", b"]", b"[]", b"[ ]", b"{ }", b"[,]", b"[1,]", b"[,1]", b"[1 2]", b"[1,,2]",
              b"{\"a\":1,}", b"{\"a\" 1}", b"{\"a\":}", b"{a:1}", b"{\"a\":1 \"b\":2}", b"{\"a\":1,\"a\":2}", b"{1:2}", b"{\"a\":1}}", b"[1]]", b"[1] x", b"[1]\n\n",
              b"0", b"-0", b"00", b"01", b"-01", b"-", b"+1", b"1", b"-1", b"18446744073709551615", b"18446744073709551616", b"-9223372036854775808",
              b"-9223372036854775809", b"9223372036854775808", b"123456789012345678901234567890", b"1-2", b"1+2", b"--1", b"1e", b"0x10",
              b"\"\"", b"\"a", b"\"\\\"\"", b"\"\\\\\"", b"\"\\/\"", b"\"\\b\\f\\n\\r\\t\"", b"\"\\a\"", b"\"\\u0041\"", b"\"\\u00e9\"", b"\"\\u00E9\"", b"\"\\u12\"",
              b"\"\\u123g\"", b"\"\\ud83d\\ude00\"", b"\"\\uD83D\\uDE00\"", b"\"\\ud83d\"", b"\"\\ud83dx\"", b"\"\\ud83d\\u0041\"", b"\"\\ude00\"", b"\"\\ud83d\\ud83d\"",
              b"\"\\udbff\\udfff\"", b"\"\\ud800\\udc00\"", b"\"\\uffff\"", b"\"\\u0000\"", b"\"\x00\"", b"\"\x1f\"", b"\"\n\"", b"\"\t\"", b"\"\x7f\"", b"\"\xc3\xa9\"",
              b"\"\xc3\"", b"\"\xa9\"", b"\"\xe2\x80\xa8\"", b"\"\xed\xa0\x80\"", b"\"\xf4\x90\x80\x80\"", b"\"\xf0\x9f\x98\x80\"", b"\"\xc0\x80\"", b"\"\xe0\x80\x80\"",
              b"\"\xf8\x88\x80\x80\x80\"", b"\xef\xbb\xbf1", b"\xef\xbb\xbf[]", b"[\"a\",\n \"b\"]", b"  [1,\n   2]", b"\t[1,\n\t\t2]\n", b"[1,\r\n2]\r\n", b"/**/1", b"[1,//\n2]",
              b"tru", b"True", b"NaN", b"Infinity", b"-Infinity", b"nullx", b"truex", b"1x", b"\"a\"x", b"\"a\" \"b\"", b"[\"\\ud83d\\ude00\\u00e9\\\"\"]",
              b"{\"k\": [\n  1\n]}", b"\x0c1", b"\x0b1", b"\xc2\xa01", b"1\xc2\xa0", b" \xe2\x80\x83[1,\n \xe2\x80\x83 2]"]
HAND_TEXTS += [b"[[", b"[[[", b"[1,[", b"{\"a\":[", b"{\"a\":{\"b\":[[", b"[[]", b"[{", b"[" * 50, b"[{\"k\":" * 20, b"[[1,", b"[[1,[2,"]
HAND_TEXTS += [b"[" * n + b"]" * n for n in (1, 2, 126, 127, 128, 129)] + [b"[{\"k\":" * n + b"1" + b"}]" * n for n in (1, 63, 64, 65)]

def json_text_leg(chk, shapes, cases, hcases, text_replay):
    quick = chk.tier == "quick"
    rng = chk.rng
    tcases = []     # {"leg": "jsontext", "kind": "lib"|"any"|"text", ...}
    if text_replay is not None:
        tcases = [c for c in text_replay if c.get("kind") != "dedent"]
    else:
        nlib = 30 if quick else 600
        for ty in ("gds", "lef"):
            k = 0
            for c, h in zip(cases, hcases):
                if c["ty"] == ty and k < nlib:
                    tcases.append({"leg": "jsontext", "kind": "lib", "ty": ty, "v": c["v"], "val": h["val"]})
                    k += 1
        for i in range(300 if quick else 12000):
            j = gen_sval(rng, rng.choice([1, 2, 3, 4, 6]))
            w = rng.choice([0] * 12 + [1, 2, 3, 5, 9])
            tcases.append({"leg": "jsontext", "kind": "any", "val": j, "wrap": w})
        for w in ([30, 60, 120, 124, 125, 126, 127, 128, 129, 140] if quick else list(range(100, 135)) * 3):
            # around serde_json's recursion limit (128): small values, deeply wrapped
            tcases.append({"leg": "jsontext", "kind": "any", "val": gen_sval(rng, rng.choice([0, 1, 2])), "wrap": w})
        tcases.append({"leg": "jsontext", "kind": "any", "val": [[[]]] , "wrap": 124})
        tcases.append({"leg": "jsontext", "kind": "any", "val": [[[]]] , "wrap": 125})
        tcases.append({"leg": "jsontext", "kind": "any", "val": TEXT_INTS + SPECIAL_STRINGS + ["".join(TEXT_ALPHABET)], "wrap": 0})
        tcases.append({"leg": "jsontext", "kind": "any", "val": {k: k for k in sorted(set(SPECIAL_STRINGS + TEXT_ALPHABET), key=lambda k: k.encode("utf8"))}, "wrap": 1})
    # first pass through the implementation
    def hcase(c):
        if c["kind"] == "lib":
            return {"ty": "jsonlayer", "lib": c["ty"], "val": c["val"]}
        if c["kind"] == "any":
            return {"ty": "jsonlayer", "lib": "any", "val": c["val"], "wrap": c["wrap"]}
        return {"ty": "jsonlayer", "lib": "text", "hex": c["hex"]}
    res = harness("c18", [hcase(c) for c in tcases])
    if text_replay is None:
        # parser against parser on damaged texts: edits of printed texts (float-free and with floats), and hand-written ones
        pool = [r["text"].encode("utf8") for c, r in zip(tcases, res) if c["kind"] == "any" and "text" in r and len(r["text"]) < 1500]
        extra = [{"leg": "jsontext", "kind": "text", "hex": t.hex()} for t in HAND_TEXTS]
        for i in range(500 if quick else 20000):
            if pool:
                extra.append({"leg": "jsontext", "kind": "text", "hex": mutate_text(rng, rng.choice(pool)).hex()})
        tcases += extra
        res += harness("c18", [hcase(c) for c in extra])
    items, idx = [], []
    codes = [None] * len(tcases)
    for i, (c, r) in enumerate(zip(tcases, res)):
        if "from_str" not in r:
            codes[i] = 2 if ("panic" in r or "crash" in r) else 5
            continue
        pt = clist([ctup(cstr(t), cz(b)) for t, b in r["parse"]])
        if c["kind"] == "text":
            items.append(reads_to_coq(r, lambda a, b: capp("json_parse_check", pt, hexb(bytes.fromhex(c["hex"])), cbool(r["from_str"] is not None), a, b)))
        else:
            ft = clist([ctup(cz(b), cstr(t)) for b, t in r["fmt"]])
            text = hexb(r["text"].encode("utf8"))
            if c["kind"] == "lib":
                items.append(reads_to_coq(r, lambda a, b: capp("json_lib_check", Raw("%s_library_ty" % c["ty"]), val_to_coq(tuplify(c["v"])), ft, pt, text, a, b)))
            else:
                items.append(reads_to_coq(r, lambda a, b: capp("json_layer_check", ft, pt, sval_to_coq(wrap_sval(c["val"], c["wrap"])), text, a, b)))
        idx.append(i)
    hdr = ("From Coq Require Import ZArith List String Uint63.\nImport ListNotations.\n"
           "From L21 Require Import Serde.SerdeGeneric Serde.SerdeCheck Serde.JsonText Serde.JsonTextCheck Gen.SerdeShapeGen.\nOpen Scope Z_scope.\n")
    # big and small cases spread evenly over the coqc processes
    order = sorted(range(len(items)), key=lambda k: -len(items[k]))
    nsh = 16
    perm = [k for s0 in range(nsh) for k in order[s0::nsh]]
    ditems, dfinish = dedent_leg(chk, text_replay)
    out = coq_eval_lists(hdr, [items[k] for k in perm] + ditems, chk.rundir, "c18j", shard=max(1, (len(items) + len(ditems) + nsh - 1) // nsh))
    for k, s in zip(perm, out):
        codes[idx[k]] = parse_z(s)
    dfinish(out[len(perm):])
    kinds = {k: sum(1 for c in tcases if c["kind"] == k) for k in ("lib", "any", "text")}
    accepted = sum(1 for c, r in zip(tcases, res) if c["kind"] == "text" and isinstance(r.get("open"), dict) and "ok" in r["open"])
    nfloat = sum(len(r.get("fmt", [])) for r in res)
    saved_bad = [c for c, r in zip(tcases, res) if r.get("saved_same") is False]
    chk.cov["evaluations"] += len(tcases)
    chk.cov["distinct_nontrivial"] += len({json.dumps(c.get("val", c.get("hex")), sort_keys=True) for c in tcases
                                           if (c["kind"] == "text" and len(c["hex"]) > 16) or (c["kind"] != "text" and sval_nodes(wrap_sval(c["val"], c.get("wrap", 0))) > 8)})
    chk.cov["traces_validated_against_impl"] += sum(1 for k in codes if k == 0)
    chk.cov["rule"] += ("; JSON text layer: non-trivial = a value tree of more than 8 nodes, or a damaged/hand-written text longer than 8 bytes; distinct by value / by text")
    chk.cov["input_distribution"]["json_text_layer"] = {
        "library_values": kinds["lib"], "generic_values": kinds["any"], "damaged_or_handwritten_texts": kinds["text"],
        "texts_the_impl_accepts_among_damaged": accepted, "doubles_printed_and_read_back": nfloat,
        "max_nesting": max([c.get("wrap", 0) for c in tcases if c["kind"] == "any"] + [0]),
        "text_bytes_compared": sum(len(r.get("text", "")) for r in res),
        "codes": {str(k): codes.count(k) for k in sorted(set(codes), key=str)}}
    chk.add_samples([{"leg": "jsontext", "kind": c["kind"], "input": (c.get("val") if c["kind"] != "text" else bytes.fromhex(c["hex"]).decode("utf8", "replace")),
                      "wrap": c.get("wrap"), "impl_text": r.get("text", "")[:300], "code": k}
                     for c, r, k in list(zip(tcases, res, codes))[:: max(1, len(tcases) // 3)] if len(json.dumps(c.get("val", ""))) < 600], k=3)
    bad2 = [(c, r) for c, r, k in zip(tcases, res, codes) if k == 2]
    bad1 = [(c, r, k) for c, r, k in zip(tcases, res, codes) if k in (1, 4, 5)]
    chk.cov["correspondence_mismatches"] += len(bad1)
    def tsize(c):
        return len(json.dumps(c.get("val", c.get("hex"))))
    if saved_bad:
        c = min(saved_bad, key=tsize)
        chk.violation("SerializationFormat::Json.save does not leave exactly the to_string text in the file (%d cases)" % len(saved_bad),
                      {"cases": [c]}, suffix="-jsonsave")
    if bad2:
        bad2.sort(key=lambda x: tsize(x[0]))
        c, r = bad2[0]
        why = ""
        rd = dict(r.get("parse", []))
        offs = [(b, t, rd.get(t)) for b, t in r.get("fmt", []) if rd.get(t) != b]
        if offs:
            why = " (double with bits %d is printed as %s and read back as bits %s)" % offs[0]
        chk.violation("the JSON text of a value does not read back as that value (%d of %d text cases)%s: from_str %s / open %s" % (
                      len(bad2), len(tcases), why, json.dumps(r.get("from_str"))[:200], json.dumps(r.get("open"))[:200]),
                      {"cases": [x[0] for x in bad2[:5]], "impl": [{k: v for k, v in x[1].items() if k != "text"} for x in bad2[:2]]}, suffix="-jsontext")
    elif bad1:
        bad1.sort(key=lambda x: tsize(x[0]))
        c, r, k = bad1[0]
        chk.broken.append("correspondence C18 JSON text layer: the model's printer/parser/dedent (coq/Serde/JsonText.v) differs from serde_json / textwrap "
                          "(code %s, %d cases), smallest: %s -> %s" % (k, len(bad1), json.dumps(c)[:300], json.dumps(r)[:400]))
        with open(os.path.join(chk.rundir, "jsontext_mismatch.json"), "w") as f:
            json.dump([{"case": c, "impl": r, "code": k} for c, r, k in bad1[:20]], f, indent=1)


DEDENT_INDENTS = ["", " ", "  ", "    ", "\t", "\t\t", " \t", "\t ", " ", "  ", "  ", " ", "  ", "　", "\u0085", "\x0b", "\x0c ", "​", "﻿"]
DEDENT_BODIES = ["a", "b c", "{", "}", "\"k\": 1,", "x  ", "y\t", "é", " z", "- q", "#", " w"]
TQ = "'" * 3

def dedent_leg(chk, text_replay):
    """textwrap::dedent as SerializationFormat::from_str applies it, observed through a TOML multi-line literal string
    (harness op "dedent"), against the model's [dedent] (coq/Serde/JsonText.v)."""
    rng = chk.rng
    if text_replay is not None:
        dcases = [c for c in text_replay if c.get("kind") == "dedent"]
    else:
        dcases = []
        for i in range(120 if chk.tier == "quick" else 4000):
            base = rng.choice(DEDENT_INDENTS)
            lines = []
            for _ in range(rng.randrange(1, 7)):
                k = rng.randrange(10)
                if k == 0: l = ""
                elif k == 1: l = rng.choice(DEDENT_INDENTS)                       # whitespace only
                elif k < 6: l = base + rng.choice(DEDENT_INDENTS[:7] + [""] * 4) + rng.choice(DEDENT_BODIES)
                else: l = rng.choice(DEDENT_INDENTS) + rng.choice(DEDENT_BODIES)
                if rng.random() < 0.1: l += "\r"
                lines.append(l)
            first = rng.choice(["  ", "    ", "", "\t", " \t", "      "])
            doc = first + "x = " + TQ + "\n" + "\n".join(lines) + "\n" + rng.choice(["", "  ", base, "\t"]) + TQ + rng.choice(["", "\n", "\n\n", "\n  "])
            dcases.append({"leg": "jsontext", "kind": "dedent", "hex": doc.encode("utf8").hex()})
    if not dcases:
        return [], lambda out: None
    res = harness("c18", [{"ty": "dedent", "hex": c["hex"]} for c in dcases])
    items, idx = [], []
    for i, (c, r) in enumerate(zip(dcases, res)):
        x = r.get("ok", {}).get("x") if isinstance(r.get("ok"), dict) else None
        if isinstance(x, str) and len(r["ok"]) == 1:
            items.append(capp("dedent_check", hexb(bytes.fromhex(c["hex"])), hexb(x.encode("utf8"))))
            idx.append(i)
    return items, lambda out: dedent_finish(chk, dcases, res, idx, out)

def dedent_finish(chk, dcases, res, idx, out):
    codes = [parse_z(s) for s in out]
    chk.cov["evaluations"] += len(dcases)
    chk.cov["distinct_nontrivial"] += len({dcases[i]["hex"] for i in idx})
    chk.cov["traces_validated_against_impl"] += codes.count(0)
    chk.cov["input_distribution"]["dedent_probe"] = {"documents": len(dcases), "read_by_toml_and_compared": len(idx), "codes": {str(k): codes.count(k) for k in sorted(set(codes))}}
    bad = [(dcases[i], res[i]) for i, k in zip(idx, codes) if k != 0]
    chk.cov["correspondence_mismatches"] += len(bad)
    if bad:
        c, r = min(bad, key=lambda x: len(x[0]["hex"]))
        chk.broken.append("correspondence C18 dedent: the model's dedent (coq/Serde/JsonText.v) differs from textwrap::dedent (%d cases), smallest document %r -> %s"
                          % (len(bad), bytes.fromhex(c["hex"]).decode("utf8"), json.dumps(r)[:300]))
