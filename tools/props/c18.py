"""C18: JSON / YAML copies of GDSII and LEF libraries are lossless.
Proof leg: Properties/C18.v over the serde shapes regenerated from the Rust sources.
Correspondence: values generated GENERICALLY from those shapes (every field of every type, so new fields are
covered automatically) -> the real types via serde -> to_string/from_str and save/open in JSON and YAML."""
import json, os, struct
from vlib import *

SPECIAL_STRINGS = [
    "", " ", "a", "abc", " lead", "trail ", "  ", "a b", "a: b", "a:b", ": x", "# c", "a # c", "a#c", "'", '"', "''", '"q"', "it's",
    "\\", "\\n", "a\\b", "\n", "a\nb", "a\n", "\nb", "a\n\nb", "a\n  \nb", "\r", "a\r\nb", "\t", "a\tb", "\x00", "a\x00b", "\x7f", "\x1b",
    "\u0085", "a\u0085b", " ", " ", "﻿", "﻿abc", "é", "日本語", "😀", "é", "~", "null", "Null", "NULL", "true", "false",
    "True", "yes", "no", "on", "off", "y", "n", "1", "1.0", "-1", "0x10", "0o7", "1e3", ".5", "+1", "1_000", ".inf", ".nan", "-.inf", "0.1", "1:30",
    "- a", "-", "- ", "? a", "?", "| a", "|", "> a", ">", "& a", "* a", "! a", "!tag", "% a", "@ a", "` a", "[a]", "{a}", "[", "]", "{", "}", ",",
    "a, b", "---", "...", "--- a", "<<", "=", "a\\", "a'b\"c", "\"", " # ", "key: [1, 2]", "'single'", "a  b", "x" * 200, "line1\nline2\n  indented\n",
    " ", "a ", "​", "tab\there", " \t ", "\\u0041", "\\x41", "%41", "&amp;", "</script>", "\U0001F600\u0000",
]
SPECIAL_CHARS = ["a", " ", "\n", "\t", "'", '"', "\\", ":", "#", "~", "-", "0", "é", "日", "😀", "\u0085", " ", "\x00", "|", ">", "[", "{", ","]
DECIMALS = ["0", "1", "-1", "2", "10", "1.5", "1.50", "-0.001", "0.0001", "123.456", "1000000", "0.10", "2.000", "-12345.678900",
            "79228162514264337593543950335", "0.0000000000000000000000000001", "7922816251426433759354395.0335", "3.14159265358979323846264338"]

def f2b(x):
    return struct.unpack(">Q", struct.pack(">d", x))[0]

def gen_f64(rng):
    c = rng.randrange(8)
    if c == 0:
        return f2b(rng.choice([0.0, -0.0, 1.0, -1.0, 1e-3, 1e-9, 1e-6, 0.001, 90.0, 180.0, 270.0, 0.5, 2.0, 1e-12, 1e22, 1e23, 5e-324, 1.7976931348623157e308, 0.1, 0.2, 0.3, 1/3, 2/3]))
    if c == 1:   # near a power of two/sixteen in the GDSII range
        j = rng.randrange(-256, 252)
        return (((j + 1023) << 52) + rng.randrange(-3, 4)) & 0x7FFFFFFFFFFFFFFF | (rng.getrandbits(1) << 63)
    if c == 2:   # whole GDSII range, random mantissa
        e = rng.randrange(-256 + 1023, 252 + 1023)
        return (rng.getrandbits(1) << 63) | (e << 52) | rng.getrandbits(52)
    if c == 3:   # short decimals
        return f2b(round(rng.uniform(-1000, 1000), rng.randrange(0, 6)))
    if c == 4:   # any finite double
        e = rng.randrange(0, 2047)
        return (rng.getrandbits(1) << 63) | (e << 52) | rng.getrandbits(52)
    if c == 5:   # integers as doubles
        return f2b(float(rng.randrange(-10**6, 10**6)))
    if c == 6:   # 17-significant-digit troublemakers
        return f2b(rng.choice([1, 3, 7, 9]) * 10.0 ** rng.randrange(-30, 30) * (1 + rng.random()))
    return f2b(rng.random() * 10.0 ** rng.randrange(-12, 3))

class Gen:
    def __init__(self, types, rng, lossy_bias):
        self.types = types
        self.rng = rng
        self.lossy_bias = lossy_bias    # probability of giving a non-default value to an always-skipped field
        self.lossy_used = False
    def val(self, t, depth=0):
        rng = self.rng
        k = t["k"]
        if k == "named":
            return self.val(self.types[t["name"]], depth)
        if k == "bool":
            return ("B", rng.random() < 0.5)
        if k == "int":
            lo, hi = t["lo"], t["hi"]
            return ("I", rng.choice([lo, hi, 0 if lo <= 0 <= hi else lo, 1 if lo <= 1 <= hi else lo, rng.randint(lo, hi), rng.randint(max(lo, -100), min(hi, 100))]))
        if k == "f64":
            return ("F", gen_f64(rng))
        if k == "str":
            if rng.random() < 0.25:
                return ("S", "".join(rng.choice(SPECIAL_STRINGS) for _ in range(rng.randrange(1, 4))))
            return ("S", rng.choice(SPECIAL_STRINGS))
        if k == "char":
            return ("S", rng.choice(SPECIAL_CHARS))
        if k == "dec":
            return ("S", rng.choice(DECIMALS))
        if k == "unit":
            return ("Null",)
        if k == "option":
            inner = t["t"]
            nullable = self.nullable(inner)
            if nullable or rng.random() < 0.4:
                return ("None",)
            return ("Some", self.val(inner, depth + 1))
        if k == "vec":
            n = rng.choice([0, 0, 1, 1, 2, 3]) if depth < 6 else rng.choice([0, 1])
            return ("L", [self.val(t["t"], depth + 1) for _ in range(n)])
        if k == "array":
            return ("L", [self.val(t["t"], depth + 1) for _ in range(t["n"])])
        if k == "tuple":
            return ("L", [self.val(x, depth + 1) for x in t["ts"]])
        if k == "newtype":
            return self.val(t["t"], depth)
        if k == "struct":
            out = []
            for f in t["fs"]:
                if f["skip"] == "always":
                    ft = self.resolve(f["t"])
                    if ft["k"] == "bool" and rng.random() < self.lossy_bias:
                        self.lossy_used = True
                        out.append(("B", True))
                    else:
                        out.append(self.default(ft))
                else:
                    out.append(self.val(f["t"], depth + 1))
            return ("L", out)
        if k == "enum":
            i = rng.randrange(len(t["vs"]))
            v = t["vs"][i]
            return ("V", i, None if v["t"] is None else self.val(v["t"], depth + 1))
        raise ValueError(k)
    def resolve(self, t):
        while t["k"] == "named":
            t = self.types[t["name"]]
        return t
    def nullable(self, t):
        t = self.resolve(t)
        if t["k"] in ("unit", "option"):
            return True
        if t["k"] == "newtype":
            return self.nullable(t["t"])
        return False
    def default(self, t):
        k = t["k"]
        return {"bool": ("B", False), "int": ("I", 0), "str": ("S", ""), "char": ("S", ""), "dec": ("S", ""),
                "option": ("None",), "vec": ("L", [])}.get(k, ("Null",))

    # value -> serde data-model JSON for the harness (floats as {"$f64": bits})
    def to_json(self, t, v, explicit):
        t = self.resolve(t)
        k = t["k"]
        if k in ("bool", "int", "str", "char", "dec"):
            return v[1]
        if k == "f64":
            return {"$f64": v[1]}
        if k == "unit":
            return None
        if k == "option":
            return None if v[0] == "None" else self.to_json(t["t"], v[1], explicit)
        if k in ("vec", "array"):
            return [self.to_json(t["t"], x, explicit) for x in v[1]]
        if k == "tuple":
            return [self.to_json(tt, x, explicit) for tt, x in zip(t["ts"], v[1])]
        if k == "newtype":
            return self.to_json(t["t"], v, explicit)
        if k == "struct":
            out = {}
            for f, x in zip(t["fs"], v[1]):
                sk = f["skip"]
                dfl = self.default(self.resolve(f["t"]))
                skipped = (sk == "always" and x == dfl) or (sk == "ifnone" and x == ("None",)) or \
                          (sk == "ifempty" and x == ("L", [])) or (sk == "iffalse" and x == ("B", False))
                if skipped and not explicit:
                    continue
                if sk == "always" and self.resolve(f["t"])["k"] not in ("bool",):
                    continue
                out[f["de"]] = self.to_json(f["t"], x, explicit)
            return out
        if k == "enum":
            vs = t["vs"][v[1]]
            if vs["t"] is None:
                return vs["name"]
            return {vs["name"]: self.to_json(vs["t"], v[2], explicit)}
        raise ValueError(k)

def hexs(s):
    return Raw('(hs "%s")' % s.encode("utf8").hex())

def val_to_coq(v):
    k = v[0]
    if k == "B": return capp("VB", cbool(v[1]))
    if k == "I": return capp("VI", cz(v[1]))
    if k == "F": return capp("VF", cz(v[1]))
    if k == "S": return capp("VS", hexs(v[1]))
    if k == "Null": return Raw("VNull")
    if k == "None": return Raw("VNone")
    if k == "Some": return capp("VSome", val_to_coq(v[1]))
    if k == "L": return capp("VList", clist([val_to_coq(x) for x in v[1]]))
    if k == "V": return capp("VVariant", cnat(v[1]), copt(None if v[2] is None else val_to_coq(v[2])))
    raise ValueError(k)

def sval_to_coq(j):
    if j is None: return Raw("SNull")
    if isinstance(j, bool): return capp("SBool", cbool(j))
    if isinstance(j, int): return capp("SInt", cz(j))
    if isinstance(j, str): return capp("SStr", hexs(j))
    if isinstance(j, list): return capp("SSeq", clist([sval_to_coq(x) for x in j]))
    if isinstance(j, dict):
        if set(j.keys()) == {"$f64"}:
            return capp("SF64", cz(j["$f64"]))
        return capp("SMap", clist([ctup(hexs(k), sval_to_coq(x)) for k, x in j.items()]))
    raise ValueError(type(j))

def val_size(v):
    if v[0] in ("L",):
        return 1 + sum(val_size(x) for x in v[1])
    if v[0] == "Some":
        return 1 + val_size(v[1])
    if v[0] == "V" and v[2] is not None:
        return 1 + val_size(v[2])
    return 1

def copies_ok(res, ty):
    ok = res.get("json", {}).get("ok") is True and res.get("yaml", {}).get("ok") is True
    if ty == "gds":
        ok = ok and all(x is True for x in res.get("gds_bytes_same", [False]))
    return ok

def run(chk, replay=None):
    chk.proof_leg(["Serde/SerdeCheck.vo", "Gen/SerdeShapeGen.vo"], "Properties/C18.v", ["Serde/SerdeGeneric_proofs.v"], "Properties.C18")
    chk.assumptions += [
        "text layers (serde_json and serde_yaml printers/parsers, Rust float printing/parsing, textwrap::dedent) are third-party code outside the model: exercised by the correspondence run only (partial)",
        "serde_derive follows the rules stated at the top of coq/Serde/SerdeGeneric.v (validated by comparing serde_json::to_value of every generated value with the model's ser)",
        "values of rust_decimal::Decimal and char are treated as opaque strings at the data-model level",
    ]
    if not getattr(chk, "model_ok", False):
        return
    shapes = json.load(open(os.path.join(GEN_WORK, "serde_shapes.json")))
    known = {k["class"]: k for k in load_known() if k.get("kind") == "finding" and k.get("property") == "C18"}
    quick = chk.tier == "quick"
    cases = []
    if replay:
        cases = json.load(open(replay))["replay"]["cases"]
    else:
        n = {"gds": 220 if quick else 4000, "lef": 180 if quick else 3000}
        for ty in ("gds", "lef"):
            sh = shapes[ty]
            for i in range(n[ty]):
                g = Gen(sh["types"], chk.rng, 0.0 if i % 10 else 0.3)
                v = g.val({"k": "named", "name": sh["root"]})
                explicit = chk.rng.random() < 0.3
                cases.append({"ty": ty, "v": v, "explicit": explicit or g.lossy_used, "lossy": g.lossy_used})
    # run the implementation
    hcases = []
    for c in cases:
        sh = shapes[c["ty"]]
        g = Gen(sh["types"], chk.rng, 0)
        c["v"] = tuplify(c["v"])
        hcases.append({"ty": c["ty"], "val": g.to_json({"k": "named", "name": sh["root"]}, c["v"], c["explicit"]), "want_text": False})
    res = harness("c18", hcases)
    items, idx = [], []
    codes = [None] * len(cases)
    for i, (c, r) in enumerate(zip(cases, res)):
        if "ser" not in r:
            codes[i] = 2 if ("panic" in r or "crash" in r) else 5   # 5: the harness could not build the value (de_err): generator/model mismatch
            continue
        t = Raw("%s_library_ty" % c["ty"])
        items.append(capp("c18_check", t, val_to_coq(c["v"]), sval_to_coq(r["ser"]), cbool(copies_ok(r, c["ty"]))))
        idx.append(i)
    hdr = ("From Coq Require Import ZArith List String.\nImport ListNotations.\n"
           "From L21 Require Import Serde.SerdeGeneric Serde.SerdeCheck Gen.SerdeShapeGen.\nOpen Scope Z_scope.\n")
    out = coq_eval_lists(hdr, items, chk.rundir, "c18", shard=12)
    for i, s in zip(idx, out):
        codes[i] = parse_z(s)
    chk.cov["evaluations"] = len(cases)
    chk.cov["distinct_nontrivial"] = len({json.dumps(c["v"]) for c in cases if val_size(c["v"]) > 30})
    chk.cov["rule"] = ("values generated generically from the serde shapes of GdsLibrary / LefLibrary read from the Rust sources (every field, option, "
                       "vector 0-3, enum variant; strings from a JSON/YAML-special alphabet; doubles over the GDSII range and beyond); "
                       "non-trivial = value tree with more than 30 nodes; distinct by value")
    chk.cov["traces_validated_against_impl"] = sum(1 for c in codes if c == 0)
    chk.cov["input_distribution"] = {"gds": sum(1 for c in cases if c["ty"] == "gds"), "lef": sum(1 for c in cases if c["ty"] == "lef"),
                                     "explicit_field_mode": sum(1 for c in cases if c["explicit"]), "lossy_field_set": sum(1 for c in cases if c["lossy"]),
                                     "mean_value_nodes": round(sum(val_size(c["v"]) for c in cases) / max(1, len(cases)), 1),
                                     "codes": {str(k): codes.count(k) for k in sorted(set(codes), key=str)}}
    chk.add_samples([{"ty": c["ty"], "harness_input": h["val"], "code": k} for c, h, k in list(zip(cases, hcases, codes))[:: max(1, len(cases) // 3)]], k=3)
    viol = [(c, r, k) for c, r, k in zip(cases, res, codes) if k == 2]
    mism = [(c, r, k) for c, r, k in zip(cases, res, codes) if k in (1, 4, 5)]
    lossy = [(c, r, k) for c, r, k in zip(cases, res, codes) if k == 3]
    chk.cov["correspondence_mismatches"] = len(mism)
    if lossy:
        ent = known.get("lef-fixed-mask-true")
        if ent:
            chk.known(ent, None)
        else:
            c, r, k = min(lossy, key=lambda x: val_size(x[0]["v"]))
            chk.violation("a `skip_serializing` field holding a non-default value is lost in the JSON/YAML copy: %s" % summarize(r),
                          {"cases": [strip(c)], "impl": [r]}, suffix="-lossy")
    # the value-level class that no markup text can express: Some(Unsupported), built directly by the harness
    r = harness("c18", [{"ty": "lef_some_unsupported"}])[0]
    chk.cov["evaluations"] += 1
    if not (r.get("json", {}).get("ok") is True and r.get("yaml", {}).get("ok") is True):
        ent = known.get("lef-some-unsupported")
        if ent and "panic" not in r and "crash" not in r:
            chk.known(ent, None)
        else:
            chk.violation("LefLibrary with layers = Some(Unsupported) does not survive the JSON/YAML copy: %s" % summarize(r),
                          {"cases": [{"ty": "lef_some_unsupported"}], "impl": [r]}, suffix="-someunsupported")
    if viol:
        viol.sort(key=lambda x: val_size(x[0]["v"]))
        c, r, k = viol[0]
        # re-run the smallest with texts for the replay file
        chk.violation("%s library copy through JSON/YAML is not lossless (%d of %d cases): %s" % (c["ty"], len(viol), len(cases), summarize(r)),
                      {"cases": [strip(x[0]) for x in viol[:5]], "impl": [x[1] for x in viol[:2]]})
    elif mism:
        c, r, k = mism[0]
        chk.broken.append("correspondence C18: serde_json::to_value / from_value of a generated value differs from the model (code %s): %s" % (k, json.dumps(r)[:300]))

def tuplify(v):
    if isinstance(v, (list, tuple)) and v and isinstance(v[0], str) and v[0] in ("B", "I", "F", "S", "Null", "None", "Some", "L", "V"):
        if v[0] == "L":
            return ("L", [tuplify(x) for x in v[1]])
        if v[0] == "Some":
            return ("Some", tuplify(v[1]))
        if v[0] == "V":
            return ("V", v[1], None if v[2] is None else tuplify(v[2]))
        return tuple(v)
    return v

def strip(c):
    return {"ty": c["ty"], "v": c["v"], "explicit": c["explicit"], "lossy": c.get("lossy", False)}

def summarize(r):
    out = {}
    for f in ("json", "yaml"):
        x = r.get(f, {})
        out[f] = {k: (v if k != "text" else v[:200]) for k, v in x.items()}
    if "gds_bytes_same" in r:
        out["gds_bytes_same"] = r["gds_bytes_same"]
    return json.dumps(out)[:700]
