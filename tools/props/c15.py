"""C15: GDSII real codec. Model Gds/GdsReal.v, theorems Properties/C15.v,
correspondence against gds21::GdsFloat64::{encode,decode}."""
import json, struct
from vlib import *
from props.kernelcommon import kernel_tie_leg
from props import layerb

OPS = {"dec": 1, "encdec": 2, "decenc": 3}

def f2b(x):
    return struct.unpack(">Q", struct.pack(">d", x))[0]

def gen_cases(chk):
    rng = chk.rng
    quick = chk.tier == "quick"
    cases = []
    dist = {}
    def add(kind, op, a):
        cases.append({"op": op, "a": a & 0xFFFFFFFFFFFFFFFF, "kind": kind})
        dist[kind] = dist.get(kind, 0) + 1
    # 1. every double within +-U ulp of each power of two in (and just around) the GDSII range; both signs
    U = 3 if quick else 8
    for j in range(-262, 254):
        base = (j + 1023) << 52
        for d in range(-U, U + 1):
            add("near_pow2", "encdec", base + d)
            if not quick or (j % 4 == 0):
                add("near_pow2_neg", "encdec", (1 << 63) | (base + d))
    # 2. zeros, and tiny / huge values outside the range (correspondence only)
    for a in (0, 1 << 63, 1, 0x000FFFFFFFFFFFFF, 0x0010000000000000, f2b(1e-300), f2b(-1e-300)):
        add("zero_tiny", "encdec", a)
    # 3. random in-range doubles
    for _ in range(1500 if quick else 40000):
        e = rng.randrange(-260 + 1023, 252 + 1023)      # the whole normalised range [16^-65, 16^63)
        add("random_inrange", "encdec", (rng.getrandbits(1) << 63) | (e << 52) | rng.getrandbits(52))
    # 3b. the lowest hex decade [16^-65, 16^-64) = [2^-260, 2^-256): exponent byte 0x00 with a normalised mantissa
    #     (in the domain of C15_decode_encode since 2026-10-02); named doubles, edge mantissas, random
    for a0 in (f2b(1e-78), f2b(-1e-78), f2b(6e-79), f2b(-6e-79), f2b(2.0 ** -260), f2b(-(2.0 ** -260)), f2b(8.6e-78), f2b(5.4e-79)):
        add("lowest_decade", "encdec", a0)
    for e in range(-260, -256):
        for fr in (0, 1, 2, (1 << 52) - 1, (1 << 52) - 2, 1 << 51, (1 << 51) - 1, (1 << 51) + 1):
            add("lowest_decade", "encdec", ((e + 1023) << 52) | fr)
            add("lowest_decade", "encdec", (1 << 63) | ((e + 1023) << 52) | fr)
    for _ in range(300 if quick else 8000):
        e = rng.randrange(-260 + 1023, -256 + 1023)
        add("lowest_decade", "encdec", (rng.getrandbits(1) << 63) | (e << 52) | rng.getrandbits(52))
    #     and the normalised words with exponent byte 0 (decode, re-encode must reproduce when <= 53 bits)
    for _ in range(200 if quick else 5000):
        k = rng.choice([53, 54, 55, 56])
        M = (rng.getrandbits(53) | (1 << 52)) << (k - 53)
        add("dec_exp0_sig53", "decenc", (rng.getrandbits(1) << 63) | M)
    # 4. decode: one- and two-bit mantissa patterns x exponents (sampled in quick, exhaustive in thorough)
    pats = [(1 << i) | (1 << j) for i in range(56) for j in range(i + 1)]
    exps = list(range(128))
    if quick:
        for _ in range(1500):
            add("dec_2bit", "decenc", (rng.getrandbits(1) << 63) | (rng.choice(exps) << 56) | rng.choice(pats))
    else:
        for p in pats:
            for e in exps:
                add("dec_2bit", "decenc", (e << 56) | p)
        chk.cov["exhaustive_subspace"] = "all 1- and 2-bit mantissa patterns x all 128 exponent bytes (decode, re-encode, decode)"
    # 5. decode: mantissas that need rounding (54..56 significant bits), incl. ties and carries
    for _ in range(1000 if quick else 30000):
        k = rng.choice([53, 54, 55, 56])
        M = rng.getrandbits(k) | (1 << (k - 1))
        c = rng.randrange(6)
        if c == 0:   # exact tie
            sh = k - 53
            if sh > 0:
                M = (M >> sh << sh) | (1 << (sh - 1))
        elif c == 1:  # all ones: carry
            M = (1 << k) - 1 - rng.randrange(4)
        add("dec_round", "decenc", (rng.getrandbits(1) << 63) | (rng.randrange(128) << 56) | M)
    # 6. normalised reals with <= 53 significant bits (re-encode must reproduce)
    for _ in range(1000 if quick else 30000):
        k = rng.choice([53, 54, 55, 56])
        M = (rng.getrandbits(53) | (1 << 52)) << (k - 53)
        add("dec_sig53", "decenc", (rng.getrandbits(1) << 63) | (rng.randrange(128) << 56) | M)
    # 6b. the largest mantissas at the largest exponents (rounding up to 16^63)
    for e in (126, 127):
        for d in range(1, 9):
            add("dec_max", "decenc", (e << 56) | ((1 << 56) - d))
            add("dec_max", "decenc", (1 << 63) | (e << 56) | ((1 << 56) - d))
    # 7. uniform random words both ways
    for _ in range(1000 if quick else 30000):
        add("dec_random", "decenc", rng.getrandbits(64))
        add("dec_random", "dec", rng.getrandbits(64))
    # ---- generator audit 2026-10-02 (directed; they come last so that the random families above draw what they drew before)
    # 8. the numbers GDSII files actually hold (units, right angles, small integers, decimal fractions) and the constants of the
    #    crate's own test: a fast path or a table for "usual" values would sit exactly here
    common = [1e-3, 1e-9, 1e-6, 1e-12, 1e-11, 5e-4, 0.1, 0.2, 0.25, 0.5, 0.75, 1.5, 2.5, 10.0, 100.0, 1000.0, 1e6, 1e9, 22.5, 30.0, 45.0, 60.0,
              90.0, 135.0, 180.0, 270.0, 315.0, 360.0, 0.69, 33.33e-33, 3.141592653589793, 2.718281828459045, 1 / 3, 2 / 3] + [float(i) for i in range(1, 21)]
    for x in common:
        add("common_values", "encdec", f2b(x))
        add("common_values", "encdec", f2b(-x))
    # 9. around every power of sixteen at distances of 8 ulp .. 2^40 ulp: the exponent estimate 0.25*log2(x) is off by one for
    #    every double within about 4|k|*2^-53 (relative) of 16^k, i.e. up to ~90 ulp away for the outer exponents; family 1 stops at 3 ulp
    for k in range(-65, 64):
        base = (4 * k + 1023) << 52
        for i in ((3, 5, 7, 9, 12, 20, 40) if quick else range(2, 52)):
            add("near_pow16_wide", "encdec", base - (1 << i))
            add("near_pow16_wide", "encdec", base + (1 << i))
            if k % 8 == 0:
                add("near_pow16_wide", "encdec", (1 << 63) | (base - (1 << i)))
    # 10. words whose mantissa is zero although sign / exponent are not (they denote zero; not normalised, so only the
    #     correspondence speaks), and un-normalised words with many mantissa bits
    for e in (0, 1, 0x3F, 0x40, 0x41, 0x7F):
        for sg in (0, 1):
            add("dec_zero_mantissa", "decenc", (sg << 63) | (e << 56))
            add("dec_zero_mantissa", "dec", (sg << 63) | (e << 56))
    for _ in range(200 if quick else 5000):
        z = rng.choice([1, 1, 2, 3, 6, 13])                       # leading zero nibbles
        add("dec_unnormalised", "decenc", (rng.getrandbits(1) << 63) | (rng.randrange(128) << 56) | rng.getrandbits(56 - 4 * z))
    # 11. negative powers of two at every exponent (family 1 has the negative neighbourhoods of the powers of sixteen only in quick)
    if quick:
        for j in range(-262, 254):
            if j % 4:
                add("near_pow2_neg", "encdec", (1 << 63) | ((j + 1023) << 52))
    return cases, dist

def coq_item(c, r):
    return capp("c15_check", cz(OPS[c["op"]]), cz(c["a"]), clist([cz(v) for v in r]))

def evaluate(chk, cases, tag):
    res = harness("c15", [{"op": c["op"], "a": c["a"]} for c in cases])
    items = []
    idx = []
    out = [None] * len(cases)
    for i, (c, r) in enumerate(zip(cases, res)):
        if "r" not in r:
            out[i] = (2, r)     # panic / crash / harness error: the codec must be total on these inputs
        else:
            items.append(coq_item(c, r["r"]))
            idx.append(i)
    hdr = "From Coq Require Import ZArith List.\nImport ListNotations.\nFrom L21 Require Import Gds.GdsReal Gds.GdsRealCheck.\nOpen Scope Z_scope.\n"
    codes = coq_eval_lists(hdr, items, chk.rundir, tag, shard=1500)
    for i, s in zip(idx, codes):
        out[i] = (parse_z(s), res[i])
    return out

def run(chk, replay=None):
    chk.proof_leg(["Gds/GdsRealCheck.vo"], "Properties/C15.v", ["Gds/GdsReal_proofs.v"], "Properties.C15")
    kernel_tie_leg(chk, "gds")
    # Layer B: the Z-level binary64 operations of the model are Flocq's IEEE-754 operations (Properties/C15B.v).
    # Its theorems depend on the real-number axioms of the standard library; Properties/C15.v must stay closed.
    layerb_ok = layerb.flocq_leg(chk, "Properties/C15B.v", "Properties.C15B")
    chk.assumptions += [
        "libm log2 is not modelled: theorem C15_encode_is_reference holds for EVERY integer estimate",
        ("the Z-level float operations of the model (`u64 as f64` = rne53, `/ 2^56`, `* 16^e` exact, comparisons with powers of sixteen, `.round()`, `as u64`) "
         "are IEEE-754 binary64 operations: theorems C15B_decode_is_flocq / C15B_encode_is_flocq / C15B_rne53_is_flocq_round against Flocq 4.1.0 "
         "(axioms: the standard library's classical reals), and additionally validated by the correspondence run; "
         "what remains assumed: `2f64.powi(56)` and `16f64.powi(e)` return the exact powers of two, Rust's f64 operators are IEEE-754 binary64 round-to-nearest-even")
        if layerb_ok else
        "float operations in decode/encode other than `u64 as f64` and `.round()` are exact (products/quotients by powers of two without under/overflow); validated by the correspondence run (layer B leg not green)",
        "NaN and infinities are outside the model",
    ]
    if not getattr(chk, "model_ok", False):
        return
    if replay:
        obj = json.load(open(replay))["replay"]
        cases = obj["cases"] if "cases" in obj else []
        dist = {}
    else:
        cases, dist = gen_cases(chk)
    chk.cov["input_distribution"] = dist
    chk.cov["rule"] = ("doubles / GDSII words generated per DESIGN.md C15 (near powers of two and sixteen, 1-2 bit and rounding mantissas, "
                       "<=53-bit normalised reals, random; usual values, wide neighbourhoods of the powers of sixteen, zero-mantissa and un-normalised words); a case is non-trivial when the word/double is non-zero; distinct by (op, bits)")
    results = evaluate(chk, cases, "c15")
    chk.cov["evaluations"] = len(cases)
    chk.cov["distinct_nontrivial"] = len({(c["op"], c["a"]) for c in cases if c["a"] not in (0, 1 << 63)})
    chk.cov["traces_validated_against_impl"] = sum(1 for r in results if r[0] == 0)
    chk.add_samples([{"case": c, "impl": r[1], "code": r[0]} for c, r in list(zip(cases, results))[:: max(1, len(cases) // 6)]], k=6)
    mism = [(c, r) for c, r in zip(cases, results) if r[0] == 1]
    viol = [(c, r) for c, r in zip(cases, results) if r[0] == 2]
    chk.cov["correspondence_mismatches"] = len(mism)
    if viol:
        # smallest witness first: prefer fewest significant bits
        viol.sort(key=lambda cr: bin(cr[0]["a"]).count("1"))
        c, r = viol[0]
        chk.violation("GdsFloat64 codec: op=%s a=%#018x impl=%s fails the property (%d failing cases of %d)" % (c["op"], c["a"], r[1], len(viol), len(cases)),
                      {"cases": [c for c, _ in viol[:50]], "impl": [r[1] for _, r in viol[:50]]})
    elif mism:
        c, r = mism[0]
        chk.broken.append("correspondence C15: impl differs from model outside the property's domain, e.g. op=%s a=%#018x impl=%s" % (c["op"], c["a"], r[1]))
