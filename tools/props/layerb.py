"""Layer B (Flocq) proof leg, shared by C15 and C12.

The property files Properties/C15.v and Properties/C12.v prove the theorems about Z-level models of binary64
arithmetic and must stay axiom-free. Properties/C15B.v and Properties/C12B.v prove, against Flocq's IEEE-754
formalisation, that those Z-level operations ARE the binary64 operations. Flocq rests on the standard library's
classical real numbers, so the theorems of this leg depend on a fixed list of standard-library axioms and on nothing
else; the leg checks exactly that, and that the layer-A module was reported closed by Check.proof_leg.

Call AFTER chk.proof_leg(...): `layerb.flocq_leg(chk, "Properties/C15B.v", "Properties.C15B")`."""
import os, re
from vlib import *

# Exactly the axioms Flocq's real-number layer brings in (all four are in vlib.ALLOWED_AXIOMS)
FLOCQ_AXIOMS = {
    "ClassicalDedekindReals.sig_forall_dec", "ClassicalDedekindReals.sig_not_dec",
    "FunctionalExtensionality.functional_extensionality_dep", "Classical_Prop.classic",
}
BRIDGE_FILES = ["Base/F64Flocq.v", "Base/F64Flocq_proofs.v"]
LAYER_A_CLOSED = "none (Closed under the global context)"

def parse_assumptions(out):
    """Print Assumptions output -> {theorem: [axiom names]}. Unlike vlib.print_assumptions' own parser this also
    catches an axiom whose type is printed on the following lines (the name then stands alone on its line)."""
    res, cur = {}, None
    for line in out.splitlines():
        m = re.match(r"@@BEGIN (\S+)", line.strip())
        if m:
            cur = m.group(1); res[cur] = []; continue
        if line.strip().startswith("@@END"):
            cur = None; continue
        if cur is None or not line.strip() or line[0] in " \t":
            continue
        if line.startswith("Closed under the global context") or line.startswith("Axioms:"):
            continue
        m = re.match(r"([A-Za-z_][A-Za-z0-9_.']*)\s*(:.*)?$", line)
        if m:
            res[cur].append(m.group(1))
    return res

def flocq_leg(chk, prop_file, prop_module):
    """Builds the layer-B property module, runs Print Assumptions on each of its theorems, and folds the result into
    the check's proof verdict and coverage record. Returns True when the leg is green."""
    bad = []
    # the layer-A theorems must not have picked up the real-number axioms (nothing outside layer B imports the bridge)
    tb = chk.cov.get("trusted_base") or []
    layer_a_closed = any(LAYER_A_CLOSED in t for t in tb)
    if getattr(chk, "proof_ok", False) and not layer_a_closed:
        bad.append("layer A (%s) is no longer closed under the global context: %s" % (chk.pid, "; ".join(t for t in tb if t.startswith("axioms"))))
    for root, _, fs in os.walk(COQ):
        for f in fs:
            if f.endswith(".v"):
                rel = os.path.relpath(os.path.join(root, f), COQ)
                if rel in BRIDGE_FILES or rel in ("Properties/C15B.v", "Properties/C12B.v"):
                    continue
                txt = strip_coq_comments(open(os.path.join(root, f), encoding="utf8", errors="replace").read())
                if "F64Flocq" in txt or "Properties.C15B" in txt or "Properties.C12B" in txt:
                    bad.append("%s imports the Flocq bridge (only Properties/C15B.v and Properties/C12B.v may)" % rel)
    target = prop_file[:-2] + ".vo"
    ok, out = coq_make([target])
    chk.write_log("coq_layerb_build.log", out)
    names = theorem_names(os.path.join(COQ, prop_file))
    nq = count_qed([os.path.join(COQ, p) for p in [prop_file] + BRIDGE_FILES])
    axioms = {}
    if ok:
        axioms, aout = print_assumptions(prop_module, names, chk.rundir)
        if axioms is None:
            ok = False
            chk.broken.append("Print Assumptions failed (layer B): " + last_error(aout))
            axioms = {}
        else:
            if not aout.startswith("(cached for "):      # (a cached answer is vlib's parsed dictionary; there is no raw output to re-read)
                axioms = parse_assumptions(aout)
            if set(axioms) != set(names):
                ok = False
                chk.broken.append("Print Assumptions (layer B): output does not cover every theorem of " + prop_file)
    else:
        chk.broken.append("proof build failed (layer B, %s): %s" % (prop_file, last_error(out)))
    for n, ax in axioms.items():
        for a in ax:
            if a not in FLOCQ_AXIOMS:
                bad.append("layer-B theorem %s depends on %s, which is not one of the real-number axioms of Flocq" % (n, a))
    chk_note = None
    if ok and not bad and chk.tier == "thorough":
        cok, cax, cout = coqchk(prop_module)
        chk.write_log("coqchk_layerb.log", cout)
        short = {x.split(".")[-1] for x in FLOCQ_AXIOMS}
        if not cok:
            bad.append("coqchk failed on %s: %s" % (prop_module, last_error(cout)))
        else:
            for a in cax:
                if a not in FLOCQ_AXIOMS and a.split(".")[-1] not in short:
                    bad.append("coqchk: %s depends on non-allow-listed axiom %s" % (prop_module, a))
            chk_note = "coqchk -o on L21.%s and its dependencies (Flocq, Reals included): axioms %s; no type-in-type, unsafe fixpoints or assumed positivity" % (
                prop_module, ", ".join(cax) if cax else "<none>")
    if bad:
        chk.broken.append("static gate (layer B): " + "; ".join(bad[:10]))
    leg_ok = ok and not bad
    if not leg_ok:
        chk.proof_ok = False
        chk.cov["discharged"] = 0
    else:
        chk.cov["obligations"] = chk.cov.get("obligations", 0) + nq
        if getattr(chk, "proof_ok", False):
            chk.cov["discharged"] = chk.cov.get("discharged", 0) + nq
    chk.cov["theorems"] = list(chk.cov.get("theorems", [])) + names
    allax = sorted({a for ax in axioms.values() for a in ax})
    chk.cov["layer_b"] = {
        "module": prop_module, "theorems": names, "obligations": nq, "ok": leg_ok,
        "axioms_per_theorem": {n: sorted(ax) for n, ax in axioms.items()},
        "checker_cmd": "cd /verif/coq && ./mk.sh && make %s ; coqc Print Assumptions on each theorem of %s" % (target, prop_file),
        "layer_a_closed": layer_a_closed,
    }
    chk.cov.setdefault("trusted_base", []).append(
        "layer B (%s; Flocq 4.1.0 IEEE754.Binary/Bits): the Z-level binary64 operations of the model are Flocq's; axioms of these theorems only: %s"
        % (prop_file, ", ".join(allax) if allax else "none"))
    if chk_note:
        chk.cov["trusted_base"].append(chk_note)
    return leg_ok
