"""C08: compiled gridded (tetris) layouts realise exactly their tracks, cuts, vias and nets.
Model Tetris/{Stack,Tracks,Compile}.v, spec Tetris/CompileSpec.v, check Tetris/CompileCheck.v,
theorems Properties/C08.v; correspondence against layout21tetris Library::to_raw
(RawExporter::convert) through harness/src/bin/c08.rs."""
import json, math, copy
from vlib import *
from props.kernelcommon import kernel_tie_leg

# ------------------------------------------------------------------ the stack family
def E(k, w): return [k, w]
def R(es, n): return ["r", es, n]

def metal(d, cutsize, entries, offset=0, overlap=0, flip=False, prim="stack", raw=None):
    return {"dir": d, "cutsize": cutsize, "entries": entries, "offset": offset, "overlap": overlap,
            "flip": flip, "prim": prim, "raw": raw}

def finish(name, prim, metals, via_sizes):
    for i, m in enumerate(metals):
        if m["raw"] is None:
            m["raw"] = (10 + i) * 1000 + 20
    vias = [{"bot": i, "top": i + 1, "size": list(s), "raw": (10 + i) * 1000 + 44} for i, s in enumerate(via_sizes)]
    return {"name": name, "prim": list(prim), "metals": metals, "vias": vias}

def stack_family():
    fam = []
    # 0. the repo's sample stack (tests/stacks.rs SampleStacks::pdka), 5 metals; symmetric patterns, flip, overlap
    hpat = lambda: [E("n", 480), R([E("g", 200), E("s", 140)], 6), E("g", 200), E("p", 480)]
    pdka = finish("pdka", (460, 2720), [
        metal("h", 250, hpat(), -240, 480, True, "split", 68020),
        metal("v", 250, [E("s", 140), E("g", 320)], -70, 0, False, "stack", 69020),
        metal("h", 250, hpat(), -240, 480, True, "stack", 70020),
        metal("v", 250, [E("n", 510), R([E("g", 410), E("s", 50)], 8), E("g", 410), E("p", 510)], -255, 510, True, "stack", 71020),
        metal("h", 250, hpat(), -240, 480, True, "stack", 72020)], [(240, 240)] * 4)
    pdka["vias"] = [{"bot": None, "top": 0, "size": [240, 240], "raw": 67044}] + [
        {"bot": i, "top": i + 1, "size": [240, 240], "raw": (68 + i) * 1000 + 44} for i in range(4)]
    fam.append(pdka)
    # 1. asymmetric pattern, every-other flip on the horizontal layers and the top vertical one
    fam.append(finish("asym-flip", (400, 400), [
        metal("h", 50, [E("s", 100), E("g", 300)], flip=True),
        metal("v", 50, [E("s", 100), E("g", 300)]),
        metal("h", 60, [E("g", 40), E("s", 120), E("g", 240)], flip=True),
        metal("v", 60, [E("s", 80), E("g", 120), E("s", 40), E("g", 160)], flip=True)], [(40, 40), (40, 60), (60, 40)]))
    # 2. same geometry without flip (control)
    fam.append(finish("asym-noflip", (400, 400), [
        metal("h", 50, [E("s", 100), E("g", 300)]),
        metal("v", 50, [E("s", 100), E("g", 300)]),
        metal("h", 60, [E("g", 40), E("s", 120), E("g", 240)]),
        metal("v", 60, [E("s", 80), E("g", 120), E("s", 40), E("g", 160)])], [(40, 40), (40, 60), (60, 40)]))
    # 3. standard-cell like: rails shared through overlap, offsets, Repeat, symmetric, flip; vertical first layer pitch 90
    fam.append(finish("rails-overlap", (90, 360), [
        metal("h", 30, [E("n", 80), R([E("g", 40), E("s", 40)], 3), E("g", 40), E("p", 80)], -40, 80, True, "split"),
        metal("v", 40, [E("s", 40), E("g", 50)], -20, 0, False, "prim"),
        metal("h", 30, [R([E("s", 60), E("g", 60)], 3)], -30),
        metal("v", 40, [E("g", 30), E("s", 60), E("g", 90)], 0)], [(30, 30), (40, 30), (40, 40)]))
    # 4. odd widths, odd cut size, odd via sizes
    fam.append(finish("odd-sizes", (210, 210), [
        metal("h", 31, [E("s", 35), E("g", 70)], 3),
        metal("v", 33, [E("g", 20), E("s", 45), E("g", 40)], -7),
        metal("h", 30, [E("s", 36), E("g", 69)], 0),
        metal("v", 31, [E("s", 50), E("g", 55)], 5)], [(21, 23), (20, 25), (41, 22)]))
    # 5. Repeat patterns, asymmetric, flip on both directions, vertical layer first
    fam.append(finish("repeat-asym-flip-v-first", (300, 300), [
        metal("v", 20, [E("g", 10), R([E("s", 30), E("g", 70)], 2), E("s", 50), E("g", 40)], flip=True),
        metal("h", 24, [R([E("s", 40), E("g", 60)], 2), E("s", 80), E("g", 20)], flip=True),
        metal("v", 20, [R([E("g", 25), E("s", 50)], 4)], -10, flip=True),
        metal("h", 24, [E("s", 60), E("g", 90), R([E("s", 30), E("g", 45)], 2)], 6, flip=True)], [(20, 20), (24, 20), (20, 24)]))
    # 6. asymmetric rails + signals with flip and overlap (rails at both ends of different widths), big cut size
    fam.append(finish("asym-rails-flip", (200, 480), [
        metal("h", 120, [E("p", 60), E("g", 40), E("s", 40), E("g", 80), E("s", 60), E("g", 200), E("p", 60)], -30, 60, True, "prim"),
        metal("v", 100, [E("s", 60), E("g", 140)], -30, 0, False, "split"),
        metal("h", 120, [E("n", 100), R([E("g", 50), E("s", 45)], 4)], -50, 0, True)], [(60, 40), (40, 60)]))
    # 7. offsets larger than a period, pitch two prim pitches, no flip
    fam.append(finish("offset-multi-pitch", (100, 150), [
        metal("h", 20, [E("s", 50), E("g", 100), E("s", 70), E("g", 80)], 10),
        metal("v", 20, [E("g", 20), E("s", 60), E("g", 120)], -15),
        metal("h", 26, [E("s", 90), E("g", 60)], 0),
        metal("v", 26, [E("s", 30), E("g", 20), E("s", 30), E("g", 20)], 0)], [(20, 20), (26, 20), (26, 26)]))
    return fam

# ------------------------------------------------------------------ geometry used by the GENERATOR only
def flat(m):
    out = []
    for e in m["entries"]:
        if e[0] == "r":
            out += [tuple(x) for x in e[1]] * e[2]
        else:
            out.append(tuple(e))
    return out
def plen(m): return sum(w for _, w in flat(m)) - m["overlap"]
def nsig(m): return sum(1 for k, _ in flat(m) if k == "s")
def symmetric(m):
    f = [("r" if k in "pn" else k, w) for k, w in flat(m)]
    return f == f[::-1]
def track_pos(m, k):
    f = flat(m); n = nsig(m); q, r = divmod(k, n)
    tot = sum(w for _, w in f)
    mir = m["flip"] and q % 2 == 1
    j = n - 1 - r if mir else r
    s = 0; cnt = 0
    for kind, w in f:
        if kind == "s":
            if cnt == j:
                rel = tot - s - w if mir else s
                return (m["offset"] + plen(m) * q + rel, w)
            cnt += 1
        s += w
    raise IndexError
def centre(m, k):
    p, w = track_pos(m, k)
    return p + w // 2

def lcm(a, b): return a * b // math.gcd(a, b)
def size_units(st, nmet):
    """smallest outline (in prim pitches) that is a whole number of periods on metals 0..nmet-1"""
    ux = uy = 1
    for m in st["metals"][:nmet]:
        p = plen(m)
        if m["dir"] == "h":
            uy = lcm(uy, p // math.gcd(p, st["prim"][1]))
        else:
            ux = lcm(ux, p // math.gcd(p, st["prim"][0]))
    return ux, uy

def inst_box(st, cells, i):
    c = cells[i["cell"]]
    w, h = c["outline"]
    xs = (i["loc"][0] - w, i["loc"][0]) if i["rh"] else (i["loc"][0], i["loc"][0] + w)
    ys = (i["loc"][1] - h, i["loc"][1]) if i["rv"] else (i["loc"][1], i["loc"][1] + h)
    return xs, ys

def gen_cell(rng, st, cells, nmet, ox, oy, ninst, ncut, nasg, sloppy):
    """one cell with instances of earlier cells, cuts, assignments; mostly conflict free"""
    px, py = st["prim"]
    c = {"metals": nmet, "outline": [ox, oy], "insts": [], "cuts": [], "assigns": []}
    cand = [k for k, cc in enumerate(cells) if cc["metals"] < max(nmet, 1) + (1 if sloppy else 0)
            and cc["outline"][0] <= ox and cc["outline"][1] <= oy]
    boxes = []
    for _ in range(ninst):
        if not cand:
            break
        for _try in range(6):
            k = rng.choice(cand)
            w, h = cells[k]["outline"]
            rh, rv = rng.random() < 0.5, rng.random() < 0.5
            x = rng.randint(w, ox) if rh else rng.randint(0, ox - w)
            y = rng.randint(h, oy) if rv else rng.randint(0, oy - h)
            i = {"cell": k, "loc": [x, y], "rh": rh, "rv": rv}
            xs, ys = inst_box(st, cells, i)
            if sloppy or all(xs[1] <= b[0][0] or b[0][1] <= xs[0] or ys[1] <= b[1][0] or b[1][1] <= ys[0] for b in boxes):
                c["insts"].append(i); boxes.append((xs, ys)); break
    # occupied intervals per track: (layer, k) -> list of (a, b)
    occ = {}
    def span_of(l): return ox * px if st["metals"][l]["dir"] == "h" else oy * py
    def breadth_of(l): return oy * py if st["metals"][l]["dir"] == "h" else ox * px
    def ntr(l):
        m = st["metals"][l]
        return (breadth_of(l) // plen(m)) * nsig(m)
    def track_occ(l, k):
        if (l, k) not in occ:
            m = st["metals"][l]; q = k // nsig(m); P = plen(m); o = []
            for i, (xs, ys) in zip(c["insts"], boxes):
                if cells[i["cell"]]["metals"] > l:
                    al, ac = (xs, ys) if m["dir"] == "h" else (ys, xs)
                    u = px if m["dir"] == "h" else py
                    v = py if m["dir"] == "h" else px
                    if ac[1] * v > P * q and ac[0] * v < P * (q + 1):
                        o.append((al[0] * u, al[1] * u))
            occ[(l, k)] = o
        return occ[(l, k)]
    nm = len(st["metals"])
    for _ in range(ncut):
        if nmet == 0:
            break
        l = rng.randrange(nmet)
        cl = rng.choice([x for x in (l - 1, l + 1) if 0 <= x < nm] or [l])
        if cl == l or ntr(l) == 0 or ntr(cl) == 0:
            continue
        k, ck = rng.randrange(ntr(l)), rng.randrange(ntr(cl))
        m = st["metals"][l]
        d = centre(st["metals"][cl], ck)
        a, b = d - m["cutsize"] // 2 - 1, d + m["cutsize"] // 2 + 2
        o = track_occ(l, k)
        ok = a >= 1 and b <= span_of(l) - 1 and all(b < x0 or x1 < a for x0, x1 in o)
        if ok or sloppy:
            c["cuts"].append([l, k, cl, ck])
            if ok:
                o.append((a + 1, b - 1))
    piece_net = {}
    nets = 0
    def piece(l, k, d):
        o = sorted(track_occ(l, k))
        if any(x0 - 1 <= d <= x1 + 1 for x0, x1 in o):
            return None
        return (l, k, sum(1 for x0, x1 in o if x1 < d))
    for _ in range(nasg):
        if nmet < 2:
            break
        lb = rng.randrange(nmet - 1); lt = lb + 1
        if ntr(lb) == 0 or ntr(lt) == 0:
            continue
        kb, kt = rng.randrange(ntr(lb)), rng.randrange(ntr(lt))
        pb = piece(lb, kb, centre(st["metals"][lt], kt))
        pt = piece(lt, kt, centre(st["metals"][lb], kb))
        if (pb is None or pt is None) and not sloppy:
            continue
        nb, nt = piece_net.get(pb), piece_net.get(pt)
        if nb and nt and nb != nt and not sloppy:
            continue
        net = nb or nt
        if not net:
            nets += 1; net = nets
        if pb: piece_net[pb] = net
        if pt: piece_net[pt] = net
        c["assigns"].append([net, lt, kt, lb, kb] if rng.random() < 0.5 else [net, lb, kb, lt, kt])
    return c

def gen_lib(rng, st, big=False):
    nm = len(st["metals"])
    nmet = rng.choice([1, 2, 2, 3, 3, 4, 4][:max(1, 2 * min(nm, 4) - 1)]) if nm else 0
    nmet = min(nmet, nm, 4)
    sloppy = rng.random() < 0.08
    cells = []
    nchild = rng.choice([0, 0, 1, 1, 2])
    for _ in range(nchild):
        cm = rng.randrange(0, max(1, nmet))
        ux, uy = size_units(st, cm)
        if ux > 6 or uy > 6:
            cm = 0; ux = uy = 1
        w, h = ux * rng.randint(1, max(1, 3 // ux)), uy * rng.randint(1, max(1, 3 // uy))
        cells.append(gen_cell(rng, st, cells, cm, w, h, 0, rng.choice([0, 0, 1]), rng.choice([0, 0, 1]), False))
    ux, uy = size_units(st, nmet)
    lim = 12 if big else 6
    ox = ux * rng.randint(1, max(1, lim // ux)); oy = uy * rng.randint(1, max(1, lim // uy))
    if rng.random() < 0.03:
        ox += 1   # now and then not a whole number of periods (Err expected unless the unit is 1)
    cells.append(gen_cell(rng, st, cells, nmet, ox, oy, rng.choice([0, 0, 1, 1, 2, 3]),
                          rng.choice([0, 1, 2, 3, 5, 8]), rng.choice([0, 1, 2, 3, 4, 6]), sloppy))
    return cells

# ------------------------------------------------------------------ directed / hostile cases
def directed_cases(fam):
    S = {s["name"]: s for s in fam}
    out = []
    def add(kind, st, cells):
        out.append({"op": "compile", "stack": st, "cells": cells, "kind": kind})
    a = S["asym-flip"]
    # the three defects named in DESIGN.md section 6 (27, 28, 29)
    add("d_flip_via", a, [{"metals": 2, "outline": [2, 2], "insts": [], "cuts": [], "assigns": [[1, 0, 1, 1, 0]]}])
    add("d_flip_cut", a, [{"metals": 2, "outline": [2, 2], "insts": [], "cuts": [[1, 0, 0, 1]], "assigns": []}])
    n = S["asym-noflip"]
    add("d_reflect_h", n, [{"metals": 1, "outline": [1, 1], "insts": [], "cuts": [], "assigns": []},
                           {"metals": 2, "outline": [3, 1], "insts": [{"cell": 0, "loc": [2, 0], "rh": True, "rv": False}], "cuts": [], "assigns": []}])
    add("d_reflect_v", n, [{"metals": 2, "outline": [1, 1], "insts": [], "cuts": [], "assigns": []},
                           {"metals": 2, "outline": [1, 3], "insts": [{"cell": 0, "loc": [0, 2], "rh": False, "rv": True}], "cuts": [], "assigns": []}])
    add("d_underflow", n, [{"metals": 4, "outline": [2, 2], "insts": [], "cuts": [], "assigns": [[1, 3, 0, 0, 0]]}])
    # further robustness: layers above the cell's metals, empty net, same direction, outside the stack
    add("d_cut_above_metals", n, [{"metals": 1, "outline": [2, 2], "insts": [], "cuts": [[1, 0, 0, 0]], "assigns": []}])
    add("d_assign_above_metals", n, [{"metals": 1, "outline": [2, 2], "insts": [], "cuts": [], "assigns": [[1, 0, 0, 1, 0]]}])
    add("d_empty_net", n, [{"metals": 2, "outline": [2, 2], "insts": [], "cuts": [], "assigns": [[0, 0, 0, 1, 0]]}])
    add("d_same_dir", n, [{"metals": 3, "outline": [2, 2], "insts": [], "cuts": [[0, 0, 2, 0]], "assigns": []}])
    add("d_outside_stack", n, [{"metals": 2, "outline": [2, 2], "insts": [], "cuts": [[0, 0, 7, 0]], "assigns": []}])
    add("d_metals_above_stack", n, [{"metals": 5, "outline": [2, 2], "insts": [], "cuts": [], "assigns": []}])
    add("d_nonadjacent", n, [{"metals": 4, "outline": [2, 2], "insts": [], "cuts": [], "assigns": [[1, 0, 0, 3, 0]]}])
    add("d_cut_conflict", n, [{"metals": 2, "outline": [2, 2], "insts": [], "cuts": [[0, 0, 1, 1], [0, 0, 1, 1]], "assigns": []}])
    add("d_assign_on_cut", n, [{"metals": 2, "outline": [2, 2], "insts": [], "cuts": [[0, 0, 1, 1]], "assigns": [[1, 0, 0, 1, 1]]}])
    add("d_odd_via", S["odd-sizes"], [{"metals": 2, "outline": [2, 2], "insts": [], "cuts": [[0, 1, 1, 1]], "assigns": [[1, 0, 0, 1, 0]]}])
    # the suite's own cells on the sample stack (tests/mod.rs create_lib1, create_lib2)
    add("d_create_lib1", S["pdka"], [{"metals": 3, "outline": [50, 5], "insts": [],
        "cuts": [[0, 1, 1, 1], [0, 1, 1, 3], [0, 1, 1, 5], [1, 1, 0, 1], [1, 1, 0, 3], [1, 1, 0, 5]], "assigns": [[1, 1, 4, 0, 2]]}])
    add("d_create_lib2", S["pdka"], [{"metals": 2, "outline": [100, 10], "insts": [], "cuts": [], "assigns": []},
        {"metals": 4, "outline": [200, 20], "insts": [{"cell": 0, "loc": [20, 2], "rh": False, "rv": False}], "cuts": [], "assigns": [[1, 1, 1, 2, 1]]}])
    # a layer without signal tracks used as the crossing layer
    nos = finish("no-signal-layer", (100, 100), [metal("h", 20, [E("s", 40), E("g", 60)]), metal("v", 20, [E("p", 40), E("g", 60)])], [(20, 20)])
    add("d_no_signal_cross", nos, [{"metals": 1, "outline": [2, 2], "insts": [], "cuts": [[0, 0, 1, 0]], "assigns": []}])
    # ODD-WIDTH CROSSING NEXT TO A BLOCKED SPAN (DESIGN.md section 4 / 9, 2026-10-01): the crossing track has odd width, `center`
    # rounds its centre (x.5) down to x, and an instance's blocked span ends or starts exactly at x.  Such an assignment is
    # outside the well-formed space (clause crossing_clearb of assign_wfb); the cases are generated on purpose so that the
    # evidence shows they are reached and classified "outside wf, not judged".  On the real code the net is lost (span ends
    # at x) or lands on the piece that ends at x although the crossing lies inside the blocked span (span starts at x).
    och = finish("odd-centre-h", (5, 10), [metal("h", 2, [E("s", 10)]), metal("v", 2, [E("g", 3), E("s", 5), E("g", 2)])], [(2, 2)])
    ocv = finish("odd-centre-v", (10, 5), [metal("v", 2, [E("s", 10)]), metal("h", 2, [E("g", 3), E("s", 5), E("g", 2)])], [(2, 2)])
    kid = {"metals": 1, "outline": [1, 1], "insts": [], "cuts": [], "assigns": []}
    def occ(st, horiz, n_out, loc, refl, crosstrack):
        outline = [n_out, 1] if horiz else [1, n_out]
        i = {"cell": 0, "loc": [loc, 0] if horiz else [0, loc], "rh": refl and horiz, "rv": refl and not horiz}
        return [copy.deepcopy(kid), {"metals": 2, "outline": outline, "insts": [i], "cuts": [], "assigns": [[1, 1, crosstrack, 0, 0]]}]
    for st, horiz in ((och, True), (ocv, False)):
        # rounded centre of cross track 0 is 5, of cross track 1 is 15; one instance box is 5 long
        add("odd_crossing_at_block_end", st, occ(st, horiz, 2, 0, False, 0))   # box 0..5 ends at 5
        add("odd_crossing_at_block_end", st, occ(st, horiz, 4, 1, False, 0))   # box 5..10 starts at 5
        add("odd_crossing_at_block_end", st, occ(st, horiz, 4, 1, True, 0))    # reflected: box 0..5
        add("odd_crossing_at_block_end", st, occ(st, horiz, 4, 2, True, 0))    # reflected: box 5..10
        add("odd_crossing_at_block_end", st, occ(st, horiz, 4, 2, False, 1))   # box 10..15 ends at 15
        add("odd_crossing_at_block_end", st, occ(st, horiz, 4, 3, False, 1))   # box 15..20 starts at 15
        add("odd_crossing_clear_control", st, occ(st, horiz, 4, 2, False, 0))  # box 10..15, crossing at 5: well-formed
        add("odd_crossing_clear_control", st, occ(st, horiz, 4, 0, False, 1))  # box 0..5, crossing at 15: well-formed
    return out

# ------------------------------------------------------------------ known-finding classes (decidable on the case)
def case_classes(case):
    st = case["stack"]; cl = set()
    if case.get("op") == "tracks":
        if any(m["flip"] and not symmetric(m) for m in st["metals"]):
            cl.add("flip-asymmetric-pattern")
        return cl
    if any(m["flip"] and not symmetric(m) for m in st["metals"]):
        cl.add("flip-asymmetric-pattern")
    if any(v["size"][0] % 2 or v["size"][1] % 2 for v in st["vias"]) or any(m["cutsize"] % 2 for m in st["metals"]):
        cl.add("odd-via-or-cut-size")
    for c in case["cells"]:
        for i in c["insts"]:
            if i["rh"] or i["rv"]:
                cl.add("reflected-instance-blockage")
        for x in c["cuts"]:
            if x[0] >= c["metals"]:
                cl.add("layer-above-cell-metals")
        for a in c["assigns"]:
            if a[3] == 0 and a[1] != 1:
                cl.add("assign-cross-layer-zero")
            if max(a[1], a[3]) >= c["metals"]:
                cl.add("layer-above-cell-metals")
    if any(nsig(m) == 0 for m in st["metals"]):
        cl.add("layer-without-signal-tracks")
    return cl

# ------------------------------------------------------------------ Coq terms
def centry(e):
    k = {"g": "Gap", "s": "Signal", "p": "(Rail Pwr)", "n": "(Rail Gnd)"}[e[0]]
    return capp("mkEntry", Raw(k), cz(e[1]))
def cspec(e):
    if e[0] == "r":
        return capp("SRepeat", clist([centry(x) for x in e[1]]), cnat(e[2]))
    return capp("SEntry", centry(e))
def cmetal(m):
    return capp("mkMetal", cbool(m["dir"] == "h"), cz(m["cutsize"]), clist([cspec(e) for e in m["entries"]]),
                cz(m["offset"]), cz(m["overlap"]), cbool(m["flip"]), cbool(m["prim"] in ("split", "prim")),
                copt(None if m["raw"] is None else cz(m["raw"])))
def cvia(v):
    o = lambda x: copt(None if x is None else cz(x))
    return capp("mkVia", o(v["bot"]), o(v["top"]), cz(v["size"][0]), cz(v["size"][1]), o(v["raw"]))
def cstack(s):
    return capp("mkStack", cz(s["prim"][0]), cz(s["prim"][1]), clist([cmetal(m) for m in s["metals"]]),
                clist([cvia(v) for v in s["vias"]]), cbool(True), cbool(True))
def ccross(x):
    return capp("mkCross", *[cz(v) for v in x])
def ccell(c, cells):
    insts = []
    for i in c["insts"]:
        r = cells[i["cell"]]
        insts.append(capp("mkInst", cz(r["metals"]), cz(r["outline"][0]), cz(r["outline"][1]),
                          cz(i["loc"][0]), cz(i["loc"][1]), cbool(i["rh"]), cbool(i["rv"])))
    return capp("mkCell", cz(c["metals"]), cz(c["outline"][0]), cz(c["outline"][1]), clist(insts),
                clist([ccross(x) for x in c["cuts"]]), clist([ctup(cz(a[0]), ccross(a[1:])) for a in c["assigns"]]))
def cfix(fx):
    return capp("mkFixes", *[cbool(b) for b in fx])

def result_kind(r):
    if "ok" in r or "tracks" in r: return 0
    if "err" in r or "stack_err" in r: return 1
    if "panic" in r: return 2
    return None

def coq_item(fx, case, r):
    k = result_kind(r)
    if case.get("op") == "tracks":
        rows = clist([clist([ctup(*[cz(v) for v in t]) for t in row]) for row in r.get("tracks", [])])
        return capp("c08_check_tracks", cfix(fx), cstack(case["stack"]), cz(case["n"]), cz(k), rows,
                    clist([cz(p) for p in r.get("pitches", [])]))
    cells = case["cells"]
    out = clist([clist([ctup(*[cz(v) for v in s]) for s in cell]) for cell in r.get("ok", [])])
    return capp("c08_check", cfix(fx), cstack(case["stack"]), clist([ccell(c, cells) for c in cells]), cz(k), out)

HDR = ("From Coq Require Import ZArith List Bool.\nImport ListNotations.\n"
       "From L21 Require Import Tetris.Stack Tetris.Tracks Tetris.Compile Tetris.CompileSpec Tetris.CompileCheck.\nOpen Scope Z_scope.\n")

def strip(case):
    c = {k: v for k, v in case.items() if k != "kind"}
    c["stack"] = {k: v for k, v in case["stack"].items() if k != "name"}
    return c

def evaluate(chk, fx, cases, tag, shard=120):
    res = harness("c08", [strip(c) for c in cases])
    items, idx, out = [], [], [None] * len(cases)
    for i, (c, r) in enumerate(zip(cases, res)):
        if result_kind(r) is None:
            out[i] = (2, r)       # harness error / crash
        else:
            items.append(coq_item(fx, c, r)); idx.append(i)
    codes = coq_eval_lists(HDR, items, chk.rundir, tag, shard=shard)
    for i, s in zip(idx, codes):
        out[i] = (parse_z(s), res[i])
    return out

# ------------------------------------------------------------------ which variant of the code is in /repo
def detect_variant(fam):
    """five sentinel cases, one per repair; returns (flags, description)"""
    S = {s["name"]: s for s in fam}
    d = {c["kind"]: c for c in directed_cases(fam)}
    tr = {"op": "tracks", "n": 2, "stack": S["asym-flip"]}
    r = harness("c08", [strip(tr), strip(d["d_reflect_h"]), strip(d["d_underflow"]), strip(d["d_cut_above_metals"]), strip(d["d_odd_via"])])
    flip = r[0].get("tracks", [[[0], [0]]])[0][1][0] == 750
    refl = "ok" in r[1] and len(r[1]["ok"][1]) > 0 and [s[1:5] for s in r[1]["ok"][1] if s[0] == 10020] == [[0, 0, 400, 100], [800, 0, 1200, 100]]
    under = "panic" not in r[2]
    bounds = "panic" not in r[3]
    odd = "ok" in r[4] and any(s[0] == 10044 and s[3] - s[1] == 21 for s in r[4]["ok"][0])
    fx = (flip, refl, under, bounds, odd)
    names = ("center-span-flip", "blockage-reflect", "assign-underflow", "cell-metals-bounds", "odd-sizes")
    return fx, {n: ("repaired" if b else "as at the pinned commit") for n, b in zip(names, fx)}

# ------------------------------------------------------------------ shrinking
def shrink(chk, fx, case, rounds=10):
    """greedy: drop cells' cuts / assignments / instances / leading cells while the case still fails"""
    if case.get("op") == "tracks":
        return case
    cur = case
    for rd in range(rounds):
        cands = []
        for ci, c in enumerate(cur["cells"]):
            for key in ("cuts", "assigns", "insts"):
                for j in range(len(c[key])):
                    n = copy.deepcopy(cur); del n["cells"][ci][key][j]; cands.append(n)
        # drop an uninstantiated cell
        for ci in range(len(cur["cells"]) - 1):
            if not any(i["cell"] == ci for c in cur["cells"] for i in c["insts"]):
                n = copy.deepcopy(cur); del n["cells"][ci]
                for c in n["cells"]:
                    for i in c["insts"]:
                        if i["cell"] > ci: i["cell"] -= 1
                cands.append(n)
        if not cands:
            break
        cands = cands[:40]
        rs = evaluate(chk, fx, cands, "shrink%d" % rd)
        nxt = [c for c, r in zip(cands, rs) if r[0] % 10 == 2]
        if not nxt:
            break
        cur = min(nxt, key=lambda c: len(json.dumps(c)))
    return cur

# ------------------------------------------------------------------ the check
def gen_cases(chk, fam):
    rng = chk.rng
    quick = chk.tier == "quick"
    cases = directed_cases(fam)
    for st in fam:
        cases.append({"op": "tracks", "n": 3 * max(1, max(nsig(m) for m in st["metals"])) + 2, "stack": st, "kind": "tracks"})
    per = 110 if quick else 2500
    for st in fam:
        for _ in range(per):
            cases.append({"op": "compile", "stack": st, "cells": gen_lib(rng, st), "kind": "rand:" + st["name"]})
    if not quick:
        for st in fam:
            for _ in range(300):
                cases.append({"op": "compile", "stack": st, "cells": gen_lib(rng, st, big=True), "kind": "big:" + st["name"]})
    return cases

def nontrivial(case, r):
    if case.get("op") == "tracks":
        return True
    return "ok" in r and any(c["cuts"] or c["assigns"] or c["insts"] for c in case["cells"])

def run(chk, replay=None):
    chk.proof_leg(["Tetris/CompileCheck.vo"], "Properties/C08.v",
                  ["Tetris/Compile_proofs.v", "Tetris/CompileFull_proofs.v"], "Properties.C08")
    kernel_tie_leg(chk, "tetris_stack")       # generated-from-source kernels = the model functions (Properties/KernelsTetris.v)
    kernel_tie_leg(chk, "tetris_tracks")      # Track::cut_or_block generated from the source = the model (Properties/KernelsTetris.v)
    chk.assumptions += [
        "isize/usize overflow is not modelled (integers are Z); all coordinates of the run are below 2^31",
        "instances are absolutely placed (Placer::place is the identity on them and keeps their order); cells have a layout view with a rectangular outline, non-empty names, no `places`",
        "an instance is seen by the exporter only through the `metals` and outline of its cell; error messages are not compared, only Ok / Err / panic",
        "the spec reads 'spans blocked by instances' per period: an instance blocks the tracks of every period strip its box meets (touching excluded), along the track over the reflected box",
        "on an integer grid 'centred' = within half a unit (exact when parities allow); 'of the stack's size' = exactly the via layer's size",
    ]
    if not getattr(chk, "model_ok", False):
        return
    ok, out = build_harness(["c08"])
    if not ok:
        chk.broken.append("harness build failed: " + last_error(out)); return
    fam = stack_family()
    fx, desc = detect_variant(fam)
    chk.cov["repo_variant"] = desc
    if replay:
        obj = json.load(open(replay))["replay"]
        cases = obj.get("cases", [])
    else:
        cases = gen_cases(chk, fam)
    dist = {}
    for c in cases:
        dist[c.get("kind", "?")] = dist.get(c.get("kind", "?"), 0) + 1
    chk.cov["input_distribution"] = dist
    chk.cov["rule"] = ("libraries of 1-3 gridded cells over a family of %d layer stacks (the repo's sample stack, asymmetric patterns with and without "
                       "every-other flip, shared rails through overlap, offsets, Repeat, odd sizes, vertical-first), outlines of whole periods up to 6x6 "
                       "primitive pitches (sample stack: up to 10), 1-4 metals, random mostly conflict-free cuts and assignments at in-range crossings, 0-3 "
                       "instances of lower-metal cells in the four reflections, plus directed malformed inputs; a case is non-trivial when the "
                       "implementation returns Ok and some cell has a cut, an assignment or an instance; distinct by JSON of the case" % len(fam))
    results = evaluate(chk, fx, cases, "c08")
    chk.cov["evaluations"] = len(cases)
    chk.cov["distinct_nontrivial"] = len({json.dumps(strip(c), sort_keys=True) for c, r in zip(cases, results) if nontrivial(c, r[1])})
    chk.cov["traces_validated_against_impl"] = sum(1 for r in results if r[0] % 10 == 0)
    chk.cov["impl_ok"] = sum(1 for r in results if result_kind(r[1]) == 0)
    chk.cov["impl_err"] = sum(1 for r in results if result_kind(r[1]) == 1)
    chk.cov["impl_panic"] = sum(1 for r in results if result_kind(r[1]) == 2)
    chk.cov["outside_domain_silent"] = sum(1 for r in results if (r[0] // 10) & 1)
    chk.cov["spec_ambiguous"] = sum(1 for r in results if (r[0] // 10) & 2)
    oc = [(c, r) for c, r in zip(cases, results) if c.get("kind") == "odd_crossing_at_block_end"]
    occ = [(c, r) for c, r in zip(cases, results) if c.get("kind") == "odd_crossing_clear_control"]
    chk.cov["odd_crossing_at_block_end"] = {
        "what": "assignment whose crossing, rounded down by `center` (odd track width), sits on the end of an instance's blocked span; "
                "outside the well-formed space (assign_wfb clause crossing_clearb): reported, not judged",
        "cases": len(oc), "impl_ok": sum(1 for _, r in oc if result_kind(r[1]) == 0),
        "classified_outside_wf_not_judged": sum(1 for _, r in oc if (r[0] // 10) & 1 and r[0] % 10 != 2),
        "impl_equals_model": sum(1 for _, r in oc if r[0] % 10 == 0),
        "controls_well_formed_and_judged_ok": sum(1 for _, r in occ if r[0] == 0), "controls": len(occ)}
    chk.cov["shapes_compared"] = sum(len(c) for r in results for c in r[1].get("ok", []))
    chk.add_samples([{"case": strip(c), "impl": r[1], "code": r[0]} for c, r in list(zip(cases, results))[:: max(1, len(cases) // 5)]], k=5)
    mism = [(c, r) for c, r in zip(cases, results) if r[0] % 10 == 1]
    viol = [(c, r) for c, r in zip(cases, results) if r[0] % 10 == 2]
    chk.cov["correspondence_mismatches"] = len(mism)
    known = [k for k in load_known() if k.get("kind") == "finding" and k.get("property") == "C08"]
    unknown = []
    for c, r in viol:
        cls = case_classes(c)
        ent = next((k for k in known if k.get("class") in cls), None)
        if ent is not None:
            chk.known(ent, c)
        else:
            unknown.append((c, r))
    if unknown:
        unknown.sort(key=lambda cr: len(json.dumps(cr[0])))
        c, r = unknown[0]
        small = c if replay else shrink(chk, fx, c)
        byclass = {}
        for cc, _ in unknown:
            key = ",".join(sorted(case_classes(cc))) or "-"
            byclass[key] = byclass.get(key, 0) + 1
        chk.violation("tetris compile: %d of %d cases violate C08 (panic, or the shapes do not realise tracks/cuts/vias/nets); classes %s; smallest: %s"
                      % (len(unknown), len(cases), byclass, json.dumps(strip(small))[:600]),
                      {"cases": [small] + [cc for cc, _ in unknown[:40]], "impl": [rr[1] for _, rr in unknown[:5]], "variant": desc})
    elif mism:
        c, r = mism[0]
        chk.broken.append("correspondence C08: impl differs from the model (variant %s), e.g. %s -> %s" % (desc, json.dumps(strip(c))[:400], json.dumps(r[1])[:300]))
