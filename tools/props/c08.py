"""C08: compiled gridded (tetris) layouts realise exactly their tracks, cuts, vias and nets.
Model Tetris/{Stack,Tracks,Compile}.v, spec Tetris/CompileSpec.v, check Tetris/CompileCheck.v,
theorems Properties/C08.v; correspondence against layout21tetris Library::to_raw
(RawExporter::convert) through harness/src/bin/c08.rs."""
import json, math, copy, os, re
from vlib import *
from props.kernelcommon import kernel_tie_leg

# ------------------------------------------------------------------ the stack family
def E(k, w): return [k, w]
def R(es, n): return ["r", es, n]

def metal(d, cutsize, entries, offset=0, overlap=0, flip=False, prim="stack", raw=None):
    return {"dir": d, "cutsize": cutsize, "entries": entries, "offset": offset, "overlap": overlap,
            "flip": flip, "prim": prim, "raw": raw}

def finish(name, prim, metals, via_sizes):
    for i, m in enumerate(metals):
        if m["raw"] is None:
            m["raw"] = (10 + i) * 1000 + 20
    vias = [{"bot": i, "top": i + 1, "size": list(s), "raw": (10 + i) * 1000 + 44} for i, s in enumerate(via_sizes)]
    return {"name": name, "prim": list(prim), "metals": metals, "vias": vias}

def stack_family():
    fam = []
    # 0. the repo's sample stack (tests/stacks.rs SampleStacks::pdka), 5 metals; symmetric patterns, flip, overlap
    hpat = lambda: [E("n", 480), R([E("g", 200), E("s", 140)], 6), E("g", 200), E("p", 480)]
    pdka = finish("pdka", (460, 2720), [
        metal("h", 250, hpat(), -240, 480, True, "split", 68020),
        metal("v", 250, [E("s", 140), E("g", 320)], -70, 0, False, "stack", 69020),
        metal("h", 250, hpat(), -240, 480, True, "stack", 70020),
        metal("v", 250, [E("n", 510), R([E("g", 410), E("s", 50)], 8), E("g", 410), E("p", 510)], -255, 510, True, "stack", 71020),
        metal("h", 250, hpat(), -240, 480, True, "stack", 72020)], [(240, 240)] * 4)
    pdka["vias"] = [{"bot": None, "top": 0, "size": [240, 240], "raw": 67044}] + [
        {"bot": i, "top": i + 1, "size": [240, 240], "raw": (68 + i) * 1000 + 44} for i in range(4)]
    fam.append(pdka)
    # 1. asymmetric pattern, every-other flip on the horizontal layers and the top vertical one
    fam.append(finish("asym-flip", (400, 400), [
        metal("h", 50, [E("s", 100), E("g", 300)], flip=True),
        metal("v", 50, [E("s", 100), E("g", 300)]),
        metal("h", 60, [E("g", 40), E("s", 120), E("g", 240)], flip=True),
        metal("v", 60, [E("s", 80), E("g", 120), E("s", 40), E("g", 160)], flip=True)], [(40, 40), (40, 60), (60, 40)]))
    # 2. same geometry without flip (control)
    fam.append(finish("asym-noflip", (400, 400), [
        metal("h", 50, [E("s", 100), E("g", 300)]),
        metal("v", 50, [E("s", 100), E("g", 300)]),
        metal("h", 60, [E("g", 40), E("s", 120), E("g", 240)]),
        metal("v", 60, [E("s", 80), E("g", 120), E("s", 40), E("g", 160)])], [(40, 40), (40, 60), (60, 40)]))
    # 3. standard-cell like: rails shared through overlap, offsets, Repeat, symmetric, flip; vertical first layer pitch 90
    fam.append(finish("rails-overlap", (90, 360), [
        metal("h", 30, [E("n", 80), R([E("g", 40), E("s", 40)], 3), E("g", 40), E("p", 80)], -40, 80, True, "split"),
        metal("v", 40, [E("s", 40), E("g", 50)], -20, 0, False, "prim"),
        metal("h", 30, [R([E("s", 60), E("g", 60)], 3)], -30),
        metal("v", 40, [E("g", 30), E("s", 60), E("g", 90)], 0)], [(30, 30), (40, 30), (40, 40)]))
    # 4. odd widths, odd cut size, odd via sizes
    fam.append(finish("odd-sizes", (210, 210), [
        metal("h", 31, [E("s", 35), E("g", 70)], 3),
        metal("v", 33, [E("g", 20), E("s", 45), E("g", 40)], -7),
        metal("h", 30, [E("s", 36), E("g", 69)], 0),
        metal("v", 31, [E("s", 50), E("g", 55)], 5)], [(21, 23), (20, 25), (41, 22)]))
    # 5. Repeat patterns, asymmetric, flip on both directions, vertical layer first
    fam.append(finish("repeat-asym-flip-v-first", (300, 300), [
        metal("v", 20, [E("g", 10), R([E("s", 30), E("g", 70)], 2), E("s", 50), E("g", 40)], flip=True),
        metal("h", 24, [R([E("s", 40), E("g", 60)], 2), E("s", 80), E("g", 20)], flip=True),
        metal("v", 20, [R([E("g", 25), E("s", 50)], 4)], -10, flip=True),
        metal("h", 24, [E("s", 60), E("g", 90), R([E("s", 30), E("g", 45)], 2)], 6, flip=True)], [(20, 20), (24, 20), (20, 24)]))
    # 6. asymmetric rails + signals with flip and overlap (rails at both ends of different widths), big cut size
    fam.append(finish("asym-rails-flip", (200, 480), [
        metal("h", 120, [E("p", 60), E("g", 40), E("s", 40), E("g", 80), E("s", 60), E("g", 200), E("p", 60)], -30, 60, True, "prim"),
        metal("v", 100, [E("s", 60), E("g", 140)], -30, 0, False, "split"),
        metal("h", 120, [E("n", 100), R([E("g", 50), E("s", 45)], 4)], -50, 0, True)], [(60, 40), (40, 60)]))
    # 7. offsets larger than a period, pitch two prim pitches, no flip
    fam.append(finish("offset-multi-pitch", (100, 150), [
        metal("h", 20, [E("s", 50), E("g", 100), E("s", 70), E("g", 80)], 10),
        metal("v", 20, [E("g", 20), E("s", 60), E("g", 120)], -15),
        metal("h", 26, [E("s", 90), E("g", 60)], 0),
        metal("v", 26, [E("s", 30), E("g", 20), E("s", 30), E("g", 20)], 0)], [(20, 20), (26, 20), (26, 26)]))
    return fam

# ------------------------------------------------------------------ geometry used by the GENERATOR only
def flat(m):
    out = []
    for e in m["entries"]:
        if e[0] == "r":
            out += [tuple(x) for x in e[1]] * e[2]
        else:
            out.append(tuple(e))
    return out
def plen(m): return sum(w for _, w in flat(m)) - m["overlap"]
def nsig(m): return sum(1 for k, _ in flat(m) if k == "s")
def symmetric(m):
    f = [("r" if k in "pn" else k, w) for k, w in flat(m)]
    return f == f[::-1]
def track_pos(m, k):
    f = flat(m); n = nsig(m); q, r = divmod(k, n)
    tot = sum(w for _, w in f)
    mir = m["flip"] and q % 2 == 1
    j = n - 1 - r if mir else r
    s = 0; cnt = 0
    for kind, w in f:
        if kind == "s":
            if cnt == j:
                rel = tot - s - w if mir else s
                return (m["offset"] + plen(m) * q + rel, w)
            cnt += 1
        s += w
    raise IndexError
def centre(m, k):
    p, w = track_pos(m, k)
    return p + w // 2

def lcm(a, b): return a * b // math.gcd(a, b)
def size_units(st, nmet):
    """smallest outline (in prim pitches) that is a whole number of periods on metals 0..nmet-1"""
    ux = uy = 1
    for m in st["metals"][:nmet]:
        p = plen(m)
        if m["dir"] == "h":
            uy = lcm(uy, p // math.gcd(p, st["prim"][1]))
        else:
            ux = lcm(ux, p // math.gcd(p, st["prim"][0]))
    return ux, uy

def inst_box(st, cells, i):
    c = cells[i["cell"]]
    w, h = c["outline"]
    xs = (i["loc"][0] - w, i["loc"][0]) if i["rh"] else (i["loc"][0], i["loc"][0] + w)
    ys = (i["loc"][1] - h, i["loc"][1]) if i["rv"] else (i["loc"][1], i["loc"][1] + h)
    return xs, ys

def gen_cell(rng, st, cells, nmet, ox, oy, ninst, ncut, nasg, sloppy):
    """one cell with instances of earlier cells, cuts, assignments; mostly conflict free"""
    px, py = st["prim"]
    c = {"metals": nmet, "outline": [ox, oy], "insts": [], "cuts": [], "assigns": []}
    cand = [k for k, cc in enumerate(cells) if cc["metals"] < max(nmet, 1) + (1 if sloppy else 0)
            and cc["outline"][0] <= ox and cc["outline"][1] <= oy]
    boxes = []
    for _ in range(ninst):
        if not cand:
            break
        for _try in range(6):
            k = rng.choice(cand)
            w, h = cells[k]["outline"]
            rh, rv = rng.random() < 0.5, rng.random() < 0.5
            x = rng.randint(w, ox) if rh else rng.randint(0, ox - w)
            y = rng.randint(h, oy) if rv else rng.randint(0, oy - h)
            i = {"cell": k, "loc": [x, y], "rh": rh, "rv": rv}
            xs, ys = inst_box(st, cells, i)
            if sloppy or all(xs[1] <= b[0][0] or b[0][1] <= xs[0] or ys[1] <= b[1][0] or b[1][1] <= ys[0] for b in boxes):
                c["insts"].append(i); boxes.append((xs, ys)); break
    # occupied intervals per track: (layer, k) -> list of (a, b)
    occ = {}
    def span_of(l): return ox * px if st["metals"][l]["dir"] == "h" else oy * py
    def breadth_of(l): return oy * py if st["metals"][l]["dir"] == "h" else ox * px
    def ntr(l):
        m = st["metals"][l]
        return (breadth_of(l) // plen(m)) * nsig(m)
    def track_occ(l, k):
        if (l, k) not in occ:
            m = st["metals"][l]; q = k // nsig(m); P = plen(m); o = []
            for i, (xs, ys) in zip(c["insts"], boxes):
                if cells[i["cell"]]["metals"] > l:
                    al, ac = (xs, ys) if m["dir"] == "h" else (ys, xs)
                    u = px if m["dir"] == "h" else py
                    v = py if m["dir"] == "h" else px
                    if ac[1] * v > P * q and ac[0] * v < P * (q + 1):
                        o.append((al[0] * u, al[1] * u))
            occ[(l, k)] = o
        return occ[(l, k)]
    nm = len(st["metals"])
    for _ in range(ncut):
        if nmet == 0:
            break
        l = rng.randrange(nmet)
        cl = rng.choice([x for x in (l - 1, l + 1) if 0 <= x < nm] or [l])
        if cl == l or ntr(l) == 0 or ntr(cl) == 0:
            continue
        k, ck = rng.randrange(ntr(l)), rng.randrange(ntr(cl))
        m = st["metals"][l]
        d = centre(st["metals"][cl], ck)
        a, b = d - m["cutsize"] // 2 - 1, d + m["cutsize"] // 2 + 2
        o = track_occ(l, k)
        ok = a >= 1 and b <= span_of(l) - 1 and all(b < x0 or x1 < a for x0, x1 in o)
        if ok or sloppy:
            c["cuts"].append([l, k, cl, ck])
            if ok:
                o.append((a + 1, b - 1))
    piece_net = {}
    nets = 0
    def piece(l, k, d):
        o = sorted(track_occ(l, k))
        if any(x0 - 1 <= d <= x1 + 1 for x0, x1 in o):
            return None
        return (l, k, sum(1 for x0, x1 in o if x1 < d))
    for _ in range(nasg):
        if nmet < 2:
            break
        lb = rng.randrange(nmet - 1); lt = lb + 1
        if ntr(lb) == 0 or ntr(lt) == 0:
            continue
        kb, kt = rng.randrange(ntr(lb)), rng.randrange(ntr(lt))
        pb = piece(lb, kb, centre(st["metals"][lt], kt))
        pt = piece(lt, kt, centre(st["metals"][lb], kb))
        if (pb is None or pt is None) and not sloppy:
            continue
        nb, nt = piece_net.get(pb), piece_net.get(pt)
        if nb and nt and nb != nt and not sloppy:
            continue
        net = nb or nt
        if not net:
            nets += 1; net = nets
        if pb: piece_net[pb] = net
        if pt: piece_net[pt] = net
        c["assigns"].append([net, lt, kt, lb, kb] if rng.random() < 0.5 else [net, lb, kb, lt, kt])
    return c

def gen_lib(rng, st, big=False):
    nm = len(st["metals"])
    nmet = rng.choice([1, 2, 2, 3, 3, 4, 4][:max(1, 2 * min(nm, 4) - 1)]) if nm else 0
    nmet = min(nmet, nm, 4)
    sloppy = rng.random() < 0.08
    cells = []
    nchild = rng.choice([0, 0, 1, 1, 2])
    for _ in range(nchild):
        cm = rng.randrange(0, max(1, nmet))
        ux, uy = size_units(st, cm)
        if ux > 6 or uy > 6:
            cm = 0; ux = uy = 1
        w, h = ux * rng.randint(1, max(1, 3 // ux)), uy * rng.randint(1, max(1, 3 // uy))
        cells.append(gen_cell(rng, st, cells, cm, w, h, 0, rng.choice([0, 0, 1]), rng.choice([0, 0, 1]), False))
    ux, uy = size_units(st, nmet)
    lim = 12 if big else 6
    ox = ux * rng.randint(1, max(1, lim // ux)); oy = uy * rng.randint(1, max(1, lim // uy))
    if rng.random() < 0.03:
        ox += 1   # now and then not a whole number of periods (Err expected unless the unit is 1)
    cells.append(gen_cell(rng, st, cells, nmet, ox, oy, rng.choice([0, 0, 1, 1, 2, 3]),
                          rng.choice([0, 1, 2, 3, 5, 8]), rng.choice([0, 1, 2, 3, 4, 6]), sloppy))
    return cells

# ------------------------------------------------------------------ directed / hostile cases
def directed_cases(fam):
    S = {s["name"]: s for s in fam}
    out = []
    def add(kind, st, cells):
        out.append({"op": "compile", "stack": st, "cells": cells, "kind": kind})
    a = S["asym-flip"]
    # the three defects named in DESIGN.md section 6 (27, 28, 29)
    add("d_flip_via", a, [{"metals": 2, "outline": [2, 2], "insts": [], "cuts": [], "assigns": [[1, 0, 1, 1, 0]]}])
    add("d_flip_cut", a, [{"metals": 2, "outline": [2, 2], "insts": [], "cuts": [[1, 0, 0, 1]], "assigns": []}])
    n = S["asym-noflip"]
    add("d_reflect_h", n, [{"metals": 1, "outline": [1, 1], "insts": [], "cuts": [], "assigns": []},
                           {"metals": 2, "outline": [3, 1], "insts": [{"cell": 0, "loc": [2, 0], "rh": True, "rv": False}], "cuts": [], "assigns": []}])
    add("d_reflect_v", n, [{"metals": 2, "outline": [1, 1], "insts": [], "cuts": [], "assigns": []},
                           {"metals": 2, "outline": [1, 3], "insts": [{"cell": 0, "loc": [0, 2], "rh": False, "rv": True}], "cuts": [], "assigns": []}])
    add("d_underflow", n, [{"metals": 4, "outline": [2, 2], "insts": [], "cuts": [], "assigns": [[1, 3, 0, 0, 0]]}])
    # further robustness: layers above the cell's metals, empty net, same direction, outside the stack
    add("d_cut_above_metals", n, [{"metals": 1, "outline": [2, 2], "insts": [], "cuts": [[1, 0, 0, 0]], "assigns": []}])
    add("d_assign_above_metals", n, [{"metals": 1, "outline": [2, 2], "insts": [], "cuts": [], "assigns": [[1, 0, 0, 1, 0]]}])
    add("d_empty_net", n, [{"metals": 2, "outline": [2, 2], "insts": [], "cuts": [], "assigns": [[0, 0, 0, 1, 0]]}])
    add("d_same_dir", n, [{"metals": 3, "outline": [2, 2], "insts": [], "cuts": [[0, 0, 2, 0]], "assigns": []}])
    add("d_outside_stack", n, [{"metals": 2, "outline": [2, 2], "insts": [], "cuts": [[0, 0, 7, 0]], "assigns": []}])
    add("d_metals_above_stack", n, [{"metals": 5, "outline": [2, 2], "insts": [], "cuts": [], "assigns": []}])
    add("d_nonadjacent", n, [{"metals": 4, "outline": [2, 2], "insts": [], "cuts": [], "assigns": [[1, 0, 0, 3, 0]]}])
    add("d_cut_conflict", n, [{"metals": 2, "outline": [2, 2], "insts": [], "cuts": [[0, 0, 1, 1], [0, 0, 1, 1]], "assigns": []}])
    add("d_assign_on_cut", n, [{"metals": 2, "outline": [2, 2], "insts": [], "cuts": [[0, 0, 1, 1]], "assigns": [[1, 0, 0, 1, 1]]}])
    add("d_odd_via", S["odd-sizes"], [{"metals": 2, "outline": [2, 2], "insts": [], "cuts": [[0, 1, 1, 1]], "assigns": [[1, 0, 0, 1, 0]]}])
    # the suite's own cells on the sample stack (tests/mod.rs create_lib1, create_lib2)
    add("d_create_lib1", S["pdka"], [{"metals": 3, "outline": [50, 5], "insts": [],
        "cuts": [[0, 1, 1, 1], [0, 1, 1, 3], [0, 1, 1, 5], [1, 1, 0, 1], [1, 1, 0, 3], [1, 1, 0, 5]], "assigns": [[1, 1, 4, 0, 2]]}])
    add("d_create_lib2", S["pdka"], [{"metals": 2, "outline": [100, 10], "insts": [], "cuts": [], "assigns": []},
        {"metals": 4, "outline": [200, 20], "insts": [{"cell": 0, "loc": [20, 2], "rh": False, "rv": False}], "cuts": [], "assigns": [[1, 1, 1, 2, 1]]}])
    # a layer without signal tracks used as the crossing layer
    nos = finish("no-signal-layer", (100, 100), [metal("h", 20, [E("s", 40), E("g", 60)]), metal("v", 20, [E("p", 40), E("g", 60)])], [(20, 20)])
    add("d_no_signal_cross", nos, [{"metals": 1, "outline": [2, 2], "insts": [], "cuts": [[0, 0, 1, 0]], "assigns": []}])
    # ODD-WIDTH CROSSING NEXT TO A BLOCKED SPAN (DESIGN.md section 4 / 9, 2026-10-01): the crossing track has odd width, `center`
    # rounds its centre (x.5) down to x, and an instance's blocked span ends or starts exactly at x.  Such an assignment is
    # outside the well-formed space (clause crossing_clearb of assign_wfb); the cases are generated on purpose so that the
    # evidence shows they are reached and classified "outside wf, not judged".  On the real code the net is lost (span ends
    # at x) or lands on the piece that ends at x although the crossing lies inside the blocked span (span starts at x).
    och = finish("odd-centre-h", (5, 10), [metal("h", 2, [E("s", 10)]), metal("v", 2, [E("g", 3), E("s", 5), E("g", 2)])], [(2, 2)])
    ocv = finish("odd-centre-v", (10, 5), [metal("v", 2, [E("s", 10)]), metal("h", 2, [E("g", 3), E("s", 5), E("g", 2)])], [(2, 2)])
    kid = {"metals": 1, "outline": [1, 1], "insts": [], "cuts": [], "assigns": []}
    def occ(st, horiz, n_out, loc, refl, crosstrack):
        outline = [n_out, 1] if horiz else [1, n_out]
        i = {"cell": 0, "loc": [loc, 0] if horiz else [0, loc], "rh": refl and horiz, "rv": refl and not horiz}
        return [copy.deepcopy(kid), {"metals": 2, "outline": outline, "insts": [i], "cuts": [], "assigns": [[1, 1, crosstrack, 0, 0]]}]
    for st, horiz in ((och, True), (ocv, False)):
        # rounded centre of cross track 0 is 5, of cross track 1 is 15; one instance box is 5 long
        add("odd_crossing_at_block_end", st, occ(st, horiz, 2, 0, False, 0))   # box 0..5 ends at 5
        add("odd_crossing_at_block_end", st, occ(st, horiz, 4, 1, False, 0))   # box 5..10 starts at 5
        add("odd_crossing_at_block_end", st, occ(st, horiz, 4, 1, True, 0))    # reflected: box 0..5
        add("odd_crossing_at_block_end", st, occ(st, horiz, 4, 2, True, 0))    # reflected: box 5..10
        add("odd_crossing_at_block_end", st, occ(st, horiz, 4, 2, False, 1))   # box 10..15 ends at 15
        add("odd_crossing_at_block_end", st, occ(st, horiz, 4, 3, False, 1))   # box 15..20 starts at 15
        add("odd_crossing_clear_control", st, occ(st, horiz, 4, 2, False, 0))  # box 10..15, crossing at 5: well-formed
        add("odd_crossing_clear_control", st, occ(st, horiz, 4, 0, False, 1))  # box 0..5, crossing at 15: well-formed
    return out

# ------------------------------------------------------------------ audit families (2026-10-02, generator audit)
def audit_cases(fam):
    """Small DIRECTED families, one case per combination, for input classes the random generator never or hardly ever reaches
    (each was checked to be absent from / rare in the quick tier): crossing layer not adjacent to the cut layer; cuts flush with the
    outline edge, with each other and with a blocked span, in both listing orders; cuts that straddle or lie inside a blocked span;
    assignments on blocked spans and on the very end of a cut; track references beyond the outline; instances sticking out of the
    outline; instances of cells with as many metals as the parent or more; stacks that validation must reject (each rule) and stacks
    just inside the rules (Repeat 0 / 1 / empty / first and last, negative overlap, primitive modes against the other axis); the via
    table (order, duplicates, missing entries); all five metals of the sample stack; cells without metals; one track cut at every
    crossing; 30 periods on every layer; stacks with two adjacent layers of one direction."""
    S = {s["name"]: s for s in fam}
    out = []
    def add(kind, st, cells):
        out.append({"op": "compile", "stack": st, "cells": cells, "kind": kind})
    def addt(kind, st, n=5):
        out.append({"op": "tracks", "n": n, "stack": st, "kind": kind})
    def cell(metals, ox, oy, insts=(), cuts=(), assigns=()):
        return {"metals": metals, "outline": [ox, oy], "insts": [dict(i) for i in insts], "cuts": [list(x) for x in cuts],
                "assigns": [list(a) for a in assigns]}
    def inst(k, x, y, rh=False, rv=False):
        return {"cell": k, "loc": [x, y], "rh": rh, "rv": rv}
    n, a = S["asym-noflip"], S["asym-flip"]
    # A. cut whose crossing layer is not adjacent to the cut layer (legal: only opposite directions are demanded)
    for st in (n, a):
        add("cut_cross_nonadjacent", st, [cell(4, 2, 2, cuts=[[0, 1, 3, 1]])])
        add("cut_cross_nonadjacent", st, [cell(4, 2, 2, cuts=[[3, 2, 0, 1], [3, 1, 0, 0]])])
        add("cut_cross_nonadjacent", st, [cell(1, 2, 2, cuts=[[0, 0, 3, 2]])])
    # B. cuts flush with the outline edge, with each other, with a blocked span (both listing orders)
    def flush(flip, horiz, cutsize=20):
        d0, d1 = ("h", "v") if horiz else ("v", "h")
        return finish("flush-%s-%s-%d" % ("flip" if flip else "noflip", d0, cutsize), (100, 100),
                      [metal(d0, cutsize, [E("s", 30), E("g", 20), E("s", 30), E("g", 20)]),
                       metal(d1, cutsize, [E("s", 20), E("s", 20), E("g", 60)], flip=flip)], [(20, 20)])
    def T(horiz, w, h):
        return (w, h) if horiz else (h, w)
    kid = cell(1, 1, 1)
    for horiz in (True, False):
        fn, ff = flush(False, horiz), flush(True, horiz)
        o = T(horiz, 2, 1)
        # crossing tracks (no flip): centres 10, 30, 110, 130; (flip) 10, 30, 170, 190 on a track of length 200
        add("cut_flush", fn, [cell(1, *o, cuts=[[0, 0, 1, 0]])])                       # [0,20): starts at the outline edge
        add("cut_flush", ff, [cell(1, *o, cuts=[[0, 0, 1, 3]])])                       # [180,200): ends at the outline edge
        add("cut_flush", fn, [cell(1, *o, cuts=[[0, 0, 1, 0], [0, 0, 1, 1]])])         # [0,20) then [20,40): abutting, near first
        add("cut_flush", fn, [cell(1, *o, cuts=[[0, 0, 1, 1], [0, 0, 1, 0]])])         # far first: second cut ends where the first starts
        add("cut_flush", ff, [cell(1, *o, cuts=[[0, 1, 1, 3], [0, 1, 1, 2], [0, 1, 1, 0]])])
        add("cut_flush", ff, [cell(2, *o, cuts=[[0, 1, 1, 2], [0, 1, 1, 3]], assigns=[[1, 0, 1, 1, 1]])])
        # instance box 0..100 / 100..200 along the track, cut right behind / right before it
        i0 = inst(0, 0, 0); i1 = inst(0, *T(horiz, 1, 0)); i1r = inst(0, *T(horiz, 2, 0), rh=horiz, rv=not horiz)
        add("cut_flush_block", fn, [kid, cell(1, *o, insts=[i0], cuts=[[0, 0, 1, 2]])])          # block 0..100, cut [100,120)
        f40 = flush(False, horiz, 40)
        add("cut_straddles_block", f40, [kid, cell(1, *o, insts=[i0], cuts=[[0, 0, 1, 2]])])     # cut [90,130) starts inside the block
        add("cut_straddles_block", f40, [kid, cell(1, *o, insts=[i1], cuts=[[0, 0, 1, 1]])])     # cut [10,50) clear (control)
        f160 = flush(False, horiz, 160)
        add("cut_straddles_block", f160, [kid, cell(1, *o, insts=[i1], cuts=[[0, 0, 1, 1]])])    # cut [-50,110): Err
        f150 = finish("flush150", (100, 100), [metal("h" if horiz else "v", 150, [E("s", 30), E("g", 70)]),
                                               metal("v" if horiz else "h", 20, [E("g", 60), E("s", 20), E("g", 20)])], [(20, 20)])
        add("cut_straddles_block", f150, [kid, cell(1, *o, insts=[i1r], cuts=[[0, 0, 1, 0]])])   # cut [-5,145): runs into block 100..200
        add("cut_in_blocked_span", fn, [kid, cell(1, *o, insts=[i1], cuts=[[0, 0, 1, 2]])])       # cut [100,120) inside block 100..200
        add("cut_in_blocked_span", fn, [kid, cell(1, *o, insts=[i1r], cuts=[[0, 1, 1, 3]])])
        # D. assignment whose crossing is the very end of a cut (outside the well-formed space; model = impl still compared)
        add("assign_at_cut_edge", f40, [cell(2, *o, cuts=[[0, 0, 1, 1]], assigns=[[1, 0, 0, 1, 0]])])    # cut [10,50), crossing 10
        add("assign_at_cut_edge", f40, [cell(2, *o, cuts=[[0, 0, 1, 0]], assigns=[[1, 1, 1, 0, 0]])])    # cut [-10,30): Err
        add("assign_at_cut_edge", fn, [cell(2, *o, cuts=[[0, 0, 1, 0]], assigns=[[1, 0, 0, 1, 1]])])     # cut [0,20), crossing 30: clear (control)
        # C. assignment whose crossing lies inside an instance's blocked span
        kid2 = cell(2, 1, 1)
        add("assign_on_blocked", fn, [kid, cell(2, *o, insts=[i0], assigns=[[1, 0, 0, 1, 1]])])          # lower track blocked, upper free
        add("assign_on_blocked", fn, [kid2, cell(2, *o, insts=[i0], assigns=[[1, 1, 1, 0, 1]])])         # both blocked
        add("assign_on_blocked", fn, [kid2, cell(2, *o, insts=[i1r], assigns=[[1, 1, 2, 0, 0], [2, 0, 1, 1, 0]])])
        # E. references to tracks beyond the outline (legal layer, track index out of range)
        add("ref_beyond_outline", fn, [cell(2, *o, cuts=[[0, 2, 1, 0]])])              # cut track 2 of 2
        add("ref_beyond_outline", fn, [cell(2, *o, cuts=[[0, 0, 1, 4]])])              # crossing track 4 of 4: cut at 210 on a track of 200
        add("ref_beyond_outline", fn, [cell(2, *o, cuts=[[0, 0, 1, 400000]])])
        add("ref_beyond_outline", fn, [cell(2, *o, assigns=[[1, 0, 2, 1, 0]])])        # lower track beyond
        add("ref_beyond_outline", fn, [cell(2, *o, assigns=[[1, 0, 0, 1, 4]])])        # upper track beyond
        add("ref_beyond_outline", fn, [cell(2, *o, assigns=[[1, 1, 5, 0, 3]])])        # both beyond
        # F. instances sticking out of the outline
        add("inst_outside_outline", fn, [kid, cell(1, *o, insts=[inst(0, *T(horiz, 2, 0))])])             # box 200..300
        add("inst_outside_outline", fn, [kid, cell(1, *o, insts=[inst(0, 0, 0, rh=horiz, rv=not horiz)])])  # box -100..0
        add("inst_outside_outline", fn, [cell(1, 2, 2), cell(1, *o, insts=[inst(0, *T(horiz, 1, 0))])])   # box 100..300 and too high
        add("inst_outside_outline", fn, [cell(1, 2, 1) if horiz else cell(1, 1, 2), cell(1, *o, insts=[inst(0, *T(horiz, 1, 0), rh=horiz, rv=not horiz)])])  # -100..100
        add("inst_outside_outline", fn, [kid, cell(1, *o, insts=[inst(0, *T(horiz, 0, 1))])])             # beside the outline across the tracks
        add("inst_outside_outline", fn, [kid, cell(1, *o, insts=[inst(0, *T(horiz, 0, -1))])])
        # K. instance of a cell with as many / more metals than its parent
        add("inst_metals_ge_parent", fn, [kid2, cell(2, *o, insts=[i1])])
        add("inst_metals_ge_parent", fn, [kid2, cell(1, *o, insts=[i1], cuts=[[0, 0, 1, 0]])])
        add("inst_metals_ge_parent", fn, [cell(0, 1, 1), cell(0, *o, insts=[i1])])
        add("inst_metals_ge_parent", fn, [cell(0, 1, 1), cell(2, *o, insts=[i1, i0], assigns=[[3, 1, 0, 0, 1]])])
    # G. stacks that validation must reject (or just accept): both through `tracks` and through `compile`
    def two(h_entries, v_entries=None, prim=(100, 100), hkw=None, vkw=None):
        return finish("inv", prim, [metal("h", 20, h_entries, **(hkw or {})),
                                    metal("v", 20, v_entries or [E("s", 40), E("g", 60)], **(vkw or {}))], [(20, 20)])
    base = [E("s", 40), E("g", 60)]
    bad = [
        ("zero_width_entry", two([E("s", 40), E("g", 0), E("g", 60)])),
        ("zero_width_signal", two([E("s", 0), E("g", 100)])),
        ("negative_width_entry", two([E("s", 140), E("g", -40)])),
        ("negative_in_repeat", two([R([E("s", 60), E("g", -10)], 2)])),
        ("overlap_eq_total", two(base, hkw={"overlap": 100})),
        ("overlap_gt_total", two(base, hkw={"overlap": 130})),
        ("no_entries", two([])),
        ("repeat_zero_only", two([R(base, 0)])),
        ("prim_pitch_zero_x", two(base, prim=(0, 100))),
        ("prim_pitch_zero_y", two(base, prim=(100, 0))),
        ("prim_pitch_negative", two(base, prim=(-100, 100))),
        ("split_not_multiple", two([E("s", 40), E("g", 30)], hkw={"prim": "split"})),
        ("prim_not_multiple", two(base, [E("s", 40), E("g", 30)], vkw={"prim": "prim"})),
        ("second_layer_bad", two(base, [E("s", 40), E("g", 0)])),
    ]
    good = [
        ("stack_mode_not_multiple", two([E("s", 40), E("g", 30)])),                  # PrimitiveMode::Stack: no grid demand
        ("split_multiple_2", two([E("s", 40), E("g", 160)], hkw={"prim": "split"})),
        ("split_uses_other_axis", two(base, prim=(70, 100), hkw={"prim": "split"})),  # h layer is checked against the y pitch only
        ("prim_uses_other_axis", two(base, base, prim=(100, 70), vkw={"prim": "prim"})),
        ("negative_overlap", two(base, hkw={"overlap": -20})),
        ("repeat_zero_among", two([E("s", 40), R([E("s", 500)], 0), E("g", 60)])),
        ("repeat_one", two([R(base, 1)])),
        ("repeat_first_and_last", two([R([E("g", 10), E("s", 15)], 2), E("n", 20), R([E("s", 10), E("g", 5)], 2)], hkw={"flip": True})),
        ("repeat_single_entry", two([R([E("s", 25)], 4)], hkw={"flip": True, "offset": 7})),
        ("repeat_empty_body", two([E("s", 40), R([], 3), E("g", 60)])),
    ]
    for nm, st in bad:
        addt("stack_invalid:" + nm, st)
        add("stack_invalid:" + nm, st, [cell(2, 2, 2, cuts=[[0, 0, 1, 0]])])
    for nm, st in good:
        addt("stack_edge:" + nm, st, 9)
        p = plen(st["metals"][0])
        oy = 2 * p // math.gcd(2 * p, st["prim"][1])
        add("stack_edge:" + nm, st, [cell(2, 2, oy, cuts=[[0, 1, 1, 0]], assigns=[[1, 0, 0, 1, 1]])])
    # M. via table: order, extra entries, missing entry
    asg = [cell(3, 2, 2, assigns=[[1, 0, 0, 1, 1], [2, 2, 1, 1, 0]])]
    st = copy.deepcopy(a); st["vias"].reverse(); st["name"] = "vias-reversed"; add("via_table", st, asg)
    st = copy.deepcopy(a); st["vias"].insert(0, {"bot": None, "top": 0, "size": [10, 10], "raw": 9044}); st["name"] = "vias-prim-first"; add("via_table", st, asg)
    st = copy.deepcopy(a); st["vias"].insert(0, {"bot": 1, "top": 3, "size": [8, 12], "raw": 9044}); st["name"] = "vias-duplicate-bot"; add("via_table", st, asg)
    st = copy.deepcopy(a); del st["vias"][1]; st["name"] = "vias-missing-1"; add("via_table", st, asg)
    st = copy.deepcopy(a); st["vias"] = []; st["name"] = "vias-none"; add("via_table", st, asg)
    st = copy.deepcopy(a); st["vias"] = []; st["name"] = "vias-none"; add("via_table", st, [cell(3, 2, 2, cuts=[[0, 0, 1, 0]])])
    st = copy.deepcopy(a); st["vias"][0]["bot"], st["vias"][0]["top"] = 1, 0; st["name"] = "vias-upside-down"; add("via_table", st, asg)
    # I. every metal of the five-metal sample stack; a cell without metals
    add("five_metals", S["pdka"], [cell(2, 100, 10), cell(5, 200, 20, insts=[inst(0, 20, 2)], cuts=[[4, 3, 3, 2], [3, 1, 4, 5]],
                                                          assigns=[[1, 4, 1, 3, 1], [2, 3, 4, 4, 9], [3, 2, 0, 3, 0]])])
    add("zero_metals", n, [cell(0, 1, 1), cell(0, 3, 2, insts=[inst(0, 1, 1, True, True)])])
    add("zero_metals", n, [cell(0, 2, 2, cuts=[[0, 0, 1, 0]])])
    add("zero_metals", n, [cell(0, 2, 2, assigns=[[1, 0, 0, 1, 0]])])
    # Q. one track cut at every crossing, in a scrambled listing order; many periods on every layer
    order = [(7 * i) % 40 for i in range(40)]
    add("many_cuts_one_track", a, [cell(2, 10, 10, cuts=[[0, 3, 1, k] for k in order if k < 10])])
    add("many_cuts_one_track", a, [cell(2, 40, 4, cuts=[[0, 3, 1, k] for k in order])])
    add("many_periods", a, [cell(4, 30, 30, cuts=[[0, 27, 1, 28], [1, 29, 2, 1], [2, 28, 3, 58], [3, 58, 2, 29]],
                                 assigns=[[1, 0, 29, 1, 0], [2, 1, 28, 2, 29], [3, 3, 59, 2, 28]])])
    # two adjacent layers of one direction (no assignment between them, cuts only by a layer of the other direction; lcm pitches)
    hhv = finish("h-h-v", (100, 100), [metal("h", 20, [E("s", 40), E("g", 30)]), metal("h", 20, [E("g", 30), E("s", 40), E("g", 80)]),
                                        metal("v", 20, [E("s", 30), E("g", 20)]), metal("v", 20, [E("g", 100), E("s", 50), E("g", 50)])],
                 [(20, 20), (20, 24), (24, 20)])           # pitches 70, 150 (lcm with the primitive pitch: 700, 2100), 50, 200
    addt("same_dir_adjacent", hhv, 7)
    add("same_dir_adjacent", hhv, [cell(4, 4, 21, assigns=[[1, 0, 0, 1, 0]])])                     # h on h: Err
    add("same_dir_adjacent", hhv, [cell(4, 4, 21, assigns=[[1, 3, 0, 2, 1]])])                     # v on v: Err
    add("same_dir_adjacent", hhv, [cell(4, 4, 21, assigns=[[1, 1, 1, 2, 3], [2, 2, 0, 1, 0]], cuts=[[0, 2, 2, 5], [1, 0, 3, 1], [3, 0, 0, 1], [2, 7, 1, 1]])])
    add("same_dir_adjacent", hhv, [cell(2, 4, 21, cuts=[[1, 1, 2, 0], [0, 0, 3, 0]])])
    add("same_dir_adjacent", hhv, [cell(2, 4, 21, cuts=[[1, 1, 0, 0]])])                           # h cut by h: Err
    return out

# ------------------------------------------------------------------ stacks with a layer that has no raw layer (2026-10-02)
def no_raw_layer_cases(fam):
    """Family `stack_no_raw_layer`: a metal layer (each index) or a via layer (each index, also the primitive via of the sample
    stack, also all of them) of the stack has `raw: None`.  Such stacks are outside wf_stackb (the tiling / net clauses are silent)
    but INSIDE the no-panic clause ("either reports an error or produces shapes").  Every `.raw.unwrap()` site of the layout
    exporter is reached: export_track through an empty cell, a cell with cuts, a cell whose layer is covered by an instance (empty
    wire pieces are still drawn), rails; the via of an assignment.  With each: the same stack and a cell that never draws on the
    raw-less layer (Ok as found, Err once export_stack checks the stack), inputs that fail before the unwrap is reached (Err either
    way), the `tracks` op (never looks at raw layers) and the complete stack as control.  The unwrap sites of export_abstract are
    outside this model (cells have a layout view only); they sit behind the same export_stack check."""
    S = {s["name"]: s for s in fam}
    out = []
    def add(sub, st, cells):
        out.append({"op": "compile", "stack": st, "cells": cells, "kind": "stack_no_raw_layer:" + sub})
    def cell(metals, ox, oy, insts=(), cuts=(), assigns=()):
        return {"metals": metals, "outline": [ox, oy], "insts": [dict(i) for i in insts], "cuts": [list(x) for x in cuts],
                "assigns": [list(a) for a in assigns]}
    def without(st, name, metals=(), vias=()):
        t = copy.deepcopy(st); t["name"] = name
        for k in metals: t["metals"][k]["raw"] = None
        for k in vias: t["vias"][k]["raw"] = None
        return t
    # the smallest stack there is: one metal, no via; one empty 1x1 cell
    tiny = finish("noraw-one-metal", (100, 100), [metal("h", 20, [E("s", 40), E("g", 60)])], [])
    add("metal", without(tiny, "noraw-one-metal", metals=[0]), [cell(1, 1, 1)])
    add("control", tiny, [cell(1, 1, 1)])
    n = S["asym-noflip"]
    for k in range(4):
        st = without(n, "noraw-metal%d" % k, metals=[k])
        add("metal", st, [cell(k + 1, 1, 1)])                                              # export_track on layer k, empty cell
        add("metal", st, [cell(4, 2, 2)])
        other = k + 1 if k < 3 else k - 1
        add("metal", st, [cell(4, 2, 2, cuts=[[k, 0, other, 1]])])                          # a cut on the raw-less layer
        add("metal", st, [cell(4, 2, 2, cuts=[[other, 0, k, 1]])])                          # the raw-less layer only as crossing layer
        lo = min(k, other)
        add("metal", st, [cell(4, 2, 2, assigns=[[1, lo, 0, lo + 1, 1]])])                  # an assignment touching it
        add("metal", st, [cell(k + 1, 1, 1), cell(k + 1, 2, 2, insts=[{"cell": 0, "loc": [0, 0], "rh": False, "rv": False}])])  # first cell reaches it
        add("metal", st, [cell(k + 1, 2, 2), cell(k + 1, 2, 2, insts=[{"cell": 0, "loc": [0, 0], "rh": False, "rv": False}])])  # layer k wholly blocked in the parent
        add("undrawn", st, [cell(k, 1, 1)])                                                # the cell stops below layer k
        add("undrawn", st, [cell(0, 1, 1), cell(k, 2, 2, insts=[{"cell": 0, "loc": [1, 1], "rh": True, "rv": True}])])
        if k >= 2:
            add("undrawn", st, [cell(k, 2, 2, cuts=[[0, 0, 1, 1]], assigns=[[1, 0, 1, 1, 0]])])
        add("early_err", st, [cell(k + 1, 2, 2, cuts=[[0, 0, 7, 0]])])                      # validation fails first
        add("metal", st, [cell(5, 2, 2)])                                                  # more metals than the stack: layer k is drawn before layer 4 is missed
        out.append({"op": "tracks", "n": 3, "stack": st, "kind": "stack_no_raw_layer:tracks"})
    for j in range(3):
        st = without(n, "noraw-via%d" % j, vias=[j])
        add("via", st, [cell(4, 2, 2, assigns=[[1, j, 0, j + 1, 1]])])                      # the via of the assignment
        add("via", st, [cell(4, 2, 2, assigns=[[1, j + 1, 1, j, 0]])])                      # given from the upper track
        add("via", st, [cell(j + 2, 2, 2, cuts=[[j, 1, j + 1, 0]], assigns=[[1, j, 0, j + 1, 1], [2, j, 1, j + 1, 1]])])
        add("undrawn", st, [cell(4, 2, 2)])                                                # no assignment at all
        jj = (j + 1) % 3
        add("undrawn", st, [cell(4, 2, 2, assigns=[[1, jj, 0, jj + 1, 1]])])                # only another via is drawn
        add("early_err", st, [cell(4, 2, 2, assigns=[[0, j, 0, j + 1, 1]])])                # empty net: validation fails first
    st = without(n, "noraw-all", metals=range(4), vias=range(3))
    add("metal", st, [cell(1, 1, 1)])
    add("metal", st, [cell(4, 2, 2, assigns=[[1, 0, 0, 1, 1]])])
    add("undrawn", st, [cell(0, 1, 1)])
    rev = without(n, "noraw-via1-reversed", vias=[1]); rev["vias"].reverse()
    add("via", rev, [cell(3, 2, 2, assigns=[[1, 1, 0, 2, 1]])])
    # the sample stack: rails (export_track of a rail), the primitive via (never drawn by the exporter), the top metal
    p = S["pdka"]
    add("metal", without(p, "pdka-noraw-metal0", metals=[0]), [cell(1, 1, 1)])
    add("metal", without(p, "pdka-noraw-metal4", metals=[4]), [cell(5, 200, 20, assigns=[[1, 4, 1, 3, 1]])])
    add("undrawn", without(p, "pdka-noraw-metal4", metals=[4]), [cell(3, 50, 5, cuts=[[0, 1, 1, 1]], assigns=[[1, 1, 4, 0, 2]])])
    add("undrawn", without(p, "pdka-noraw-primvia", vias=[0]), [cell(3, 50, 5, cuts=[[0, 1, 1, 1]], assigns=[[1, 1, 4, 0, 2]])])
    add("via", without(p, "pdka-noraw-via1", vias=[1]), [cell(3, 50, 5, assigns=[[1, 1, 4, 0, 2]])])
    # raw-less AND invalid: stack validation fails first
    bad = without(n, "noraw-invalid", metals=[0]); bad["metals"][1]["entries"] = [E("s", 40), E("g", 0)]
    add("early_err", bad, [cell(1, 1, 1)])
    # controls: the complete stack, same cells
    add("control", n, [cell(1, 1, 1)])
    add("control", n, [cell(4, 2, 2, assigns=[[1, 0, 0, 1, 1]])])
    add("control", n, [cell(4, 2, 2, assigns=[[1, 2, 1, 1, 0]])])
    return out

# ------------------------------------------------------------------ known-finding classes (decidable on the case)
def case_classes(case):
    st = case["stack"]; cl = set()
    if case.get("op") == "tracks":
        if any(m["flip"] and not symmetric(m) for m in st["metals"]):
            cl.add("flip-asymmetric-pattern")
        return cl
    if any(m["flip"] and not symmetric(m) for m in st["metals"]):
        cl.add("flip-asymmetric-pattern")
    if any(v["size"][0] % 2 or v["size"][1] % 2 for v in st["vias"]) or any(m["cutsize"] % 2 for m in st["metals"]):
        cl.add("odd-via-or-cut-size")
    for c in case["cells"]:
        for i in c["insts"]:
            if i["rh"] or i["rv"]:
                cl.add("reflected-instance-blockage")
        for x in c["cuts"]:
            if x[0] >= c["metals"]:
                cl.add("layer-above-cell-metals")
        for a in c["assigns"]:
            if a[3] == 0 and a[1] != 1:
                cl.add("assign-cross-layer-zero")
            if max(a[1], a[3]) >= c["metals"]:
                cl.add("layer-above-cell-metals")
    if any(nsig(m) == 0 for m in st["metals"]):
        cl.add("layer-without-signal-tracks")
    if any(m["raw"] is None for m in st["metals"]) or any(v["raw"] is None for v in st["vias"]):
        cl.add("stack-layer-without-raw-layer")
    return cl

# ------------------------------------------------------------------ Coq terms
def centry(e):
    k = {"g": "Gap", "s": "Signal", "p": "(Rail Pwr)", "n": "(Rail Gnd)"}[e[0]]
    return capp("mkEntry", Raw(k), cz(e[1]))
def cspec(e):
    if e[0] == "r":
        return capp("SRepeat", clist([centry(x) for x in e[1]]), cnat(e[2]))
    return capp("SEntry", centry(e))
def cmetal(m):
    return capp("mkMetal", cbool(m["dir"] == "h"), cz(m["cutsize"]), clist([cspec(e) for e in m["entries"]]),
                cz(m["offset"]), cz(m["overlap"]), cbool(m["flip"]), cbool(m["prim"] in ("split", "prim")),
                copt(None if m["raw"] is None else cz(m["raw"])))
def cvia(v):
    o = lambda x: copt(None if x is None else cz(x))
    return capp("mkVia", o(v["bot"]), o(v["top"]), cz(v["size"][0]), cz(v["size"][1]), o(v["raw"]))
def cstack(s):
    return capp("mkStack", cz(s["prim"][0]), cz(s["prim"][1]), clist([cmetal(m) for m in s["metals"]]),
                clist([cvia(v) for v in s["vias"]]), cbool(True), cbool(True))
def ccross(x):
    return capp("mkCross", *[cz(v) for v in x])
def ccell(c, cells):
    insts = []
    for i in c["insts"]:
        r = cells[i["cell"]]
        insts.append(capp("mkInst", cz(r["metals"]), cz(r["outline"][0]), cz(r["outline"][1]),
                          cz(i["loc"][0]), cz(i["loc"][1]), cbool(i["rh"]), cbool(i["rv"])))
    return capp("mkCell", cz(c["metals"]), cz(c["outline"][0]), cz(c["outline"][1]), clist(insts),
                clist([ccross(x) for x in c["cuts"]]), clist([ctup(cz(a[0]), ccross(a[1:])) for a in c["assigns"]]))
def cfix(fx):
    return capp("mkFixes", *[cbool(b) for b in fx])

def result_kind(r):
    if "ok" in r or "tracks" in r: return 0
    if "err" in r or "stack_err" in r: return 1
    if "panic" in r: return 2
    return None

def coq_item(fx, case, r):
    k = result_kind(r)
    if case.get("op") == "tracks":
        rows = clist([clist([ctup(*[cz(v) for v in t]) for t in row]) for row in r.get("tracks", [])])
        return capp("c08_check_tracks", cfix(fx), cstack(case["stack"]), cz(case["n"]), cz(k), rows,
                    clist([cz(p) for p in r.get("pitches", [])]))
    cells = case["cells"]
    out = clist([clist([ctup(*[cz(v) for v in s]) for s in cell]) for cell in r.get("ok", [])])
    return capp("c08_check", cfix(fx), cstack(case["stack"]), clist([ccell(c, cells) for c in cells]), cz(k), out)

HDR = ("From Coq Require Import ZArith List Bool.\nImport ListNotations.\n"
       "From L21 Require Import Tetris.Stack Tetris.Tracks Tetris.Compile Tetris.CompileSpec Tetris.CompileCheck.\nOpen Scope Z_scope.\n")

def strip(case):
    c = {k: v for k, v in case.items() if k != "kind"}
    c["stack"] = {k: v for k, v in case["stack"].items() if k != "name"}
    return c

def evaluate(chk, fx, cases, tag, shard=120):
    res = harness("c08", [strip(c) for c in cases])
    items, idx, out = [], [], [None] * len(cases)
    for i, (c, r) in enumerate(zip(cases, res)):
        if result_kind(r) is None:
            out[i] = (2, r)       # harness error / crash
        else:
            items.append(coq_item(fx, c, r)); idx.append(i)
    codes = coq_eval_lists(HDR, items, chk.rundir, tag, shard=shard)
    for i, s in zip(idx, codes):
        out[i] = (parse_z(s), res[i])
    return out

# ------------------------------------------------------------------ which variant of the code is in /repo
def export_stack_marker():
    """The sixth flag (fx_raw, fix-stack-raw-layers) is READ FROM THE SOURCE TEXT on every run: the body of
    `RawExporter::export_stack` in layout21tetris/src/conv/raw.rs.  True = it checks the raw layer of the metals and of the vias,
    False = it mentions no raw layer at all (the code as found), None = neither form (the tie between model and source is broken)."""
    from vlib import REPO
    try:
        src = open(os.path.join(REPO, "layout21tetris/src/conv/raw.rs"), encoding="utf8").read()
    except OSError:
        return None, "conv/raw.rs not readable"
    i = src.find("fn export_stack(")
    if i < 0:
        return None, "fn export_stack not found"
    m = re.search(r"\n    (?:///|(?:pub(?:\([a-z]+\))? )?fn )", src[i:])
    body = src[i:i + m.start()] if m else src[i:]
    body = re.sub(r"//[^\n]*", "", body)                      # comments do not count
    has_metal = re.search(r"self\.stack\.metal\([^)]*\)\?\s*\.raw\s*\.is_none\(\)", body) is not None and "self.stack.pitches.len()" in body
    has_via = re.search(r"in self\.stack\.vias\.iter\(\)", body) is not None and len(re.findall(r"\.raw\s*\.is_none\(\)", body)) >= 2
    if has_metal and has_via and body.count("return self.fail(") >= 4:
        return True, "export_stack checks the raw layer of every metal and via layer"
    if re.search(r"\.raw\b", body) is None and body.count("return self.fail(") == 2:
        return False, "export_stack checks rawlayers and boundary_layer only"
    return None, "export_stack has neither the form as found nor the repaired form"

def detect_variant(fam, chk=None):
    """five sentinel cases, one per earlier repair, and the text of export_stack for the sixth (cross-checked by a sentinel case);
    returns (flags, description)"""
    S = {s["name"]: s for s in fam}
    d = {c["kind"]: c for c in directed_cases(fam)}
    tr = {"op": "tracks", "n": 2, "stack": S["asym-flip"]}
    noraw = no_raw_layer_cases(fam)[0]
    r = harness("c08", [strip(tr), strip(d["d_reflect_h"]), strip(d["d_underflow"]), strip(d["d_cut_above_metals"]), strip(d["d_odd_via"]), strip(noraw)])
    flip = r[0].get("tracks", [[[0], [0]]])[0][1][0] == 750
    refl = "ok" in r[1] and len(r[1]["ok"][1]) > 0 and [s[1:5] for s in r[1]["ok"][1] if s[0] == 10020] == [[0, 0, 400, 100], [800, 0, 1200, 100]]
    under = "panic" not in r[2]
    bounds = "panic" not in r[3]
    odd = "ok" in r[4] and any(s[0] == 10044 and s[3] - s[1] == 21 for s in r[4]["ok"][0])
    raw_text, raw_why = export_stack_marker()
    raw_seen = "err" in r[5]                                  # behaviour of the sentinel: Err = repaired, panic = as found
    if raw_text is None:
        if chk is not None:
            chk.broken.append("C08 model tie: cannot tell from the source which export_stack the tree has (%s); the sentinel case says %s"
                              % (raw_why, "repaired" if raw_seen else "as found"))
        raw_text = raw_seen
    elif raw_text != raw_seen and chk is not None:
        chk.broken.append("C08 model tie: the text of export_stack says '%s' but the sentinel case (a metal without raw layer) %s"
                          % (raw_why, "returns Err" if raw_seen else "does not return Err: " + json.dumps(r[5])[:200]))
    fx = (flip, refl, under, bounds, odd, raw_text)
    names = ("center-span-flip", "blockage-reflect", "assign-underflow", "cell-metals-bounds", "odd-sizes", "stack-raw-layers")
    desc = {n: ("repaired" if b else "as at the pinned commit") for n, b in zip(names, fx)}
    desc["stack-raw-layers"] += " (source text: %s; sentinel: %s)" % (raw_why, "Err" if raw_seen else "no Err")
    return fx, desc

# ------------------------------------------------------------------ shrinking
def shrink(chk, fx, case, rounds=10):
    """greedy: drop cells' cuts / assignments / instances / leading cells while the case still fails"""
    if case.get("op") == "tracks":
        return case
    cur = case
    for rd in range(rounds):
        cands = []
        for ci, c in enumerate(cur["cells"]):
            for key in ("cuts", "assigns", "insts"):
                for j in range(len(c[key])):
                    n = copy.deepcopy(cur); del n["cells"][ci][key][j]; cands.append(n)
        # drop an uninstantiated cell
        for ci in range(len(cur["cells"]) - 1):
            if not any(i["cell"] == ci for c in cur["cells"] for i in c["insts"]):
                n = copy.deepcopy(cur); del n["cells"][ci]
                for c in n["cells"]:
                    for i in c["insts"]:
                        if i["cell"] > ci: i["cell"] -= 1
                cands.append(n)
        if not cands:
            break
        cands = cands[:40]
        rs = evaluate(chk, fx, cands, "shrink%d" % rd)
        nxt = [c for c, r in zip(cands, rs) if r[0] % 10 == 2]
        if not nxt:
            break
        cur = min(nxt, key=lambda c: len(json.dumps(c)))
    return cur

# ------------------------------------------------------------------ the check
def gen_cases(chk, fam):
    rng = chk.rng
    quick = chk.tier == "quick"
    cases = directed_cases(fam) + audit_cases(fam) + no_raw_layer_cases(fam)
    for st in fam:
        cases.append({"op": "tracks", "n": 3 * max(1, max(nsig(m) for m in st["metals"])) + 2, "stack": st, "kind": "tracks"})
    per = 110 if quick else 2500
    for st in fam:
        for _ in range(per):
            cases.append({"op": "compile", "stack": st, "cells": gen_lib(rng, st), "kind": "rand:" + st["name"]})
    if not quick:
        for st in fam:
            for _ in range(300):
                cases.append({"op": "compile", "stack": st, "cells": gen_lib(rng, st, big=True), "kind": "big:" + st["name"]})
    return cases

def nontrivial(case, r):
    if case.get("op") == "tracks":
        return True
    return "ok" in r and any(c["cuts"] or c["assigns"] or c["insts"] for c in case["cells"])

def run(chk, replay=None):
    chk.proof_leg(["Tetris/CompileCheck.vo"], "Properties/C08.v",
                  ["Tetris/Compile_proofs.v", "Tetris/CompileFull_proofs.v"], "Properties.C08")
    kernel_tie_leg(chk, "tetris_stack")       # generated-from-source kernels = the model functions (Properties/KernelsTetris.v)
    kernel_tie_leg(chk, "tetris_tracks")      # Track::cut_or_block generated from the source = the model (Properties/KernelsTetris.v)
    kernel_tie_leg(chk, "tetris_conv")        # conv/raw.rs track_cross_xy, instance_intersects generated from the source = the model (Properties/KernelsTetrisConv.v)
    kernel_tie_leg(chk, "tetris_period")      # conv/raw.rs assign_track and the whole export_cell_layer_period (cut span, via rectangle, ..) generated from the source = the model
    chk.assumptions += [
        "isize/usize overflow is not modelled (integers are Z); all coordinates of the run are below 2^31",
        "instances are absolutely placed (Placer::place is the identity on them and keeps their order); cells have a layout view with a rectangular outline, non-empty names, no `places`",
        "an instance is seen by the exporter only through the `metals` and outline of its cell; error messages are not compared, only Ok / Err / panic",
        "the spec reads 'spans blocked by instances' per period: an instance blocks the tracks of every period strip its box meets (touching excluded), along the track over the reflected box",
        "on an integer grid 'centred' = within half a unit (exact when parities allow); 'of the stack's size' = exactly the via layer's size",
    ]
    if not getattr(chk, "model_ok", False):
        return
    ok, out = build_harness(["c08"])
    if not ok:
        chk.broken.append("harness build failed: " + last_error(out)); return
    fam = stack_family()
    fx, desc = detect_variant(fam, chk)
    chk.cov["repo_variant"] = desc
    if replay:
        obj = json.load(open(replay))["replay"]
        cases = obj.get("cases", [])
    else:
        cases = gen_cases(chk, fam)
    dist = {}
    for c in cases:
        dist[c.get("kind", "?")] = dist.get(c.get("kind", "?"), 0) + 1
    chk.cov["input_distribution"] = dist
    chk.cov["rule"] = ("libraries of 1-3 gridded cells over a family of %d layer stacks (the repo's sample stack, asymmetric patterns with and without "
                       "every-other flip, shared rails through overlap, offsets, Repeat, odd sizes, vertical-first), outlines of whole periods up to 6x6 "
                       "primitive pitches (sample stack: up to 10), 1-4 metals, random mostly conflict-free cuts and assignments at in-range crossings, 0-3 "
                       "instances of lower-metal cells in the four reflections, plus directed malformed inputs and stacks with a metal or via layer that has no raw layer; a case is non-trivial when the "
                       "implementation returns Ok and some cell has a cut, an assignment or an instance; distinct by JSON of the case" % len(fam))
    results = evaluate(chk, fx, cases, "c08")
    chk.cov["evaluations"] = len(cases)
    chk.cov["distinct_nontrivial"] = len({json.dumps(strip(c), sort_keys=True) for c, r in zip(cases, results) if nontrivial(c, r[1])})
    chk.cov["traces_validated_against_impl"] = sum(1 for r in results if r[0] % 10 == 0)
    chk.cov["impl_ok"] = sum(1 for r in results if result_kind(r[1]) == 0)
    chk.cov["impl_err"] = sum(1 for r in results if result_kind(r[1]) == 1)
    chk.cov["impl_panic"] = sum(1 for r in results if result_kind(r[1]) == 2)
    chk.cov["outside_domain_silent"] = sum(1 for r in results if (r[0] // 10) & 1)
    chk.cov["spec_ambiguous"] = sum(1 for r in results if (r[0] // 10) & 2)
    oc = [(c, r) for c, r in zip(cases, results) if c.get("kind") == "odd_crossing_at_block_end"]
    occ = [(c, r) for c, r in zip(cases, results) if c.get("kind") == "odd_crossing_clear_control"]
    chk.cov["odd_crossing_at_block_end"] = {
        "what": "assignment whose crossing, rounded down by `center` (odd track width), sits on the end of an instance's blocked span; "
                "outside the well-formed space (assign_wfb clause crossing_clearb): reported, not judged",
        "cases": len(oc), "impl_ok": sum(1 for _, r in oc if result_kind(r[1]) == 0),
        "classified_outside_wf_not_judged": sum(1 for _, r in oc if (r[0] // 10) & 1 and r[0] % 10 != 2),
        "impl_equals_model": sum(1 for _, r in oc if r[0] % 10 == 0),
        "controls_well_formed_and_judged_ok": sum(1 for _, r in occ if r[0] == 0), "controls": len(occ)}
    # a panic is always code 2 (c08_check does not look further): whether the MODEL of the tree's variant panics on the same inputs is
    # evaluated separately, so that "the model follows the tree" is measured on the panicking inputs too
    pan = [c for c, r in zip(cases, results) if result_kind(r[1]) == 2 and c.get("op") == "compile"]
    if pan:
        cls = coq_eval_lists(HDR, [capp("res_class", capp("compile", cfix(fx), cstack(c["stack"]), clist([ccell(x, c["cells"]) for x in c["cells"]])))
                                   for c in pan], chk.rundir, "c08pan", shard=120)
        agree = sum(1 for x in cls if parse_z(x) == 2)
        chk.cov["impl_panics_predicted_by_model"] = {"impl_panics": len(pan), "model_panics_too": agree}
        if agree != len(pan):
            c = next(c for c, x in zip(pan, cls) if parse_z(x) != 2)
            chk.broken.append("correspondence C08: the implementation panics where the model (variant %s) does not, e.g. %s" % (desc, json.dumps(strip(c))[:400]))
    nr = [(c, r) for c, r in zip(cases, results) if str(c.get("kind", "")).startswith("stack_no_raw_layer:")]
    if nr:
        sub = lambda k: [(c, r) for c, r in nr if c["kind"] == "stack_no_raw_layer:" + k]
        cnt = lambda l: {"cases": len(l), "impl_ok": sum(1 for _, r in l if result_kind(r[1]) == 0), "impl_err": sum(1 for _, r in l if result_kind(r[1]) == 1),
                         "impl_panic": sum(1 for _, r in l if result_kind(r[1]) == 2), "impl_equals_model_no_panic": sum(1 for _, r in l if r[0] % 10 == 0)}
        chk.cov["stack_no_raw_layer"] = {
            "what": "a metal or via layer of the stack has raw = None; outside wf_stackb, inside the no-panic clause: judged for panics and compared with the model; "
                    "'metal' / 'via' reach a .raw.unwrap() site as found, 'undrawn' never draw on the raw-less layer (Ok as found, Err once export_stack checks it), "
                    "'early_err' fail before the site, 'tracks' never read raw layers, 'control' = complete stack",
            **{k: cnt(sub(k)) for k in ("metal", "via", "undrawn", "early_err", "tracks", "control")}}
    chk.cov["shapes_compared"] = sum(len(c) for r in results for c in r[1].get("ok", []))
    chk.add_samples([{"case": strip(c), "impl": r[1], "code": r[0]} for c, r in list(zip(cases, results))[:: max(1, len(cases) // 5)]], k=5)
    mism = [(c, r) for c, r in zip(cases, results) if r[0] % 10 == 1]
    viol = [(c, r) for c, r in zip(cases, results) if r[0] % 10 == 2]
    chk.cov["correspondence_mismatches"] = len(mism)
    known = [k for k in load_known() if k.get("kind") == "finding" and k.get("property") == "C08"]
    unknown = []
    for c, r in viol:
        cls = case_classes(c)
        ent = next((k for k in known if k.get("class") in cls), None)
        if ent is not None:
            chk.known(ent, c)
        else:
            unknown.append((c, r))
    if unknown:
        unknown.sort(key=lambda cr: len(json.dumps(cr[0])))
        c, r = unknown[0]
        small = c if replay else shrink(chk, fx, c)
        byclass = {}
        for cc, _ in unknown:
            key = ",".join(sorted(case_classes(cc))) or "-"
            byclass[key] = byclass.get(key, 0) + 1
        chk.violation("tetris compile: %d of %d cases violate C08 (panic, or the shapes do not realise tracks/cuts/vias/nets); classes %s; smallest: %s"
                      % (len(unknown), len(cases), byclass, json.dumps(strip(small))[:600]),
                      {"cases": [small] + [cc for cc, _ in unknown[:40]], "impl": [rr[1] for _, rr in unknown[:5]], "variant": desc})
    elif mism:
        c, r = mism[0]
        chk.broken.append("correspondence C08: impl differs from the model (variant %s), e.g. %s -> %s" % (desc, json.dumps(strip(c))[:400], json.dumps(r[1])[:300]))
