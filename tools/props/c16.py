"""C16: LEF -> raw import keeps every coordinate in place.
Model Raw/RawLef.v (+ Raw/RawLefDec.v decimal contracts), spec Raw/RawLefSpec.v, theorems Properties/C16.v,
correspondence against layout21raw::lef::LefImporter::import (harness bin c16)."""
import json, os
from vlib import *
from props.kernelcommon import kernel_tie_leg

TWO96 = 1 << 96
LAYER_POOL = ["met1", "met2", "met3", "via1", "poly", "li1", "M1", "nwell", "boundary", "Met1"]
ERR_KINDS = [
    ("non-zero fractional part", "EFract"),
    ("TryFromIntError", "ERange"),
    ("out of range integral type", "ERange"),
    ("Missing LEF size", "ENoSize"),
    ("Path with no Width", "ENoWidth"),
    ("except_pg_net", "EExceptPg"),
    ("nonzero spacing", "ESpacing"),
    ("Iterate", "EIterate"),
    ("case-insensitive", "ECaseInsens"),
    ("No more layer numbers", "ENoLayerNum"),
]
DBU_VALUES = [100, 200, 400, 800, 1000, 2000, 4000, 8000, 10000, 20000]
UNITS = {"Micro": 0, "Nano": 1, "Angstrom": 2, "Pico": 3}

# ------------------------------------------------------------------ decimals: [neg, "magnitude", scale]
def D(neg, mag, scale):
    return [bool(neg), str(mag), scale]

def gen_dec(rng, kind=None, small=True):
    """kind: int, dec4 (<=4 decimals), tz (trailing zeros), bad (not a multiple of 0.0001), zero, big, huge"""
    if kind is None:
        kind = rng.choice(["int", "int", "dec4", "dec4", "dec4", "tz", "tz", "zero"])
    neg = rng.random() < 0.3
    if kind == "int":
        return D(neg, rng.randrange(0, 2000), 0)
    if kind == "dec4":
        s = rng.randrange(1, 5)
        return D(neg, rng.randrange(0, 2000 * 10 ** s), s)
    if kind == "tz":       # e.g. 1.50, 2.000, 0.125000 : value has <= 4 decimals, written with up to 6 (or more)
        s0 = rng.randrange(0, 5)
        extra = rng.randrange(1, 7 - s0) if s0 < 6 and rng.random() < 0.85 else rng.randrange(1, 12)
        return D(neg, rng.randrange(0, 500 * 10 ** s0) * 10 ** extra, s0 + extra)
    if kind == "bad":      # 5..6 (sometimes more) decimals with a non-zero digit beyond the fourth
        s = rng.choice([5, 5, 6, 6, 7, 9, 12])
        m = rng.randrange(0, 300 * 10 ** s)
        if m % (10 ** (s - 4)) == 0:
            m += rng.randrange(1, 10 ** (s - 4))
        return D(neg, m, s)
    if kind == "zero":
        return D(rng.random() < 0.2, 0, rng.randrange(0, 7))
    if kind == "big":      # scaled value near the 64-bit limits
        s = rng.randrange(0, 7)
        n = (1 << 63) + rng.randrange(-3, 4)            # target scaled integer
        if rng.random() < 0.3:
            n = rng.randrange(1 << 40, 1 << 64)
        # value = n / 10^4 written with s+4 decimals -> mantissa n * 10^s
        return D(neg, n * 10 ** s, s + 4)
    if kind == "huge":     # magnitude near 2^96 / 10^k: rust_decimal's 96-bit overflow handling
        k = rng.randrange(0, 5)
        base = TWO96 * rng.choice([1, 1, 2, 8, 10, 12, 16, 100, 128, 160, 1000, 1024, 1600, 9999, 10000]) // 10 ** 4
        m = base // 10 ** rng.randrange(0, 2) + rng.randrange(-3, 4)
        if rng.random() < 0.3:
            m = rng.getrandbits(rng.randrange(80, 97))
        m = max(0, min(TWO96 - 1, m))
        return D(neg, m, rng.randrange(0, 29) if rng.random() < 0.5 else k)
    raise ValueError(kind)

def dec_text(d):
    neg, mag, scale = d
    digits = mag.rjust(scale + 1, "0")
    txt = digits if scale == 0 else digits[:-scale] + "." + digits[-scale:]
    return ("-" if neg else "") + txt

# ------------------------------------------------------------------ libraries
def gen_point(rng, dk):
    return [dk(), dk()]

def gen_geom(rng, dk, plain):
    t = rng.choice(["r", "r", "p", "w"])
    if t == "r":
        g = ["r", gen_point(rng, dk), gen_point(rng, dk)]
    elif t == "p":
        g = ["p", [gen_point(rng, dk) for _ in range(rng.randrange(3, 7))]]
    else:
        g = ["w", [gen_point(rng, dk) for _ in range(rng.randrange(2, 5))]]
    if not plain and rng.random() < 0.04:
        g = ["i", g]
    return g

def gen_lg(rng, dk, plain, names):
    geoms = [gen_geom(rng, dk, plain) for _ in range(rng.randrange(0 if not plain else 1, 4))]
    has_path = any(g[0] == "w" or (g[0] == "i" and g[1][0] == "w") for g in geoms)
    width = None
    if has_path or rng.random() < 0.2:
        width = dk()
        if plain or rng.random() < 0.9:
            width[0] = False            # non-negative
    lg = {"layer": rng.choice(names), "width": width, "spacing": None, "epg": None, "nvias": 0, "geoms": geoms}
    if not plain:
        r = rng.random()
        if r < 0.03:
            lg["width"] = None
        elif r < 0.06:
            lg["spacing"] = [rng.choice(["s", "s", "d"]), gen_dec(rng, rng.choice(["zero", "zero", "int", "dec4"]))]
        elif r < 0.08:
            lg["epg"] = rng.random() < 0.5
        elif r < 0.12:
            lg["nvias"] = rng.randrange(1, 3)
    return lg

def gen_lib(rng, flavour):
    """flavour: plain (everything integral), bad (one coordinate off-grid), feat (unsupported features),
    big (values near integer limits), mixed"""
    plain = flavour in ("plain", "bad", "big")
    names = rng.sample(LAYER_POOL, rng.randrange(1, 5))
    def dk():
        if flavour == "big" and rng.random() < 0.15:
            return gen_dec(rng, rng.choice(["big", "huge"]))
        if flavour == "mixed" and rng.random() < 0.03:
            return gen_dec(rng, rng.choice(["bad", "big", "huge"]))
        return gen_dec(rng)
    macros = []
    for mi in range(rng.randrange(1, 4)):
        pins = []
        for pi in range(rng.randrange(0 if not plain else 1, 4)):
            ports = [[gen_lg(rng, dk, plain, names) for _ in range(rng.randrange(1, 3))] for _ in range(rng.randrange(1, 3))]
            pins.append({"name": rng.choice(["A", "B", "VDD", "VSS", "clk", "q_%d" % pi]), "ports": ports})
        obs = [gen_lg(rng, dk, plain, names) for _ in range(rng.randrange(0, 3))]
        size = [dk(), dk()]
        if not plain and rng.random() < 0.03:
            size = None
        macros.append({"name": "m%d" % mi if rng.random() < 0.9 else "m0", "size": size, "pins": pins, "obs": obs})
    lib = {"op": "struct", "layers": None, "ncs": None, "macros": macros}
    if not plain:
        r = rng.random()
        if r < 0.05:
            lib["ncs"] = "off"
        elif r < 0.15:
            lib["ncs"] = "on"
    if rng.random() < 0.3:       # UNITS DATABASE MICRONS: every legal value; the raw units per micron do not depend on it
        lib["dbu"] = rng.choice(DBU_VALUES)
    if rng.random() < 0.25:      # caller-provided layer table, with gaps, clashes and unnamed layers
        ls = []
        for _ in range(rng.randrange(0, 6)):
            ls.append([rng.choice([0, 1, 2, 3, 5, 7, -1, 40]), rng.choice(names + ["boundary", "other", None, None])])
        lib["layers"] = ls
    if flavour == "bad":
        # put exactly one off-grid coordinate somewhere
        slots = []
        for m in macros:
            if m["size"]:
                slots += [(m["size"], 0), (m["size"], 1)]
            for lg in [lg for p in m["pins"] for port in p["ports"] for lg in port] + m["obs"]:
                for g in lg["geoms"]:
                    pts = [g[1], g[2]] if g[0] == "r" else g[1]
                    for p in pts:
                        slots += [(p, 0), (p, 1)]
                    if g[0] == "w":
                        slots.append((lg, "width"))
        tgt, k = rng.choice(slots)
        bad = gen_dec(rng, "bad")
        if k == "width":
            bad[0] = False
        tgt[k] = bad
    return lib

def directed_cases():
    """Small, readable libraries: one macro with only a SIZE, and one rectangle; these give the smallest witnesses."""
    out = []
    def size_only(w, h):
        return {"op": "struct", "layers": None, "ncs": None, "macros": [{"name": "m", "size": [w, h], "pins": [], "obs": []}]}
    out.append(("dir_xy", size_only(D(0, 3, 0), D(0, 2, 0))))              # SIZE 3 BY 2: x and y distinct
    out.append(("dir_scale", size_only(D(0, 150, 2), D(0, 150, 2))))       # SIZE 1.50 BY 1.50
    out.append(("dir_scale", size_only(D(0, 15, 1), D(0, 15, 1))))         # SIZE 1.5 BY 1.5
    out.append(("dir_scale", size_only(D(0, 2000, 3), D(0, 2000, 3))))     # SIZE 2.000 BY 2.000
    out.append(("dir_scale", size_only(D(1, 5, 1), D(1, 5, 1))))           # negative
    out.append(("dir_bad", size_only(D(0, 12345, 5), D(0, 1, 0))))         # 0.12345: not on the grid
    out.append(("dir_bad", size_only(D(0, 1, 0), D(0, 12345, 5))))
    out.append(("dir_bad", size_only(D(0, 1, 5), D(0, 1, 5))))
    for dbu in DBU_VALUES:                                                  # SIZE 1.5 BY 2.25 under every legal DATABASE MICRONS
        out.append(("dir_dbu", dict(size_only(D(0, 15, 1), D(0, 225, 2)), dbu=dbu)))
    rect = lambda a, b, c, d: ["r", [a, b], [c, d]]
    lg = {"layer": "met1", "width": D(0, 10, 2), "spacing": None, "epg": None, "nvias": 0,
          "geoms": [rect(D(0, 1, 0), D(0, 2, 0), D(0, 3, 0), D(0, 4, 0)), ["w", [[D(0, 5, 1), D(0, 25, 2)], [D(0, 7, 0), D(0, 8, 0)]]],
                    ["p", [[D(0, 0, 0), D(0, 1, 0)], [D(0, 2, 0), D(0, 3, 0)], [D(1, 4, 0), D(0, 5, 3)]]]]}
    out.append(("dir_shapes", {"op": "struct", "layers": None, "ncs": None, "macros": [
        {"name": "m", "size": [D(0, 10, 0), D(0, 20, 0)], "pins": [{"name": "A", "ports": [[lg], [dict(lg, layer="met2"), lg]]}], "obs": [lg]}]}))
    out += audit_cases()
    return out

def audit_cases():
    """Directed families of the generator audit (2026-10-02): list lengths 0 and many, degenerate and explicitly closed shapes, many / similar layer
    names and caller tables, one off-grid value at every kind of position (also the LAST one, after a long good prefix)."""
    out = []
    one, two = D(0, 1, 0), D(0, 2, 0)
    def mk(macros, **kw):
        return dict({"op": "struct", "layers": None, "ncs": None, "macros": macros}, **kw)
    def mac(pins=(), obs=(), size=(one, two), name="m"):
        return {"name": name, "size": None if size is None else list(size), "pins": list(pins), "obs": list(obs)}
    def lgm(layer="met1", geoms=(), width=None):
        return {"layer": layer, "width": width, "spacing": None, "epg": None, "nvias": 0, "geoms": list(geoms)}
    rect = lambda a, b, c, d: ["r", [a, b], [c, d]]
    P = lambda x, y, s=0: [D(x < 0, abs(x), s), D(y < 0, abs(y), s)]
    # -- empty lists at every level
    out.append(("dir_empty", mk([])))
    out.append(("dir_empty", mk([], dbu=2000, layers=[[0, "met1"], [1, None]])))
    out.append(("dir_empty", mk([mac(pins=[{"name": "A", "ports": []}])])))
    out.append(("dir_empty", mk([mac(pins=[{"name": "A", "ports": [[]]}, {"name": "B", "ports": [[], []]}])])))
    out.append(("dir_empty", mk([mac(pins=[{"name": "A", "ports": [[lgm()]]}], obs=[lgm("met2"), lgm("met1"), lgm("met2")])])))
    out.append(("dir_empty", mk([mac(pins=[{"name": "A", "ports": [[lgm(geoms=[rect(one, one, two, two)]), lgm()], []]}])])))
    out.append(("dir_empty", mk([mac(), mac(), mac(name="n", size=None)])))
    # -- shapes: explicitly closed / degenerate / unordered / long
    closed = ["p", [P(0, 0), P(4, 0), P(4, 3), P(0, 3), P(0, 0)]]
    shapes = [closed, ["p", [P(1, 1), P(1, 1), P(1, 1)]], ["p", [P(0, 0), P(2, 0), P(2, 0), P(2, 2), P(0, 0), P(0, 0)]], rect(*P(5, 6), *P(1, 2)), rect(*P(3, 3), *P(3, 3)),
              rect(*P(-15, 25, 1), *P(-5, -35, 1)), ["w", [P(0, 0), P(0, 0)]], ["w", [P(0, 0), P(5, 0), P(0, 0)]], ["w", [P(7, 7)]], ["p", [P(7, 7)]], ["p", []], ["w", []],
              ["p", [P(i, (i * i) % 17 - 8) for i in range(200)]], ["w", [P(-i, i, 1) for i in range(120)]]]
    for g in shapes:
        out.append(("dir_geom", mk([mac(pins=[{"name": "A", "ports": [[lgm(geoms=[g], width=D(0, 14, 2))]]}], obs=[lgm("met2", geoms=[g, g], width=D(0, 1, 0))])])))
    out.append(("dir_geom", mk([mac(obs=[lgm(geoms=shapes[:9], width=D(0, 14, 2))])])))
    for w in (D(0, 0, 0), D(0, 0, 4), D(1, 0, 2), D(0, 1, 4), D(0, 10000, 8), D(1, 1, 4), D(0, (1 << 63) - 1, 4), D(0, 1 << 63, 4), D(0, (1 << 64) - 1, 4), D(0, 1 << 64, 4), D(0, 1, 5), D(0, 1, 28)):
        out.append(("dir_geom", mk([mac(obs=[lgm(geoms=[["w", [P(0, 0), P(1, 1)]]], width=w)])])))
    # -- layer names: many, differing in case only (ASCII and not), `boundary` in several spellings; caller tables that hold some of them
    many = ["L%d" % i for i in range(40)]
    similar = ["met1", "MET1", "Met1", "mEt1", "met1_", "met", "é", "É", "boundary", "Boundary", "BOUNDARY", "", " ", "met1 "]
    for names in (many, similar, similar[::-1]):
        lgs = [lgm(n, geoms=[rect(*P(i, i + 1), *P(i + 2, i + 3))]) for i, n in enumerate(names)]
        out.append(("dir_layers", mk([mac(pins=[{"name": "A", "ports": [lgs[::2], lgs[1::2]]}], obs=lgs[::-1] + lgs[:3])])))
        out.append(("dir_layers", mk([mac(obs=lgs), mac(name="n", obs=lgs[::-1])], layers=[[3, names[1]], [0, None], [1, "boundary"], [2, names[-1]], [4, None], [6, names[1].upper()]])))
    out.append(("dir_layers", mk([mac(obs=[lgm("a", geoms=[rect(one, one, two, two)])])], layers=[[k, None] for k in range(300)])))
    out.append(("dir_layers", mk([mac(obs=[lgm("a"), lgm("b")])], layers=[[k, None] for k in range(0, 40, 2)] + [[1, "b"], [-5, "boundary"]])))
    out.append(("dir_layers", mk([mac(obs=[lgm("a"), lgm("b")])], layers=[[32766, "x"], [32767, "y"], [-32768, "z"], [0, "boundary"], [0, "a"]])))
    # -- one off-grid value at each kind of position, in several sizes of the excess; also as the very last value of a long library
    bads = [D(0, 1, 5), D(1, 1, 5), D(0, 100001, 5), D(0, 1, 28), D(1, 10 ** 24 + 1, 28), D(0, 12345678, 8), D(0, 99999, 5), D(1, 314159, 9)]
    good = lgm(geoms=[rect(*P(1, 2), *P(3, 4)), ["p", [P(0, 0), P(1, 0), P(1, 1)]], ["w", [P(0, 0), P(5, 5)]]], width=D(0, 5, 1))
    for bi, bad in enumerate(bads):
        slots = {
            "size.x": mac(size=(bad, one)), "size.y": mac(size=(one, bad)),
            "rect.p0.x": mac(obs=[lgm(geoms=[rect(bad, one, two, two)])]), "rect.p0.y": mac(obs=[lgm(geoms=[rect(one, bad, two, two)])]),
            "rect.p1.x": mac(obs=[lgm(geoms=[rect(one, one, bad, two)])]), "rect.p1.y": mac(obs=[lgm(geoms=[rect(one, one, two, bad)])]),
            "polygon.last.y": mac(obs=[lgm(geoms=[["p", [P(0, 0), P(1, 0), [one, bad]]]])]), "polygon.first.x": mac(pins=[{"name": "A", "ports": [[lgm(geoms=[["p", [[bad, one], P(1, 0), P(1, 1)]]])]]}]),
            "path.mid.x": mac(pins=[{"name": "A", "ports": [[lgm(geoms=[["w", [P(0, 0), [bad, one], P(1, 1)]]], width=one)]]}]),
            "path.width": mac(obs=[lgm(geoms=[["w", [P(0, 0), P(1, 1)]]], width=[False, bad[1], bad[2]])]),
            "last value of the library": mac(pins=[{"name": "A", "ports": [[good, good], [good]]}, {"name": "B", "ports": [[good]]}],
                                             obs=[good, good, lgm("met3", geoms=[rect(one, one, two, two), ["p", [P(0, 0), P(1, 0), [one, bad]]]])]),
        }
        for what, m in slots.items():
            if bi < 4 or what in ("size.x", "rect.p1.y", "path.width", "last value of the library"):
                out.append(("dir_offgrid", mk([mac(name="ok"), m] if what.startswith("last") else [m])))
    return out

EXTRA_HEAD = ['BUSBITCHARS "[]" ;', 'DIVIDERCHAR "/" ;', "MANUFACTURINGGRID 0.005 ;", "MANUFACTURINGGRID 1 ;", "USEMINSPACING OBS ON ;", "CLEARANCEMEASURE EUCLIDEAN ;", "FIXEDMASK ;",
              "UNITS\n  DATABASE MICRONS 100 ;\n  TIME NANOSECONDS 1 ;\n  CAPACITANCE PICOFARADS 1 ;\n  RESISTANCE OHMS 1 ;\n  POWER MILLIWATTS 1 ;\n  CURRENT MILLIAMPS 1 ;\n  VOLTAGE VOLTS 1 ;\n  FREQUENCY MEGAHERTZ 1 ;\nEND UNITS",
              "UNITS\n  DATABASE MICRONS 20000 ;\nEND UNITS", "UNITS\nEND UNITS",
              "PROPERTYDEFINITIONS\n  MACRO scale REAL 2.0 ;\n  PIN offset INTEGER RANGE 0 10 ;\nEND PROPERTYDEFINITIONS",
              "SITE core\n  CLASS CORE ;\n  SYMMETRY Y ;\n  SIZE 0.46 BY 2.72 ;\nEND core", "SITE pad\n  CLASS PAD ;\n  SIZE 10 BY 20 ;\nEND pad",
              "VIA via12 DEFAULT\n  RESISTANCE 2 ;\n  LAYER met1 ;\n    RECT -0.1 -0.1 0.1 0.1 ;\n  LAYER via1 ;\n    RECT -0.05 -0.05 0.05 0.05 ;\nEND via12",
              'BEGINEXT "tag"\n  CREATOR "x" ;\nENDEXT']
EXTRA_MACRO = ["CLASS CORE ;", "CLASS BLOCK BLACKBOX ;", "CLASS PAD INPUT ;", "CLASS COVER BUMP ;", "FOREIGN other 0.5 0.25 ;", "FOREIGN other 1 1 FS ;", "ORIGIN 0.5 0.25 ;", "ORIGIN -1 -2 ;", "ORIGIN 0 0 ;",
               "SYMMETRY X Y R90 ;", "SITE core ;", "EEQ other ;", "FIXEDMASK ;", 'PROPERTY scale 2.0 name "n" ;', "DENSITY\n    LAYER met1 ;\n      RECT 0 0 1 1 50 ;\n  END"]
EXTRA_PIN = ["DIRECTION INPUT ;", "DIRECTION OUTPUT TRISTATE ;", "USE POWER ;", "USE SIGNAL ;", "SHAPE ABUTMENT ;", "ANTENNAMODEL OXIDE1 ;", "ANTENNAGATEAREA 0.5 LAYER met1 ;", "ANTENNADIFFAREA 1.25 ;",
             "TAPERRULE r ;", "MUSTJOIN B ;", 'NETEXPR "power VDD" ;', "SUPPLYSENSITIVITY VDD ;", "GROUNDSENSITIVITY VSS ;", "PROPERTY offset 3 ;"]

def lib_to_text(lib, rng=None):
    """LEF source of a plain library (struct case). With `rng`: statements the importer has no use for are added at random (header
    statements, sites, vias, extensions; macro CLASS / FOREIGN / ORIGIN / SYMMETRY / SITE / PROPERTY / DENSITY; pin attributes; PORT CLASS;
    shape MASK numbers) -- none of them may move or scale a coordinate."""
    pick = (lambda pool, p=0.35: [x for x in pool if rng.random() < p]) if rng else (lambda pool, p=0: [])
    mask = (lambda: " MASK %d" % rng.randrange(1, 4) if rng.random() < 0.3 else "") if rng else (lambda: "")
    o = ["VERSION %s ;" % (rng.choice(["5.8", "5.7", "5.6", "5.5"]) if rng else "5.8")]
    head = pick(EXTRA_HEAD, 0.3)
    if sum(1 for h in head if h.startswith("UNITS")) > 1:
        head = [h for h in head if not h.startswith("UNITS")] + [rng.choice([h for h in head if h.startswith("UNITS")])]
    if sum(1 for h in head if h.startswith("MANUFACTURINGGRID")) > 1:
        head = [h for h in head if h != "MANUFACTURINGGRID 1 ;"]
    o += head
    def lgtxt(lg, ind):
        o.append("%sLAYER %s ;" % (ind, lg["layer"]))
        if lg["width"] is not None:
            o.append("%s  WIDTH %s ;" % (ind, dec_text(lg["width"])))
        for g in lg["geoms"]:
            if g[0] == "r":
                o.append("%s  RECT%s %s %s %s %s ;" % (ind, mask(), dec_text(g[1][0]), dec_text(g[1][1]), dec_text(g[2][0]), dec_text(g[2][1])))
            else:
                o.append("%s  %s%s %s ;" % (ind, "POLYGON" if g[0] == "p" else "PATH", mask(), " ".join(dec_text(p[0]) + " " + dec_text(p[1]) for p in g[1])))
    for m in lib["macros"]:
        o.append("MACRO %s" % m["name"])
        mx = pick(EXTRA_MACRO)
        for key in ("CLASS", "FOREIGN", "ORIGIN"):          # one of each kind, half of them before SIZE and half after
            ks = [x for x in mx if x.startswith(key)]
            mx = [x for x in mx if not x.startswith(key)] + ks[:1]
        if rng:
            rng.shuffle(mx)
        o += ["  " + x for x in mx[: len(mx) // 2]]
        o.append("  SIZE %s BY %s ;" % (dec_text(m["size"][0]), dec_text(m["size"][1])))
        o += ["  " + x for x in mx[len(mx) // 2:]]
        for p in m["pins"]:
            o.append("  PIN %s" % p["name"])
            px = pick(EXTRA_PIN, 0.25)
            for key in ("DIRECTION", "USE"):
                ks = [x for x in px if x.startswith(key)]
                px = [x for x in px if not x.startswith(key)] + ks[:1]
            o += ["    " + x for x in px]
            for port in p["ports"]:
                o.append("    PORT")
                if rng and rng.random() < 0.3:
                    o.append("      CLASS %s ;" % rng.choice(["NONE", "CORE", "BUMP"]))
                for lg in port:
                    lgtxt(lg, "      ")
                o.append("    END")
            o.append("  END %s" % p["name"])
        if m["obs"]:
            o.append("  OBS")
            for lg in m["obs"]:
                lgtxt(lg, "    ")
            o.append("  END")
        o.append("END %s" % m["name"])
    o.append("END LIBRARY")
    return "\n".join(o) + "\n"

def gen_cases(chk):
    rng = chk.rng
    quick = chk.tier == "quick"
    cases, dist = [], {}
    def add(kind, c):
        c = dict(c)
        c["kind"] = kind
        cases.append(c)
        dist[kind] = dist.get(kind, 0) + 1
    for kind, c in directed_cases():
        add(kind, c)
    mult = 1 if quick else 25
    for flavour, n in (("plain", 450), ("bad", 250), ("feat", 200), ("big", 200), ("mixed", 150)):
        for _ in range(n * mult):
            add("lib_" + flavour, gen_lib(rng, flavour))
    # the same library written with different numbers of decimals (text of the numbers differs, values equal)
    for _ in range(60 * mult):
        lib = gen_lib(rng, "plain")
        add("rescaled_a", lib)
        lib2 = json.loads(json.dumps(lib))
        def pad(d):
            k = rng.randrange(0, 4)
            d[1] = str(int(d[1]) * 10 ** k)
            d[2] += k
        def walk(x):
            if isinstance(x, list) and len(x) == 3 and isinstance(x[0], bool) and isinstance(x[1], str):
                pad(x)
            elif isinstance(x, list):
                for y in x:
                    walk(y)
            elif isinstance(x, dict):
                for k2 in ("size", "pins", "ports", "obs", "geoms", "width", "macros"):
                    if k2 in x and x[k2] is not None:
                        walk(x[k2])
        walk(lib2)
        add("rescaled_b", lib2)
    # LEF text through lef21's reader, then import
    tmp = os.path.join(chk.rundir, "c16_scratch.lef")
    for _ in range(120 * mult):
        lib = gen_lib(rng, rng.choice(["plain", "plain", "bad"]))
        add("text", {"op": "text", "text": lib_to_text(lib), "tmp": tmp, "layers": lib["layers"], "intended": lib})
    # the same, with statements the importer has no use for (ORIGIN, FOREIGN, MANUFACTURINGGRID, UNITS, SITE, VIA, MASK, pin attributes ...)
    for i in range(90 * mult):
        lib = gen_lib(rng, rng.choice(["plain", "plain", "plain", "bad"]))
        add("text_extras", {"op": "text", "text": lib_to_text(lib, rng), "tmp": tmp, "layers": lib["layers"], "intended": lib})
    # the decimal operations one by one
    for _ in range(500 * mult):
        add("dec", {"op": "dec", "d": gen_dec(rng, rng.choice(["int", "dec4", "tz", "bad", "zero", "big", "huge", "huge", "huge"]))})
    for m in (TWO96 - 1, TWO96 // 10 ** 4, TWO96 // 10 ** 4 + 1, TWO96 * 12 // 10 ** 4, TWO96 * 10 // 10 ** 4, TWO96 * 10 // 10 ** 4 - 1,
              TWO96 * 16 // 10 ** 4, TWO96 * 128 // 10 ** 4, TWO96 * 100 // 10 ** 4 + 1, TWO96 * 1024 // 10 ** 4, TWO96 * 1000 // 10 ** 4 + 1):
        for s in (0, 1, 2, 3, 4, 5, 28):
            add("dec_edge", {"op": "dec", "d": D(0, m, s)})
    return cases, dist

# ------------------------------------------------------------------ Coq terms
def cdec(d):
    return Raw("(mkdec %s %s %d%%nat)" % ("true" if d[0] else "false", d[1], d[2]))
def clp(p):
    return Raw("(mklpoint %s %s)" % (cdec(p[0]), cdec(p[1])))
def clshape(g):
    if g[0] == "r":
        return Raw("(LRect %s %s)" % (clp(g[1]), clp(g[2])))
    return Raw("(%s %s)" % ("LPolygon" if g[0] == "p" else "LPath", clist([clp(p) for p in g[1]])))
def clgeom(g):
    if g[0] == "i":
        return Raw("(LIterate %s)" % clshape(g[1]))
    return Raw("(LShape %s)" % clshape(g))
def clg(lg):
    sp = None
    if lg["spacing"] is not None:
        sp = Raw("(%s %s)" % ("LSpacing" if lg["spacing"][0] == "s" else "LDesignRuleWidth", cdec(lg["spacing"][1])))
    return capp("mkllg", cstr(lg["layer"]), clist([clgeom(g) for g in lg["geoms"]]), cnat(lg["nvias"]),
                cbool(lg["epg"] is not None), copt(sp), copt(None if lg["width"] is None else cdec(lg["width"])))
def clib(lib):
    ms = []
    for m in lib["macros"]:
        pins = [capp("mklpin", cstr(p["name"]), clist([clist([clg(lg) for lg in port]) for port in p["ports"]])) for p in m["pins"]]
        size = None if m["size"] is None else ctup(cdec(m["size"][0]), cdec(m["size"][1]))
        ms.append(capp("mklmacro", cstr(m["name"]), copt(size), clist(pins), clist([clg(lg) for lg in m["obs"]])))
    return capp("mkllib", cbool(lib["ncs"] == "off"), clist(ms))
def clayers0(ls):
    if ls is None:
        return Raw("None")
    if len(ls) > 1000 and all(nm is None and n == i for i, (n, nm) in enumerate(ls)):
        # a long run of unnamed layers 0..N-1: built inside Coq (a literal of that length overflows coqc's stack)
        return Raw("(Some (map (fun k => (Z.of_nat k, @None string)) (seq 0 %d)))" % len(ls))
    return Raw("(Some %s)" % clist([ctup(cz(n), copt(None if nm is None else cstr(nm))) for n, nm in ls]))
def cpt(p):
    return ctup(cz(p[0]), cz(p[1]))
def cshape(s):
    if s[0] == "r":
        return Raw("(SRect %s %s)" % (cpt(s[1]), cpt(s[2])))
    if s[0] == "p":
        return Raw("(SPolygon %s)" % clist([cpt(p) for p in s[1]]))
    return Raw("(SPath %s %s)" % (cz(s[1]), clist([cpt(p) for p in s[2]])))
def csmap(m):
    return clist([ctup(cnat(k), clist([cshape(s) for s in shapes])) for k, shapes in m])
def cires(res):
    if "panic" in res:
        return Raw("IPanic")
    r = res["res"]
    if "err" in r:
        kind = "EOther"
        for pat, k in ERR_KINDS:
            if pat in r["err"]:
                kind = k
                break
        return Raw("(IErr %s)" % kind)
    ok = r["ok"]
    cells = []
    for c in ok["cells"]:
        a = c["abs"]
        ca = None
        if a is not None:
            ports = [capp("mkaport", cstr(p["net"]), csmap(p["shapes"])) for p in a["ports"]]
            ca = capp("mkabstract", cstr(a["name"]), clist([cpt(p) for p in a["outline"]]), clist(ports), csmap(a["blockages"]))
        cells.append(ctup(cstr(c["name"]), cbool(c["has_layout"]), copt(ca)))
    ly = ok["layers"]
    L = capp("mklayers", clist([capp("mklayer", cz(n), copt(None if nm is None else cstr(nm))) for n, nm in ly["slots"]]),
             clist([ctup(cz(n), cnat(k)) for n, k in ly["nums"]]), clist([ctup(cstr(n), cnat(k)) for n, k in ly["names"]]))
    return capp("IOk", cstr(ok["name"]), cz(UNITS.get(ok["units"], 9)), clist(cells), L)

HDR = ("From Coq Require Import ZArith List String Bool.\nImport ListNotations.\n"
       "From L21 Require Import Base.Outcome Raw.RawLefDec Raw.RawLefTypes Raw.RawLef Raw.RawLefSpec Raw.RawLefCheck.\nOpen Scope Z_scope.\n")

def names_ok(x):
    """every key index resolved (no -1) -- otherwise the harness could not identify a layer key"""
    return '"shapes": [[-1' not in json.dumps(x)

def strip(c):
    return {k: v for k, v in c.items() if k not in ("kind", "intended")}

def evaluate(chk, cases, tag, fn="c16_check"):
    res = harness("c16", [strip(c) for c in cases])
    items, idx = [], []
    out = [None] * len(cases)
    for i, (c, r) in enumerate(zip(cases, res)):
        if c["op"] == "dec":
            if "d" not in r:
                out[i] = (1, r)
                continue
            rr = None
            if r.get("mul") is not None:
                rr = ctup(cdec(r["mul"]), cbool(r["fract_zero"]), cz(int(r["mantissa"])), cdec(r["trunc"]), cz(int(r["trunc_mantissa"])), cbool(r["spacing_zero"]))
            items.append(capp("c16_check_dec", cdec(r["d"]), copt(rr)))
            idx.append(i)
            continue
        if "crash" in r or "harness_error" in r or ("panic" in r and "Multiplication overflowed" not in r["panic"]):
            out[i] = (2, r)      # the importer must not crash; any panic other than the modelled one is a failure
            continue
        if "parse_err" in r:
            out[i] = (1, r)      # lef21 could not read the generated text: not this property's subject, reported as a mismatch
            continue
        if "panic" in r:
            lib = c if c["op"] == "struct" else c["intended"]
        else:
            lib = r["lib"]
            if c["op"] == "struct" and json.dumps(strip_lib(lib), sort_keys=True) != json.dumps(strip_lib(c), sort_keys=True):
                out[i] = (1, {"harness_glue": "echoed library differs from the case", "echo": lib})
                continue
            if c["op"] == "text" and json.dumps(strip_lib(lib), sort_keys=True) != json.dumps(strip_lib(c["intended"]), sort_keys=True):
                out[i] = (1, {"text_reader": "lef21 read something else than was written", "echo": lib})
                continue
        items.append(capp(fn, clayers0(c.get("layers")), clib(lib), cires(r)))
        idx.append(i)
    # shards of equal work: items dealt to the shards by decreasing size
    nsh = max(1, -(-len(items) // 120))
    by_size = sorted(range(len(items)), key=lambda j: -len(items[j]))
    buckets = [by_size[k::nsh] for k in range(nsh)]
    shard = max(1, max(len(b) for b in buckets))
    perm = [j for b in buckets for j in b + [None] * (shard - len(b))]
    codes_p = coq_eval_lists(HDR, [items[j] if j is not None else "0" for j in perm], chk.rundir, tag, shard=shard)
    codes = [None] * len(items)
    for j, o in zip(perm, codes_p):
        if j is not None:
            codes[j] = o
    for i, s in zip(idx, codes):
        out[i] = (parse_z(s), res[i])
    return out

def strip_lib(lib):
    """the part of a library the importer reads; the sign of a zero is dropped (lef21 reads "-0.00" as +0.00)"""
    def norm(x):
        if isinstance(x, list) and len(x) == 3 and isinstance(x[0], bool) and isinstance(x[1], str):
            return [x[0] and x[1].strip("0") != "", x[1], x[2]]
        if isinstance(x, list):
            return [norm(y) for y in x]
        if isinstance(x, dict):
            return {k: norm(v) for k, v in x.items()}
        return x
    return {"ncs": lib.get("ncs"), "macros": norm(lib["macros"])}

def nextnum_bound_check(chk):
    """Layers::nextnum scans 0..32766 only. A 32767-entry layer table is too large to push through coqc
    (a list literal of that length overflows its stack; built inside Coq the run needs 9 GB), so the two
    expectations of the model (nextnum_from i16_max_nat 0) are compared here directly."""
    size = [D(0, 1, 0), D(0, 2, 0)]
    mk = lambda ls: {"op": "struct", "layers": ls, "ncs": None, "macros": [{"name": "m", "size": size, "pins": [], "obs": []}]}
    full, gap = harness("c16", [mk([[k, None] for k in range(32767)]), mk([[k, None] for k in range(32767) if k != 31000])])
    ok1 = "No more layer numbers" in full.get("res", {}).get("err", "")
    ok2 = gap.get("res", {}).get("ok", {}).get("layers", {}).get("slots", [[None, None]])[-1] == [31000, "boundary"]
    chk.cov["nextnum_bound_check"] = {"all 0..32766 taken -> Err": ok1, "only 31000 free -> boundary gets 31000": ok2}
    if not (ok1 and ok2):
        chk.broken.append("correspondence C16: Layers::nextnum bound differs from the model (see nextnum_bound_check)")

def case_size(c):
    return len(json.dumps(strip(c)))

def nontrivial(c):
    if c["op"] == "dec":
        return c["d"][1] != "0"
    lib = c if c["op"] == "struct" else c["intended"]
    return any(m["size"] is not None for m in lib["macros"])

def run(chk, replay=None):
    chk.proof_leg(["Raw/RawLefCheck.vo"], "Properties/C16.v", ["Raw/RawLef_proofs.v"], "Properties.C16")
    kernel_tie_leg(chk, "raw_lef")       # generated-from-source kernels = the model functions (Properties/KernelsRaw2.v)
    chk.assumptions += [
        "rust_decimal 1.43 operations (x10000 with 96-bit overflow handling, trunc, fract().is_zero(), mantissa, is_zero, ==ZERO) are modelled by contract in Raw/RawLefDec.v; validated by the 'dec' cases and by every import, not proved about the crate",
        "isize/usize are 64 bit",
        "HashMap contents are compared as maps (sorted by layer key); the importer never iterates over a HashMap",
        "error-context stack and stderr warnings are not modelled; errors are compared by kind (message text classified in tools/props/c16.py)",
    ]
    if not getattr(chk, "model_ok", False):
        return
    if replay:
        obj = json.load(open(replay))["replay"]
        cases = obj.get("cases", [])
        dist = {}
    else:
        cases, dist = gen_cases(chk)
    chk.cov["input_distribution"] = dist
    chk.cov["rule"] = ("LEF libraries built in the harness from generated structures (1-3 macros, SIZE, 0-3 pins x 1-2 ports x 1-2 LAYER statements, obstructions, "
                       "RECT/POLYGON/PATH+WIDTH, decimals with 0-6(+) places, negatives, trailing zeros, off-grid values, values near 2^63 and 2^96, "
                       "unsupported features, caller-provided layer tables) or read by lef21 from generated LEF text (text_extras: with the statements the importer ignores -- ORIGIN, FOREIGN, "
                       "MANUFACTURINGGRID, UNITS, SITE, VIA, MASK, pin attributes); directed: empty lists at every level, closed / degenerate / 200-point shapes, path widths at the "
                       "64-bit edges, 40 layer names, names differing in case only, caller tables, one off-grid value at every kind of position; a case is non-trivial when it has a macro with a SIZE "
                       "(dec cases: non-zero); distinct by full case content")
    results = evaluate(chk, cases, "c16")
    if not replay:
        nextnum_bound_check(chk)
    chk.cov["evaluations"] = len(cases)
    chk.cov["distinct_nontrivial"] = len({json.dumps(strip(c), sort_keys=True) for c in cases if nontrivial(c)})
    chk.cov["traces_validated_against_impl"] = sum(1 for r in results if r[0] == 0)
    chk.cov["impl_outcomes"] = {
        "ok": sum(1 for r in results if isinstance(r[1], dict) and "ok" in r[1].get("res", {})),
        "err": sum(1 for r in results if isinstance(r[1], dict) and "err" in r[1].get("res", {})),
        "panic": sum(1 for r in results if isinstance(r[1], dict) and "panic" in r[1]),
    }
    step = max(1, len(cases) // 6)
    chk.add_samples([{"case": strip(c) if case_size(c) < 3000 else {"op": c["op"], "kind": c.get("kind"), "size": case_size(c)},
                      "impl": (r[1] if len(json.dumps(r[1])) < 3000 else "(large)"), "code": r[0]}
                     for c, r in list(zip(cases, results))[::step]], k=6)
    mism = [(c, r) for c, r in zip(cases, results) if r[0] == 1]
    viol = [(c, r) for c, r in zip(cases, results) if r[0] == 2]
    chk.cov["correspondence_mismatches"] = len(mism)
    if viol:
        viol.sort(key=lambda cr: case_size(cr[0]))
        # diagnostic: do the failing outputs equal what the model of the code as found computes?
        try:
            diag = evaluate(chk, [c for c, _ in viol[:200]], "c16orig", fn="c16_check_orig")
            chk.cov["violations_matching_original_model"] = "%d of %d" % (sum(1 for d in diag if d[0] == 0), len(diag))
        except Exception as ex:      # diagnostic only
            chk.cov["violations_matching_original_model"] = "n/a: %s" % ex
        bykind = {}
        for c, _ in viol:
            bykind[c.get("kind", "?")] = bykind.get(c.get("kind", "?"), 0) + 1
        chk.cov["violations_by_kind"] = bykind
        c, r = viol[0]
        chk.violation("LefImporter::import: case %s impl=%s fails the property (%d failing cases of %d)"
                      % (json.dumps(strip(c))[:600], json.dumps(r[1].get("res", r[1]))[:600], len(viol), len(cases)),
                      {"cases": [c for c, _ in viol[:50]], "impl": [r[1] for _, r in viol[:10]],
                       "smallest_by_kind": {k: next({"case": strip(c), "impl": json.dumps(r[1].get("res", r[1]))[:400]} for c, r in viol if c.get("kind", "?") == k) for k in bykind}})
    elif mism:
        c, r = min(mism, key=lambda cr: case_size(cr[0]))
        chk.broken.append("correspondence C16: impl differs from model where the property is silent (%d cases), e.g. %s impl=%s"
                          % (len(mism), json.dumps(strip(c))[:500], json.dumps(r[1])[:500]))
