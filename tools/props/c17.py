"""C17: dependency orderings. Model Order/DepOrder.v, spec Order/DepOrderSpec.v, theorems Properties/C17.v,
correspondence against layout21utils::DepOrder::order (generic helper), layout21raw::DepOrder::order and
Library::to_proto, layout21tetris Library::dep_order, conv::proto::ProtoExporter::export (CellOrder) and
placer::Placer::place (PlaceOrder), layout21raw::Library::from_gds (GdsDepOrder).

A case is {"k": kind, "g": adjacency lists, "items": listing order, "aref": m, "fam": family, "iso": bool}.
"iso" cases (cyclic / dangling inputs for the orderers without a pending set) are run one per process so
that a stack overflow is attributed to the right case."""
import itertools, json, os, re
from vlib import *
from props.kernelcommon import kernel_tie_leg

KIND = {"gen": 0, "tproto": 0, "place": 0, "raw": 1, "rawproto": 1, "tetris": 1, "gds": 2}
CLASS_PREFIX = {"raw": "raw", "rawproto": "raw", "tetris": "tetris", "gds": "gds", "gen": "generic", "tproto": "tetris-cellorder", "place": "tetris-placeorder"}
def repaired(path, struct_decl):
    """Does the orderer declared by `struct_decl` in /repo/<path> carry a `pending` field (the repair proposed in the
    C17 report)? Then the correspondence uses the model of the repaired code (Order/DepOrderFixed.v, kinds 3/4)."""
    try:
        src = open(os.path.join(REPO, path), encoding="utf8").read()
    except OSError:
        return False
    i = src.find(struct_decl)
    if i < 0:
        return False
    j = src.find("}", i)
    return re.search(r"\bpending\s*:", src[i:j]) is not None

def model_kinds():
    k = dict(KIND)
    v = {}
    v["raw"] = repaired("layout21raw/src/data.rs", "pub struct DepOrder<")
    v["tetris"] = repaired("layout21tetris/src/library.rs", "pub struct DepOrder<")
    v["gds"] = repaired("layout21raw/src/gds.rs", "pub struct GdsDepOrder<")
    if v["raw"]:
        k["raw"] = k["rawproto"] = 3
    if v["tetris"]:
        k["tetris"] = 3
    if v["gds"]:
        k["gds"] = 4
    return k, v

HDR = ("From Coq Require Import ZArith NArith List.\nImport ListNotations.\n"
       "From L21 Require Import Order.DepOrder Order.DepOrderCheck.\nOpen Scope N_scope.\n")

# ------------------------------------------------------------------ graph helpers (generation / classification only;
# the verdict is computed by the Coq checker)
def graph_of_mask(n, mask):
    return [[j for j in range(n) if (mask >> (i * n + j)) & 1] for i in range(n)]

def py_reachable(g, items):
    seen, todo = set(), list(items)
    while todo:
        x = todo.pop()
        if x in seen:
            continue
        seen.add(x)
        if x < len(g):
            todo.extend(g[x])
    return seen

def py_cyclic(g, items):
    """cycle among the nodes reachable from items (iterative three-colour DFS)"""
    color = {}
    for r in items:
        if color.get(r):
            continue
        st = [(r, 0)]
        color[r] = 1
        while st:
            x, i = st.pop()
            ds = g[x] if x < len(g) else []
            if i < len(ds):
                st.append((x, i + 1))
                d = ds[i]
                c = color.get(d, 0)
                if c == 1:
                    return True
                if c == 0:
                    color[d] = 1
                    st.append((d, 0))
            else:
                color[x] = 2
    return False

def py_dangling(g, items):
    return any(d >= len(g) for x in py_reachable(g, items) if x < len(g) for d in g[x])

def rand_dag(rng, n, p_edge=None, maxdeg=4, dup_edges=True):
    """random DAG on n nodes with node ids shuffled (so that users are not listed after their dependencies),
    shared dependencies and, sometimes, repeated instances of the same dependency"""
    ids = list(range(n))
    rng.shuffle(ids)          # ids[k] = label of the node at topological rank k (rank 0 = leaf)
    g = [[] for _ in range(n)]
    for k in range(n):
        if k == 0:
            continue
        style = rng.random()
        if style < 0.15:      # chain element
            ds = [ids[k - 1]]
        else:
            deg = rng.randrange(0, maxdeg + 1)
            ds = [ids[rng.randrange(0, k)] for _ in range(deg)]
            if not dup_edges:
                ds = list(dict.fromkeys(ds))
        g[ids[k]] = ds
    return g

def add_cycle(rng, g):
    """add one back edge closing a cycle (or a self-loop)"""
    n = len(g)
    g = [list(r) for r in g]
    if n == 1 or rng.random() < 0.25:
        x = rng.randrange(n)
        g[x].insert(rng.randrange(len(g[x]) + 1), x)
        return g
    for _ in range(50):
        x = rng.randrange(n)
        reach = py_reachable(g, [x]) - {x}
        if reach:
            y = rng.choice(sorted(reach))
            g[y].insert(rng.randrange(len(g[y]) + 1), x)
            return g
    x = rng.randrange(n)
    g[x].append(x)
    return g

def rand_digraph(rng, n, p):
    return [[j for j in range(n) if rng.random() < p] for i in range(n)]

def shuffled(rng, xs):
    xs = list(xs)
    rng.shuffle(xs)
    return xs

# ------------------------------------------------------------------ case generation
def mk(fam, k, g, items, iso=False, aref=0, **extra):
    c = {"k": k, "g": g, "items": list(items), "aref": aref, "fam": fam, "iso": iso}
    c.update(extra)
    return c

def gen_exhaustive(chk, chunk=200000):
    """yields lists of cases: (a1) every digraph (self-loops included) on n nodes in every listing order;
    (a2, thorough) every loop-free labelled digraph on 5 nodes (labelled, so the identity listing covers every
    listing order up to renaming) plus the reversed listing for every 7th"""
    quick = chk.tier == "quick"
    buf = []
    for n in ([1, 2, 3] if quick else [1, 2, 3, 4]):
        perms = list(itertools.permutations(range(n)))
        for mask in range(1 << (n * n)):
            g = graph_of_mask(n, mask)
            for p in perms:
                buf.append(mk("gen_exhaustive_n%d" % n, "gen", g, p, n=n, mask=mask))
            if len(buf) >= chunk:
                yield buf
                buf = []
    if not quick:
        n = 5
        offdiag = [(i, j) for i in range(n) for j in range(n) if i != j]
        for bits in range(1 << len(offdiag)):
            mask = 0
            for b, (i, j) in enumerate(offdiag):
                if (bits >> b) & 1:
                    mask |= 1 << (i * n + j)
            g = graph_of_mask(n, mask)
            buf.append(mk("gen_exhaustive_loopfree_n5", "gen", g, range(n), n=n, mask=mask))
            if bits % 7 == 0:
                buf.append(mk("gen_exhaustive_loopfree_n5", "gen", g, range(n - 1, -1, -1), n=n, mask=mask))
            if len(buf) >= chunk:
                yield buf
                buf = []
        chk.cov["exhaustive_subspace"] = ("generic helper: all 2^(n^2) digraphs with self-loops on n<=4 nodes x all n! listing orders; "
                                          "all 2^20 loop-free labelled digraphs on 5 nodes")
    else:
        chk.cov["exhaustive_subspace"] = "generic helper: all 2^(n^2) digraphs with self-loops on n<=3 nodes x all n! listing orders"
    if buf:
        yield buf

def audit_cases(rng, quick, add, sizes_q):
    """Families added by the generator audit of 2026-10-02; each input class was absent from the quick tier before.
    *_listed_twice: the same cell pointer several times in lib.cells (also next to itself); *_views: cells with an abstract view besides
    the layout, with only an abstract view, with no view at all (raw AND tetris orderers, and both proto exporters); gds_filler:
    boundary / path / text elements before, between and after the references of a struct; *_deep / *_wide: a 1200-cell chain listed
    dependents-first (or only its top listed) and 400-cell stars through every embedded orderer; *_empty: a library without cells;
    *_cycle_unlisted: a cycle that is reached only through cells not listed in lib.cells, and an unreachable cycle next to a DAG;
    gds cycles closed by an AREF."""
    emb = ("raw", "rawproto", "tetris", "tproto")
    for k in emb:
        for _ in range(12 if quick else 120):
            n = rng.choice(sizes_q[:8])
            g = rand_dag(rng, n, maxdeg=rng.choice([1, 2, 4]))
            items = shuffled(rng, range(n))
            for _ in range(rng.randint(1, 3)):
                items.insert(rng.randrange(len(items) + 1), rng.choice(items))
            if rng.random() < 0.5:
                x = rng.choice(items)
                items.insert(items.index(x), x)                    # twice in a row
            add(k + "_listed_twice", k, g, items)
        add(k + "_listed_twice", k, [[1], []], [0, 0, 1, 1])
        add(k + "_listed_twice", k, [[1], []], [1, 0, 1])
        add(k + "_listed_twice", k, [[1, 1], [2], []], [0, 2, 0])
        for _ in range(15 if quick else 150):
            n = rng.choice(sizes_q[:8])
            g = rand_dag(rng, n, maxdeg=rng.choice([2, 4, 6]))
            leaves = [v for v in range(n) if not g[v]]
            nol = [v for v in leaves if rng.random() < 0.35]
            nov = [v for v in leaves if v not in nol and rng.random() < 0.4]
            both = [v for v in range(n) if v not in nol and v not in nov and rng.random() < 0.5]
            items = shuffled(rng, range(n)) if rng.random() < 0.7 else rng.sample(range(n), rng.randrange(1, n + 1))
            add(k + "_views", k, g, items, nolayout=nol, noview=nov, absalso=both)
        add(k + "_views", k, [[1, 2, 1], [2, 3], [3], []], [0, 1, 2, 3], absalso=[0, 1, 2, 3])
        add(k + "_views", k, [[1, 2, 1], [2, 3], [3], []], [0], absalso=[1], nolayout=[3])
        add(k + "_views", k, [[1, 2], [], []], [0, 2, 1], noview=[1], nolayout=[2])
        add(k + "_empty", k, [], [])
        # a cycle reached only through unlisted cells (one process per case); an unreachable cycle beside a DAG is no error
        add(k + "_cycle_unlisted", k, [[1], [2], [1]], [0], iso=True)
        add(k + "_cycle_unlisted", k, [[1], [2], [3, 2], []], [0], iso=True)
        add(k + "_cycle_unlisted", k, [[1], [], [3], [2]], [1, 0], iso=True)
    for k in ("gen", "place", "gds"):
        add(k + "_empty", k, [], [])
    n = 1200
    chain = [[i + 1] for i in range(n - 1)] + [[]]
    star = [list(range(1, 400))] + [[] for _ in range(399)]
    fan = [[]] + [[0] for _ in range(399)]
    for k in emb + ("gds",):
        add(k + "_deep", k, chain, list(range(n)))
        if k != "gds":
            add(k + "_deep", k, chain, [0])
        add(k + "_wide", k, star, shuffled(rng, range(400)))
        add(k + "_wide", k, fan, list(range(399, -1, -1)))
    add("gds_deep", "gds", chain, list(range(n)), aref=1)
    for _ in range(24 if quick else 240):
        m = rng.choice(sizes_q[:8])
        g = rand_dag(rng, m, maxdeg=rng.choice([1, 2, 4, 6]))
        add("gds_filler", "gds", g, shuffled(rng, range(m)), aref=rng.choice([0, 1, 2, 3]), filler=rng.choice([1, 1, 2, 3]))
    add("gds_filler", "gds", [[1, 1, 2], [2], []], [0, 1, 2], filler=1)
    add("gds_filler", "gds", [[1, 1, 2], [2], []], [0, 1, 2], filler=2, aref=2)
    add("gds_cyclic", "gds", [[0]], [0], iso=True, aref=1)                     # self-reference through an AREF
    add("gds_cyclic", "gds", [[1], [0]], [1, 0], iso=True, aref=2)            # two-cycle closed by an AREF
    add("gds_cyclic", "gds", [[1], [2], [0]], [2, 0, 1], iso=True, aref=1, filler=1)

def gen_cases(chk):
    rng = chk.rng
    quick = chk.tier == "quick"
    cases = []
    def add(fam, k, g, items, iso=False, aref=0, **extra):
        cases.append(mk(fam, k, g, items, iso=iso, aref=aref, **extra))

    # (a3) random graphs for the generic helper: DAGs, DAG + back edge, arbitrary digraphs; roots = permutation,
    # subset, or with repetitions
    for _ in range(400 if quick else 6000):
        n = rng.choice([2, 3, 5, 8, 13, 21, 34, 60]) if rng.random() < 0.5 else rng.randrange(1, 61)
        c = rng.random()
        if c < 0.45:
            g = rand_dag(rng, n)
        elif c < 0.75:
            g = add_cycle(rng, rand_dag(rng, n))
        else:
            g = rand_digraph(rng, n, rng.choice([0.5, 1.0, 2.0]) / n)
        r = rng.random()
        if r < 0.6:
            items = shuffled(rng, range(n))
        elif r < 0.8:
            items = rng.sample(range(n), rng.randrange(0, n + 1))
        else:
            items = [rng.randrange(n) for _ in range(rng.randrange(0, n + 3))]
        add("gen_random", "gen", g, items)

    # (b)(c)(d) embedded orderers on DAGs in shuffled listing order
    sizes_q = [1, 2, 3, 4, 6, 9, 14, 20, 30, 45]
    def dag_sizes(count):
        if quick:
            return [rng.choice(sizes_q) for _ in range(count)]
        return [rng.choice(sizes_q + [70, 100, 150, 200, 300]) for _ in range(count)]
    for k, count in (("raw", 120), ("rawproto", 40), ("tetris", 120), ("tproto", 60), ("gds", 120)):
        for n in dag_sizes(count if quick else count * 8):
            g = rand_dag(rng, n, maxdeg=rng.choice([1, 2, 4, 6]))
            if k == "gds":
                items = shuffled(rng, range(n))          # every struct is listed
            else:
                # sometimes only some cells are listed in lib.cells (the others are instantiated only)
                items = shuffled(rng, range(n)) if rng.random() < 0.7 else rng.sample(range(n), rng.randrange(1, n + 1))
            add(k + "_dag", k, g, items, aref=rng.choice([0, 0, 1, 2, 3]) if k == "gds" else 0)
    # raw libraries in which some leaf cells have only an abstract view (and are instantiated, several times, by others);
    # tetris libraries in which different cells share a name (cells are objects: the orderers must not confuse them)
    for _ in range(60 if quick else 600):
        n = rng.choice(sizes_q)
        g = rand_dag(rng, n, maxdeg=rng.choice([2, 4, 6]))
        leaves = [v for v in range(n) if not g[v]]
        nol = [v for v in leaves if rng.random() < 0.6]
        items = shuffled(rng, range(n)) if rng.random() < 0.7 else rng.sample(range(n), rng.randrange(1, n + 1))
        add("raw_abstract_leaves", "raw", g, items, nolayout=nol)
    add("raw_abstract_leaves", "raw", [[1, 1, 2], [2], []], [0, 1, 2], nolayout=[2])
    for _ in range(60 if quick else 600):
        n = rng.choice(sizes_q)
        g = rand_dag(rng, n, maxdeg=rng.choice([1, 2, 4]))
        add("tetris_shared_names", "tetris", g, shuffled(rng, range(n)), dup=rng.choice([1, 2, 3]))
    add("tetris_shared_names", "tetris", [[1], []], [0, 1], dup=1)          # a wrapper named like the cell it wraps
    # long dependency chains (recursion depth = chain length): dependents listed first, or only the top listed
    for n in ((1001, 1500) if quick else (1001, 1500, 4000)):
        chain = [[i + 1] for i in range(n - 1)] + [[]]
        add("gen_long_chain", "gen", chain, [0])
        add("gen_long_chain", "gen", chain, list(range(n)))
    add("place_long_chain", "place", [[i + 1] for i in range(1199)] + [[]], list(range(1200)))
    # CellOrder is the generic helper: cyclic tetris libraries through the proto exporter must give an error
    for _ in range(40 if quick else 400):
        n = rng.choice(sizes_q)
        g = add_cycle(rng, rand_dag(rng, n))
        add("tproto_cyclic", "tproto", g, shuffled(rng, range(n)))

    # PlaceOrder (generic helper) through Placer::place: instances of one parent cell placed relative to each
    # other (every instance has at most one dependency): forests in shuffled listing order, and with a cycle
    for _ in range(120 if quick else 1200):
        n = rng.choice(sizes_q if quick else sizes_q + [70, 100, 150, 200, 300])
        ids = shuffled(rng, range(n))
        g = [[] for _ in range(n)]
        chainy = rng.random() < 0.3
        for k in range(1, n):
            if rng.random() < 0.85:
                g[ids[k]] = [ids[k - 1] if chainy else ids[rng.randrange(0, k)]]
        fam = "place_forest"
        if rng.random() < 0.35:
            fam = "place_cyclic"
            x = rng.randrange(n)
            reach = sorted(py_reachable(g, [x]))
            roots = [v for v in reach if not g[v]]
            g[roots[0] if roots else x] = [x]          # the chain's absolute end is now placed relative to x
        add(fam, "place", g, shuffled(rng, range(n)))

    # (e) cyclic / dangling inputs for the orderers without a pending set: one process per case
    n_iso = 3 if quick else 12
    for k in ("raw", "rawproto", "tetris", "gds"):
        add(k + "_cyclic", k, [[0]], [0], iso=True)                      # self-instantiation
        add(k + "_cyclic", k, [[1], [0]], [0, 1], iso=True)              # two cells instantiating each other
        for _ in range(n_iso):
            n = rng.choice([3, 5, 8, 20] if quick else [3, 5, 8, 20, 60, 200])
            g = add_cycle(rng, rand_dag(rng, n))
            items = shuffled(rng, range(n))
            if not py_cyclic(g, items):
                continue
            add(k + "_cyclic", k, g, items, iso=True, aref=rng.choice([0, 2]) if k == "gds" else 0)
    audit_cases(rng, quick, add, sizes_q)
    add("gds_dangling", "gds", [[1]], [0], iso=True)                     # SREF to a struct that does not exist
    add("gds_dangling", "gds", [[1, 2], []], [0, 1], iso=True)
    add("gds_dangling", "gds", [[1, 2], []], [1, 0], iso=True, aref=1)   # ... through an AREF
    for _ in range(n_iso):
        n = rng.choice([3, 5, 8, 20])
        g = rand_dag(rng, n)
        x = rng.randrange(n)
        g[x].insert(rng.randrange(len(g[x]) + 1), n + rng.randrange(3))
        add("gds_dangling", "gds", g, shuffled(rng, range(n)), iso=True)
    return cases

# ------------------------------------------------------------------ evaluation
def impl_rc(r):
    """harness result -> (rc, out) as understood by c17_check"""
    if "rc" in r:
        if r["rc"] == 0 and r.get("all_abs") is False:
            return None, []       # Placer::place returned Ok but left a relative placement: not an ordering outcome
        if r["rc"] == 0:
            return 0, [v if v >= 0 else 10 ** 9 for v in r["out"]]
        return 1, []
    if "crash" in r:
        return 2, []
    if "panic" in r:
        return 3, []
    return None, []

def nlist(xs):
    return Raw("[" + "; ".join(str(x) for x in xs) + "]")

def run_impl(cases):
    bare = lambda c: {"k": c["k"], "g": c["g"], "items": c["items"], "aref": c.get("aref", 0),
                      "nolayout": c.get("nolayout", []), "dup": c.get("dup", 0), "absalso": c.get("absalso", []),
                      "noview": c.get("noview", []), "filler": c.get("filler", 0)}
    res = [None] * len(cases)
    main = [i for i, c in enumerate(cases) if not c.get("iso")]
    CH = 200000
    for a in range(0, len(main), CH):
        idx = main[a:a + CH]
        rs = harness("c17", [bare(cases[i]) for i in idx], timeout=3000)
        for i, r in zip(idx, rs):
            res[i] = r
    for i, c in enumerate(cases):
        if c.get("iso"):
            res[i] = harness("c17", [bare(c)], timeout=120)[0]
    return res

def evaluate(chk, cases, tag):
    KIND = chk.c17_kinds
    res = run_impl(cases)
    codes = [None] * len(cases)
    # compact batches for the enumerated families, one expression per other case
    batches = {}
    singles = []
    for i, (c, r) in enumerate(zip(cases, res)):
        rc, out = impl_rc(r)
        if rc is None:
            codes[i] = -1          # harness error
            continue
        if "mask" in c:
            batches.setdefault((KIND[c["k"]], c["n"]), []).append((i, c, rc, out))
        else:
            singles.append((i, c, rc, out))
    items, owners = [], []
    B = 400
    for (kind, n), lst in sorted(batches.items()):
        for a in range(0, len(lst), B):
            part = lst[a:a + B]
            tup = clist([ctup(Raw(str(c["mask"])), nlist(c["items"]), cz(rc), nlist(out)) for (_, c, rc, out) in part])
            items.append(capp("c17_check_masks", cz(kind), Raw(str(n)), tup))
            owners.append([i for (i, _, _, _) in part])
    G = 40
    for a in range(0, len(singles), G):
        part = singles[a:a + G]
        items.append(clist([capp("c17_check", cz(KIND[c["k"]]), clist([nlist(r) for r in c["g"]]), nlist(c["items"]), cz(rc), nlist(out))
                            for (_, c, rc, out) in part]))
        owners.append([i for (i, _, _, _) in part])
    outs = coq_eval_lists(HDR, items, chk.rundir, tag, shard=max(1, -(-len(items) // NCPU)), timeout=3000)
    for s, own in zip(outs, owners):
        vals = [int(v) for v in re.findall(r"-?\d+", s)]
        if len(vals) != len(own):
            raise RuntimeError("c17: cannot parse checker output %r" % s[:200])
        for i, v in zip(own, vals):
            codes[i] = v
    # violating cases: does the model predict the failure (OutOfFuel <-> crash, Panic <-> panic)?
    vi = [i for i, v in enumerate(codes) if v == 2]
    agree = {}
    if vi:
        its = []
        for i in vi:
            c = cases[i]
            rc, out = impl_rc(res[i])
            its.append(capp("c17_agree", cz(KIND[c["k"]]), clist([nlist(r) for r in c["g"]]), nlist(c["items"]), cz(rc), nlist(out)))
        for i, s in zip(vi, coq_eval_lists(HDR, its, chk.rundir, tag + "_agree", shard=50, timeout=3000)):
            agree[i] = parse_z(s)
    return res, codes, agree

def case_class(c):
    g, items = c["g"], c["items"]
    what = "cycle" if py_cyclic(g, items) else ("dangling" if py_dangling(g, items) else "dag")
    return "%s-deporder-%s" % (CLASS_PREFIX[c["k"]], what)

def size_key(c):
    return (len(c["g"]), sum(len(r) for r in c["g"]), len(c["items"]))

def run(chk, replay=None):
    chk.proof_leg(["Order/DepOrderCheck.vo"], "Properties/C17.v",
                  ["Order/DepOrder_proofs.v", "Order/DepOrderFixed_proofs.v", "Order/KernelsTieOrder_proofs.v", "Order/KernelsTieOrderRaw_proofs.v",
                   "Tetris/KernelsTieOrderTetris_proofs.v"], "Properties.C17")
    chk.c17_kinds, variant = model_kinds()
    # the orderers GENERATED from the sources of this tree = the model functions (Properties/KernelsOrder.v, KernelsOrderTetris.v):
    # DepOrderer::push / order; raw DepOrder and GdsDepOrder; tetris DepOrder, PlaceOrder::process, CellOrder::process.
    # The ties of the three hand-rolled orderers are to the model of the REPAIRED code (Order/DepOrderFixed.v): they are
    # checked when the source carries the repair (the same marker that chooses the model for the correspondence run).
    kernel_tie_leg(chk, "order_generic")
    if variant["raw"] and variant["gds"]:
        kernel_tie_leg(chk, "order_raw")
    else:
        chk.notes.append("kernel tie order_raw not checked: the raw / GDS orderer of this tree is the code as found (no pending set); the tie is stated for the repaired orderers")
    if variant["tetris"]:
        kernel_tie_leg(chk, "order_tetris")
    else:
        chk.notes.append("kernel tie order_tetris not checked: the tetris orderer of this tree is the code as found (no pending set); the tie is stated for the repaired orderer")
    chk.cov["model_variant"] = {k: ("repaired (order_checked)" if v else "as found: no pending set (order_nopending)") for k, v in variant.items()}
    chk.assumptions += [
        "`process` of the generic helper is modelled as `push every dependency, propagate the error` (what PlaceOrder, CellOrder and the harness instance do); a user-supplied `process` doing anything else is outside the model",
        "hash sets are modelled as lists with membership/insert/remove (the orderers never iterate over them)",
        "recursion is modelled with fuel = recursion depth; `OutOfFuel for every fuel` is the model's statement of unbounded recursion (observed on the implementation as a stack overflow of the harness process)",
        "GdsDepOrder: struct names are assumed distinct (a node is a name); the lookup of a missing name is Panic",
        "RwLock poisoning (`read().unwrap()`) is outside the model",
    ]
    if not getattr(chk, "model_ok", False):
        return
    if replay:
        obj = json.load(open(replay))["replay"]
        cases = obj.get("cases", [])
        for c in cases:
            c["iso"] = True
        streams = [cases]
    else:
        streams = itertools.chain(gen_exhaustive(chk), [gen_cases(chk)])
    chk.cov["rule"] = ("directed graphs as adjacency lists + listing order: exhaustive small digraphs in every listing order for the generic helper, "
                       "random DAGs (shuffled labels, shared and repeated dependencies, chains), DAG+back-edge and arbitrary digraphs up to 60 nodes; "
                       "raw / tetris cell libraries and GDSII struct libraries built from random DAGs (listing order shuffled, some cells unlisted), "
                       "cyclic and dangling inputs one per process; a case is non-trivial when the graph has at least one edge; distinct by (entry point, graph, listing)")
    dist = {}
    total = ok0 = predicted = 0
    distinct = set()
    distinct_enum = 0
    bad, mism, viol, unpredicted = [], [], [], []
    slim = lambda c: {k: c[k] for k in ("k", "g", "items", "aref", "fam", "nolayout", "dup", "absalso", "noview", "filler") if k in c}
    for si, cases in enumerate(streams):
        res, codes, agree = evaluate(chk, cases, "c17_%03d" % si)
        total += len(cases)
        for i, (c, r, v) in enumerate(zip(cases, res, codes)):
            fam = c.get("fam", "replay")
            dist[fam] = dist.get(fam, 0) + 1
            if "mask" in c:
                distinct_enum += 1 if c["mask"] else 0      # enumerated: all distinct by construction
            elif any(c["g"]):
                distinct.add((c["k"], json.dumps(c["g"]), tuple(c["items"])))
            if v == 0:
                ok0 += 1
            elif v == 1:
                mism.append((slim(c), r))
            elif v == 2:
                viol.append((slim(c), r))
                if agree.get(i) == 1:
                    predicted += 1
                else:
                    unpredicted.append((slim(c), r))
            else:
                bad.append((slim(c), r))
        step = max(1, len(cases) // 3)
        chk.add_samples([{"case": slim(c), "impl": r, "code": v} for c, r, v in list(zip(cases, res, codes))[::step] if len(c["g"]) <= 12], k=2)
        chk.add_samples([{"case": slim(c), "impl": r, "code": v} for c, r, v in zip(cases, res, codes) if c.get("iso") and len(c["g"]) <= 2], k=6)
    chk.cov["input_distribution"] = dist
    chk.cov["evaluations"] = total
    chk.cov["distinct_nontrivial"] = distinct_enum + len(distinct)
    chk.cov["traces_validated_against_impl"] = ok0
    chk.cov["violations_predicted_by_model"] = predicted
    chk.cov["correspondence_mismatches"] = len(mism)
    if unpredicted:
        c, r = unpredicted[0]
        chk.broken.append("correspondence C17: %d violating case(s) on which the model does not predict the impl's behaviour, e.g. k=%s g=%s items=%s impl=%s" % (
            len(unpredicted), c["k"], c["g"], c["items"], json.dumps(r)[:200]))
    if bad:
        c, r = bad[0]
        chk.broken.append("C17 checker/harness could not evaluate %d case(s), e.g. k=%s g=%s items=%s impl=%s" % (len(bad), c["k"], c["g"], c["items"], r))
    known = {k["class"]: k for k in load_known() if k.get("kind") == "finding" and k.get("property") == "C17"}
    by_class = {}
    for c, r in viol:
        by_class.setdefault(case_class(c), []).append((c, r))
    chk.cov["violating_classes"] = {k: len(v) for k, v in by_class.items()}
    for cls, lst in sorted(by_class.items()):
        lst.sort(key=lambda cr: size_key(cr[0]))
        if cls in known:
            for c, r in lst:
                chk.known(known[cls], c)
            continue
        c, r = lst[0]
        chk.violation("%s: entry point %s on g=%s items=%s gives %s; the property demands %s (%d such cases)" % (
                          cls, c["k"], c["g"], c["items"], json.dumps(r)[:200],
                          "an error return" if not cls.endswith("-dag") else "a correct dependency order", len(lst)),
                      {"class": cls, "cases": [c for c, _ in lst[:20]], "impl": [r for _, r in lst[:20]]}, suffix="-" + cls)
    if mism:
        c, r = mism[0]
        chk.broken.append("correspondence C17: impl differs from model although the property holds, e.g. k=%s g=%s items=%s impl=%s (%d cases)" % (
            c["k"], c["g"], c["items"], json.dumps(r)[:200], len(mism)))
