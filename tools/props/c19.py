"""C19: tetris libraries <-> vlsir.tetris protobuf messages.
Model Tetris/TProto.v, checks Tetris/TProtoCheck.v, theorems Properties/C19.v, correspondence against
layout21tetris::conv::proto::{ProtoExporter::export, ProtoLibImporter::import} (harness bin c19)."""
import copy, json, re
from vlib import *
from props.kernelcommon import kernel_tie_leg

TWO63 = 1 << 63

# ------------------------------------------------------------------ generators: tetris libraries
def gen_outline(rng, big=False):
    k = rng.choice([1, 1, 2, 2, 3, 4])
    hi = (1 << 62) if big else 40
    xs = sorted((rng.randrange(0, hi) for _ in range(k)), reverse=True)
    ys = sorted(rng.randrange(0, hi) for _ in range(k))
    if rng.random() < 0.3 and k > 1:          # repeated steps are allowed (non-strict monotonic)
        xs[1] = xs[0]
        ys[-1] = ys[-2]
        ys.sort()
    return [[0, x] for x in xs], [[1, y] for y in ys]

def break_outline(rng, ox, oy):
    how = rng.choice(["x_incr", "y_decr", "neg_x", "neg_y", "len", "empty", "dir_x", "dir_y"])
    ox, oy = copy.deepcopy(ox), copy.deepcopy(oy)
    if how == "x_incr":
        ox.append([0, ox[-1][1] + 1]); oy.append([1, oy[-1][1]])
    elif how == "y_decr":
        ox.append([0, ox[-1][1]]); oy.append([1, oy[-1][1] - 1 if oy[-1][1] > 0 else 0]); oy[-2][1] += 1
    elif how == "neg_x":
        ox[-1][1] = -1 - rng.randrange(3)
    elif how == "neg_y":
        oy[0][1] = -1 - rng.randrange(3)
    elif how == "len":
        ox.append([0, 0])
    elif how == "empty":
        ox, oy = [], []
    elif how == "dir_x":
        ox[0][0] = 1
    else:
        oy[-1][0] = 0
    return ox, oy, how

def gen_usize(rng):
    r = rng.random()
    if r < 0.9:
        return rng.randrange(0, 12)
    if r < 0.97:
        return rng.randrange(0, TWO63)
    return TWO63 - 1

def gen_cross(rng):
    return [gen_usize(rng), gen_usize(rng), gen_usize(rng), gen_usize(rng)]

NAMES = ["a", "b", "net", "vdd", "VSS", "x1", "clk", "", "q[0]", "n_1"]

def gen_lib(rng, flavor, n=None, maxinst=4, maxasg=3):
    """flavor: ok | cyclic | rel | bad_outline | big_usize | dup_names | loc_dir | abs_port; n / maxinst / maxasg: sizes of the `rt_big` family"""
    if n is None:
        n = rng.choice([0, 1, 1, 2, 2, 3, 3, 4, 4, 5, 6, 7]) if flavor == "ok" else rng.choice([1, 2, 3, 4, 5])
    if flavor in ("cyclic",) and n == 0:
        n = 1
    rank = list(range(n))
    rng.shuffle(rank)                       # rank[heap index]; a cell instantiates lower ranks only
    heap = []
    combo = rng.randrange(4)
    for k in range(n):
        lower = [j for j in range(n) if rank[j] < rank[k]]
        cell = {"name": "c%d" % k, "abs": None, "layout": None}
        if k == 0 and rng.random() < 0.08:
            cell["name"] = rng.choice(["", "a b", "q\"uote", "c.0/x"])      # still unique
        kind = rng.random()
        if kind < 0.85 or lower:
            ox, oy = gen_outline(rng, big=rng.random() < 0.05)
            insts = []
            if lower:
                for j in range(rng.choice([0, 1, 1, 2, 3, 4]) if maxinst == 4 else rng.randrange(maxinst + 1)):
                    combo = (combo + 1) % 4
                    insts.append({"name": rng.choice(["i%d" % j, "i", "u%d" % rng.randrange(3), "i%d" % j, "i", ""]),
                                  "cell": rng.choice(lower),
                                  "loc": [[0, rng.randrange(-50, 50) if rng.random() < 0.95 else rng.choice([-TWO63, TWO63 - 1])],
                                          [1, rng.randrange(-50, 50) if rng.random() < 0.95 else rng.choice([-TWO63, TWO63 - 1])]],
                                  "rh": bool(combo & 1), "rv": bool(combo & 2)})
            assigns = [[rng.choice(NAMES)] + gen_cross(rng) for _ in range(rng.choice([0, 0, 1, 2, 3]) if maxasg == 3 else rng.randrange(maxasg + 1))]
            cuts = [gen_cross(rng) for _ in range(rng.choice([0, 0, 1, 2, 3]) if maxasg == 3 else rng.randrange(maxasg + 1))]
            cell["layout"] = {"name": rng.choice([cell["name"], "lay%d" % k]), "metals": gen_usize(rng),
                              "ox": ox, "oy": oy, "insts": insts, "assigns": assigns, "cuts": cuts}
        if rng.random() < 0.3:
            ox, oy = gen_outline(rng)
            cell["abs"] = {"name": rng.choice([cell["name"], "abs%d" % k]), "metals": gen_usize(rng), "ox": ox, "oy": oy, "ports": []}
        heap.append(cell)
    # listing
    idx = list(range(n))
    rng.shuffle(idx)
    lk = rng.random()
    if n and lk < 0.12:
        idx = idx + [rng.choice(idx)]                       # the same pointer listed twice
        rng.shuffle(idx)
    elif n and lk < 0.24:
        used = {i["cell"] for c in heap if c["layout"] for i in c["layout"]["insts"]}
        roots = [i for i in idx if i not in used]
        idx = roots or idx                                   # instantiated cells reachable only through instances
    elif n and lk < 0.32:
        idx = idx[: rng.randrange(1, n + 1)]
    lib = {"op": "rt", "name": rng.choice(["lib", "L", "", "tetris.lib"]), "heap": heap, "listing": idx, "flavor": flavor}
    lays = [c for c in heap if c["layout"]]
    if flavor == "cyclic":
        # close a cycle through a listed cell
        c = heap[idx[0]]
        if c["layout"] is None:
            ox, oy = gen_outline(rng)
            c["layout"] = {"name": c["name"], "metals": 1, "ox": ox, "oy": oy, "insts": [], "assigns": [], "cuts": []}
        # find something reachable from c (or c itself) and make it instantiate c
        reach = [idx[0]]
        seen = set(reach)
        q = list(reach)
        while q:
            x = q.pop()
            for i in (heap[x]["layout"] or {"insts": []})["insts"]:
                if i["cell"] not in seen:
                    seen.add(i["cell"]); q.append(i["cell"]); reach.append(i["cell"])
        cands = [x for x in reach if heap[x]["layout"]]
        src = rng.choice(cands)
        heap[src]["layout"]["insts"].insert(rng.randrange(len(heap[src]["layout"]["insts"]) + 1),
                                            {"name": "back", "cell": idx[0], "loc": [[0, 0], [1, 0]], "rh": False, "rv": False})
    elif flavor == "rel":
        cands = [c for c in lays if c["layout"]["insts"]]
        if cands:
            rng.choice(rng.choice(cands)["layout"]["insts"])["loc"] = None
    elif flavor == "bad_outline":
        if lays and rng.random() < 0.8:
            l = rng.choice(lays)["layout"]
            l["ox"], l["oy"], _ = break_outline(rng, l["ox"], l["oy"])
        else:
            c = rng.choice(heap)
            ox, oy = gen_outline(rng)
            ox, oy, _ = break_outline(rng, ox, oy)
            c["abs"] = {"name": c["name"], "metals": 1, "ox": ox, "oy": oy, "ports": []}
    elif flavor == "big_usize":
        big = rng.choice([TWO63, TWO63 + 5, (1 << 64) - 1])
        if lays:
            l = rng.choice(lays)["layout"]
            w = rng.randrange(3)
            if w == 0 or (w == 1 and not l["assigns"]) or (w == 2 and not l["cuts"]):
                l["metals"] = big
            elif w == 1:
                rng.choice(l["assigns"])[1 + rng.randrange(4)] = big
            else:
                rng.choice(l["cuts"])[rng.randrange(4)] = big
        else:
            c = rng.choice(heap)
            ox, oy = gen_outline(rng)
            c["abs"] = {"name": c["name"], "metals": big, "ox": ox, "oy": oy, "ports": []}
    elif flavor == "dup_names":
        if n >= 2:
            a, b = rng.sample(range(n), 2)
            heap[a]["name"] = heap[b]["name"]
    elif flavor == "loc_dir":
        cands = [c for c in lays if c["layout"]["insts"]]
        if cands:
            i = rng.choice(rng.choice(cands)["layout"]["insts"])
            i["loc"][rng.randrange(2)][0] ^= 1
    elif flavor == "abs_port":
        c = rng.choice(heap)
        ox, oy = gen_outline(rng)
        metals = rng.choice([0, 0, 1, 3, (1 << 64) - 1])
        ports = []
        for j in range(rng.choice([1, 1, 2])):
            k = rng.choice(["edge", "ztopedge", "ztopedge", "ztopinner"])
            p = {"name": "p%d" % j, "kind": k, "layer": gen_usize(rng), "track": rng.choice([gen_usize(rng), TWO63]), "side": rng.randrange(2),
                 "into": gen_usize(rng), "above": rng.random() < 0.5}
            ports.append(p)
        c["abs"] = {"name": c["name"], "metals": metals, "ox": ox, "oy": oy, "ports": ports}
    return lib

# ------------------------------------------------------------------ generators: protobuf messages
def gen_pcross(rng):
    return {"track": [rng.randrange(8), rng.randrange(8)], "cross": [rng.randrange(8), rng.randrange(8)]}

def gen_plib(rng, n=None, maxinst=3):
    if n is None:
        n = rng.choice([1, 2, 2, 3, 3, 4, 5])
    cells = []
    for k in range(n):
        ox, oy = gen_outline(rng)
        out = {"x": [v for _, v in ox], "y": [v for _, v in oy], "metals": rng.randrange(6)}
        c = {"name": "p%d" % k, "abs": None, "layout": None}
        if rng.random() < 0.9 or k == n - 1:
            insts = []
            if k:
                for j in range(rng.choice([0, 1, 1, 2, 3]) if maxinst == 3 else rng.randrange(maxinst + 1)):
                    insts.append({"name": rng.choice(["i%d" % j, "i%d" % j, "i", ""]), "cell": {"to": ["local", "p%d" % rng.randrange(k)]},
                                  "loc": {"place": ["abs", rng.randrange(-20, 20), rng.randrange(-20, 20)]},
                                  "rh": rng.random() < 0.5, "rv": rng.random() < 0.5})
            c["layout"] = {"name": rng.choice([c["name"], c["name"], "lay%d" % k, ""]), "outline": out, "insts": insts,
                           "assigns": [{"net": rng.choice(NAMES), "at": gen_pcross(rng)} for _ in range(rng.choice([0, 1, 2]))],
                           "cuts": [gen_pcross(rng) for _ in range(rng.choice([0, 1, 2]))]}
        if rng.random() < 0.35:
            aout = copy.deepcopy(out)
            if rng.random() < 0.5:            # an abstract with an outline / metal count of its own
                ax, ay = gen_outline(rng)
                aout = {"x": [v for _, v in ax], "y": [v for _, v in ay], "metals": rng.randrange(6)}
            c["abs"] = {"name": rng.choice([c["name"], c["name"], "abs%d" % k]), "outline": aout, "ports": []}
        cells.append(c)
    return {"domain": rng.choice(["d", "plib", ""]), "cells": cells}

def mutation_sites(p):
    """every way of removing ONE mandatory sub-message / breaking ONE reference or place"""
    sites = []
    names = [c["name"] for c in p["cells"]]
    for k, c in enumerate(p["cells"]):
        if c["layout"]:
            l = c["layout"]
            sites.append(("layout_outline_none", k))
            for j, _ in enumerate(l["insts"]):
                for m in ("cell_none", "to_none", "external", "undefined", "self_ref", "loc_none", "place_none", "rel"):
                    sites.append(("inst_" + m, k, j))
                if k + 1 < len(names):
                    sites.append(("inst_forward", k, j))
                # generator audit 2026-10-02: TWO defects at once on one instance; a reference that almost names a defined cell
                for m in ("cell_and_loc_none", "undefined_and_rel", "to_none_and_place_none"):
                    sites.append(("inst2_" + m, k, j))
                if j == 0:
                    for m in ("case", "space", "prefix", "empty"):
                        sites.append(("instnear_" + m, k, j))
            for j, _ in enumerate(l["assigns"]):
                for m in ("at_none", "at_track_none", "at_cross_none", "at_both_none"):
                    sites.append(("assign_" + m, k, j))
            for j, _ in enumerate(l["cuts"]):
                for m in ("track_none", "cross_none", "both_none"):
                    sites.append(("cut_" + m, k, j))
        if c["abs"]:
            sites.append(("abs_outline_none", k))
    return sites

def other_sites(p):
    """error paths that are not in the property's list (correspondence with the model only)"""
    sites = []
    for k, c in enumerate(p["cells"]):
        if c["layout"]:
            sites += [("neg_metals", k), ("bad_outline", k), ("dup_cell_name", k)]
            for j, _ in enumerate(c["layout"]["assigns"]):
                sites.append(("neg_layer", k, j))
        if c["abs"]:
            sites.append(("abs_port", k))
    return sites

def apply_site(rng, p, site):
    q = copy.deepcopy(p)
    kind, k = site[0], site[1]
    c = q["cells"][k]
    l = c["layout"]
    if kind == "layout_outline_none":
        l["outline"] = None
    elif kind == "abs_outline_none":
        c["abs"]["outline"] = None
    elif kind.startswith("inst2_"):
        i = l["insts"][site[2]]
        m = kind[6:]
        if m == "cell_and_loc_none": i["cell"] = None; i["loc"] = None
        elif m == "undefined_and_rel": i["cell"] = {"to": ["local", "nope"]}; i["loc"] = {"place": ["rel"]}
        else: i["cell"] = {"to": None}; i["loc"] = {"place": None}
    elif kind.startswith("instnear_"):
        i = l["insts"][site[2]]
        m = kind[9:]
        nm = i["cell"]["to"][1]
        defined = {cc["name"] for cc in q["cells"]}
        new = {"case": nm.upper(), "space": nm + " ", "prefix": nm[:-1], "empty": ""}[m]
        if new in defined:
            new = "nope"
        i["cell"] = {"to": ["local", new]}
    elif kind.startswith("inst_"):
        i = l["insts"][site[2]]
        m = kind[5:]
        if m == "cell_none": i["cell"] = None
        elif m == "to_none": i["cell"] = {"to": None}
        elif m == "external": i["cell"] = {"to": ["external"]}
        elif m == "undefined": i["cell"] = {"to": ["local", "nope"]}
        elif m == "self_ref": i["cell"] = {"to": ["local", c["name"]]}
        elif m == "forward": i["cell"] = {"to": ["local", q["cells"][k + 1]["name"]]}
        elif m == "loc_none": i["loc"] = None
        elif m == "place_none": i["loc"] = {"place": None}
        elif m == "rel": i["loc"] = {"place": ["rel"]}
    elif kind.startswith("assign_"):
        a = l["assigns"][site[2]]
        m = kind[7:]
        if m == "at_none": a["at"] = None
        elif m == "at_track_none": a["at"]["track"] = None
        elif m == "at_both_none": a["at"]["track"] = None; a["at"]["cross"] = None
        else: a["at"]["cross"] = None
    elif kind.startswith("cut_"):
        x = l["cuts"][site[2]]
        if kind == "cut_track_none": x["track"] = None
        elif kind == "cut_both_none": x["track"] = None; x["cross"] = None
        else: x["cross"] = None
    elif kind == "neg_metals":
        l["outline"]["metals"] = -1 - rng.randrange(3)
    elif kind == "bad_outline":
        ox = [[0, v] for v in l["outline"]["x"]]; oy = [[1, v] for v in l["outline"]["y"]]
        ox, oy, how = break_outline(rng, ox, oy)
        l["outline"]["x"] = [v for _, v in ox]; l["outline"]["y"] = [v for _, v in oy]
    elif kind == "dup_cell_name":
        c["name"] = q["cells"][rng.randrange(len(q["cells"]))]["name"]
    elif kind == "neg_layer":
        l["assigns"][site[2]]["at"][rng.choice(["track", "cross"])][rng.randrange(2)] = -1
    elif kind == "abs_port":
        c["abs"]["ports"] = [{"net": "p", "kind": rng.choice([None, ["edge", [0, 1], 0], ["edge", None, 1],
                                                               ["ztopedge", 1, 0, [2, 3]], ["ztopinner"]])}]
    return {"op": "imp", "plib": q, "site": list(site)}

# ------------------------------------------------------------------ Coq terms
def S(s):
    assert all(32 <= ord(ch) < 127 for ch in s), s
    return Raw('"' + s.replace('"', '""') + '"')
def Zt(n):
    return Raw(str(n) if n >= 0 else "(%d)" % n)
def Nt(n):
    return Raw("%d%%N" % n)
def t_pp(p):
    return capp("mkPP", Raw("Horiz" if p[0] == 0 else "Vert"), Zt(p[1]))
def t_outline(ox, oy):
    return capp("mkTO", clist([t_pp(p) for p in ox]), clist([t_pp(p) for p in oy]))
def t_cross(v):
    return capp("mkTX", capp("mkTR", Zt(v[0]), Zt(v[1])), capp("mkTR", Zt(v[2]), Zt(v[3])))
def t_inst(i):
    loc = Raw("PRel") if i["loc"] is None else capp("PAbs", t_pp(i["loc"][0]), t_pp(i["loc"][1]))
    return capp("mkTI", S(i["name"]), Nt(i["cell"]), loc, cbool(i["rh"]), cbool(i["rv"]))
def t_layout(l):
    return capp("mkTL", S(l["name"]), Zt(l["metals"]), t_outline(l["ox"], l["oy"]),
                clist([t_inst(i) for i in l["insts"]]),
                clist([capp("mkTA", S(a[0]), t_cross(a[1:5])) for a in l["assigns"]]),
                clist([t_cross(c) for c in l["cuts"]]))
def t_port(p):
    side = Raw("BottomOrLeft" if p["side"] == 0 else "TopOrRight")
    if p["kind"] == "edge":
        k = capp("PKEdge", Zt(p["layer"]), Zt(p["track"]), side)
    elif p["kind"] == "ztopedge":
        k = capp("PKZTopEdge", Zt(p["track"]), side, Zt(p["into"]), Raw("Above" if p["above"] else "Below"))
    else:
        k = Raw("PKZTopInner")
    return capp("mkTP", S(p["name"]), k)
def t_abs(a):
    return capp("mkTAbs", S(a["name"]), t_outline(a["ox"], a["oy"]), Zt(a["metals"]), clist([t_port(p) for p in a["ports"]]))
def t_cell(c):
    return capp("mkTCell", S(c["name"]), copt(t_abs(c["abs"]) if c["abs"] else None), copt(t_layout(c["layout"]) if c["layout"] else None))
def t_lib(case):
    return capp("mkTLib", S(case["name"]), clist([t_cell(c) for c in case["heap"]]), clist([Nt(i) for i in case["listing"]]))

def t_lib_printed(lj):
    """the harness's print of an imported library -> TLib term; returns (term, extras_ok)"""
    ok = lj["rawlibs"] == 0
    cells = []
    for c in lj["cells"]:
        ok = ok and not c["extra"]
        lay = None
        if c["layout"]:
            l = c["layout"]
            ok = ok and l["nplaces"] == 0 and all(i["cell"] >= 0 for i in l["insts"])
            lay = {"name": l["name"], "metals": l["metals"], "ox": l["ox"], "oy": l["oy"],
                   "insts": [dict(i, cell=max(i["cell"], 0)) for i in l["insts"]],
                   "assigns": [[a["net"]] + a["at"] for a in l["assigns"]], "cuts": l["cuts"]}
            # the printed target name must be the name of the cell at the printed index
            ok = ok and all(i["cell"] < 0 or lj["cells"][i["cell"]]["name"] == i["cellname"] for i in l["insts"])
        ab = None
        if c["abs"]:
            a = c["abs"]
            ab = {"name": a["name"], "metals": a["metals"], "ox": a["ox"], "oy": a["oy"],
                  "ports": [{"name": "?", "kind": "ztopinner", "side": 0}] * a["nports"]}
        cells.append({"name": c["name"], "abs": ab, "layout": lay})
    return t_lib({"name": lj["name"], "heap": cells, "listing": list(range(len(cells)))}), ok

def p_tr(t):
    return copt(None if t is None else capp("mkPTR", Zt(t[0]), Zt(t[1])))
def p_cross(c):
    return capp("mkPTX", p_tr(c["track"]), p_tr(c["cross"]))
def p_outline(o):
    return copt(None if o is None else capp("mkPO", clist([Zt(v) for v in o["x"]]), clist([Zt(v) for v in o["y"]]), Zt(o["metals"])))
def p_inst(i):
    if i["cell"] is None:
        cell = None
    else:
        to = i["cell"]["to"]
        cell = capp("mkPRef", copt(None if to is None else (capp("RLocal", S(to[1])) if to[0] == "local" else Raw("RExternal"))))
    if i["loc"] is None:
        loc = None
    else:
        pl = i["loc"]["place"]
        loc = capp("mkPPlace", copt(None if pl is None else (capp("PPAbs", capp("mkPPt", Zt(pl[1]), Zt(pl[2]))) if pl[0] == "abs" else Raw("PPRel"))))
    return capp("mkPI", S(i["name"]), copt(cell), copt(loc), cbool(i["rh"]), cbool(i["rv"]))
def p_port(p):
    k = p["kind"]
    if k is None:
        kind = None
    elif k[0] == "edge":
        kind = capp("PPKEdge", p_tr(k[1]), Zt(k[2]))
    elif k[0] == "ztopedge":
        kind = capp("PPKZtopEdge", Zt(k[1]), Zt(k[2]), p_tr(k[3]))
    else:
        kind = Raw("PPKZtopInner")
    return capp("mkPAP", S(p["net"]), copt(kind))
def p_cell(c):
    lay = None
    if c["layout"]:
        l = c["layout"]
        lay = capp("mkPL", S(l["name"]), p_outline(l["outline"]), clist([p_inst(i) for i in l["insts"]]),
                   clist([capp("mkPA", S(a["net"]), copt(None if a["at"] is None else p_cross(a["at"]))) for a in l["assigns"]]),
                   clist([p_cross(x) for x in l["cuts"]]))
    ab = None
    if c["abs"]:
        a = c["abs"]
        ab = capp("mkPAbs", S(a["name"]), p_outline(a["outline"]), clist([p_port(p) for p in a["ports"]]))
    return capp("mkPCell", S(c["name"]), copt(ab), copt(lay))
def p_lib(p):
    return capp("mkPLib", S(p["domain"]), clist([p_cell(c) for c in p["cells"]]))

def t_res(stage, conv):
    """{"ok":..}|{"err":..}|{"panic":..} -> (res term, extras_ok)"""
    if "ok" in stage:
        t, ok = conv(stage["ok"])
        return capp("Ok", t), ok
    if "err" in stage:
        return Raw("Err"), True
    return Raw("Panic"), True

def conv_plib(pj):
    ok = not pj.get("author", False) and not any(c.get("extra", False) for c in pj["cells"])
    return p_lib(pj), ok

HDR = ("From Coq Require Import ZArith NArith List String.\nImport ListNotations.\n"
       "From L21 Require Import Order.DepOrder Tetris.TProto Tetris.TProtoCheck.\nOpen Scope Z_scope.\nOpen Scope string_scope.\n")

# ------------------------------------------------------------------ run
def strip(case):
    return {k: v for k, v in case.items() if k not in ("flavor", "site")}

def gen_cases(chk):
    rng = chk.rng
    quick = chk.tier == "quick"
    cases = []
    dist = {}
    def add(kind, c):
        c["kind"] = kind
        cases.append(c)
        dist[kind] = dist.get(kind, 0) + 1
    mult = 1 if quick else 10
    for _ in range(700 * mult):
        add("rt_ok", gen_lib(rng, "ok"))
    for fl, n in (("cyclic", 120), ("rel", 60), ("bad_outline", 120), ("big_usize", 80), ("dup_names", 80),
                  ("loc_dir", 40), ("abs_port", 80)):
        for _ in range(n * mult):
            add("rt_" + fl, gen_lib(rng, fl))
    # protobuf messages: every single removal on each base message
    nbase = 45 if quick else 450
    for _ in range(nbase):
        base = gen_plib(rng)
        add("imp_intact", {"op": "imp", "plib": base, "site": []})
        for s in mutation_sites(base):
            add("imp_" + s[0], apply_site(rng, base, s))
        for s in other_sites(base):
            add("imp_other_" + s[0], apply_site(rng, base, s))
    for c in audit_cases(rng, quick):
        add(c.pop("kind"), c)
    return cases, dist

def audit_cases(rng, quick):
    """Families added by the generator audit of 2026-10-02 (absent from the quick tier before): big libraries / messages (30-40 cells, up
    to 12 instances and 10 assignments / cuts per cell); exact duplicates of one instance (same name, target, place, reflection) and
    all four reflections of one target at one place; a 60-cell chain with only its top listed; the empty message; in-range extremes of
    every integer field of a MESSAGE (the rt direction reaches them only through export)."""
    out = []
    for _ in range(3 if quick else 30):
        c = gen_lib(rng, "ok", n=rng.randrange(30, 41), maxinst=12, maxasg=10); c["kind"] = "rt_big"; out.append(c)
        base = gen_plib(rng, n=rng.randrange(30, 41), maxinst=12)
        out.append({"op": "imp", "plib": base, "site": [], "kind": "imp_big"})
    mk = lambda name, insts: {"name": name, "abs": None, "layout": {"name": name, "metals": 2, "ox": [[0, 9], [0, 4]], "oy": [[1, 3], [1, 8]],
                                                                     "insts": insts, "assigns": [["n", 0, 1, 1, 2], ["n", 0, 1, 1, 2]], "cuts": [[1, 0, 0, 0], [1, 0, 0, 0]]}}
    I = lambda nm, cell, x, y, rh, rv: {"name": nm, "cell": cell, "loc": [[0, x], [1, y]], "rh": rh, "rv": rv}
    out.append({"op": "rt", "name": "dups", "flavor": "ok", "kind": "rt_dup_insts", "listing": [1, 0],
                "heap": [mk("leaf", []), mk("top", [I("i", 0, 3, -4, True, False)] * 3 + [I("i", 0, 3, -4, rh, rv) for rh in (False, True) for rv in (False, True)])]})
    out.append({"op": "rt", "name": "dups", "flavor": "ok", "kind": "rt_dup_insts", "listing": [2],
                "heap": [mk("a", []), mk("b", [I("", 0, 0, 0, False, True)] * 2), mk("top", [I("x", 1, 1, 1, True, True), I("x", 0, 1, 1, True, True), I("x", 1, 1, 1, True, True)])]})
    n = 60
    out.append({"op": "rt", "name": "chain", "flavor": "ok", "kind": "rt_deep_chain", "listing": [0],
                "heap": [mk("c%d" % k, [I("d", k + 1, k, -k, k % 2 == 0, k % 3 == 0)] if k + 1 < n else []) for k in range(n)]})
    out.append({"op": "rt", "name": "chain", "flavor": "ok", "kind": "rt_deep_chain", "listing": list(range(n)),
                "heap": [mk("c%d" % k, [I("d", k + 1, k, -k, k % 2 == 0, k % 3 == 0)] if k + 1 < n else []) for k in range(n)]})
    out.append({"op": "imp", "plib": {"domain": "empty", "cells": []}, "site": [], "kind": "imp_empty"})
    out.append({"op": "imp", "plib": {"domain": "", "cells": []}, "site": [], "kind": "imp_empty"})
    I64 = TWO63 - 1
    for big in (I64, I64 - 1, 1 << 32, (1 << 31) - 1, 1 << 31):
        lay = {"name": "e", "outline": {"x": [big, big, 0], "y": [0, big, big], "metals": big},
               "insts": [{"name": "i", "cell": {"to": ["local", "leaf"]}, "loc": {"place": ["abs", x, y]}, "rh": False, "rv": True}
                         for x, y in ((big, -big - 1), (-big - 1, big), (-big, -big))],
               "assigns": [{"net": "n", "at": {"track": [big, 0], "cross": [0, big]}}], "cuts": [{"track": [0, big], "cross": [big, big]}]}
        leaf = {"name": "leaf", "abs": {"name": "leaf", "outline": {"x": [big], "y": [big], "metals": 0}, "ports": []}, "layout": None}
        out.append({"op": "imp", "plib": {"domain": "ext", "cells": [leaf, {"name": "e", "abs": None, "layout": lay}]}, "site": [], "kind": "imp_extremes"})
    return out

def coq_item(c, r):
    """-> (coq expression | None, forced_code | None, extras_ok)"""
    if c["op"] == "rt":
        if "export" not in r:
            return None, 2, True
        expo, ok1 = t_res(r["export"], conv_plib)
        ok2 = True
        if "import" in r:
            impo, ok2 = t_res(r["import"], t_lib_printed)
            impo = copt(impo)
        else:
            impo = copt(None)
        ok = ok1 and ok2 and r.get("reparse_same", True)
        L = t_lib(c)
        return ctup(capp("c19_check_rt", L, expo, impo), capp("c19_cover_rt", L)), None, ok
    else:
        if "import" not in r:
            return None, 2, True
        impo, ok = t_res(r["import"], t_lib_printed)
        P = p_lib(c["plib"])
        return ctup(capp("c19_check_imp", P, impo), capp("c19_cover_imp", P)), None, ok

def evaluate(chk, cases, tag):
    res = harness("c19", [strip(c) for c in cases])
    items, idx = [], []
    out = [None] * len(cases)
    extras = [True] * len(cases)
    for i, (c, r) in enumerate(zip(cases, res)):
        it, forced, ok = coq_item(c, r)
        extras[i] = ok
        if it is None:
            out[i] = (forced, r, 0)
        else:
            items.append(it); idx.append(i)
    codes = coq_eval_lists(HDR, items, chk.rundir, tag, shard=min(250, max(60, len(items) // (NCPU * 2) + 1)))   # small shards: coqc memory grows with the file
    for i, s in zip(idx, codes):
        m = re.match(r"^\(\s*(-?\d+)\s*,\s*(-?\d+)\s*\)$", s.strip())
        if not m:
            raise ValueError("unexpected Coq output: %r" % s)
        code, cover = int(m.group(1)), int(m.group(2))
        if code == 0 and not extras[i]:
            code = 1        # fields outside the model (author/interface/module/rawlibs/places) not empty
        out[i] = (code, res[i], cover)
    return out

def nontrivial(c):
    if c["op"] == "rt":
        return len(c["heap"]) >= 2 and any(cell["layout"] and cell["layout"]["insts"] for cell in c["heap"])
    return len(c["plib"]["cells"]) >= 1

def classify(c):
    """known-finding classes a failing case can belong to"""
    cls = []
    if c["op"] == "rt":
        if any(cell["abs"] and cell["abs"]["ports"] for cell in c["heap"]):
            cls.append("tetris-proto-abstract-port-todo")
        names = [cell["name"] for cell in c["heap"]]
        if len(set(names)) < len(names):
            cls.append("tetris-proto-duplicate-cell-names")
    else:
        if any(cell["abs"] and cell["abs"]["ports"] for cell in c["plib"]["cells"]):
            cls.append("tetris-proto-abstract-port-todo")
    return cls

def run(chk, replay=None):
    chk.proof_leg(["Tetris/TProtoCheck.vo"], "Properties/C19.v", ["Tetris/TProto_proofs.v"], "Properties.C19")
    kernel_tie_leg(chk, "tetris_proto")       # export_outline / import_outline / Outline::from_prim_pitches generated from the source = the model (Properties/KernelsTetrisProto.v)
    kernel_tie_leg(chk, "order_generic")      # the cell orderer of the exporter: DepOrderer::push / order generated from the source = order_pending (Properties/KernelsOrder.v)
    kernel_tie_leg(chk, "order_tetris")       # CellOrder::process / fail generated from the source = lib_deps of the model (Properties/KernelsOrderTetris.v)
    chk.assumptions += [
        "64-bit target: isize = i64, so i64::try_from(isize) / isize::try_from(i64) never fail; usize -> i64 fails from 2^63 on (modelled)",
        "Ptr<Cell> identity is a heap index; RwLock poisoning / lock failures are not modelled",
        "LayoutError payloads (messages, context stack) are not modelled: every error is Err",
        "abstract ports are outside the property's list: export of ZTopInner and import of ANY abstract port hit todo!() (Panic in the model, "
        "theorem C19_abstract_port_panics); the round-trip theorem assumes abstracts without ports and the generator keeps ports to a "
        "separate correspondence-only class",
        "fields neither converter touches (Library::rawlibs, Cell::interface, Cell::raw, Layout::places; proto Cell::interface/module, Library::author) "
        "are outside the model; the harness checks they come out empty",
    ]
    if not getattr(chk, "model_ok", False):
        return
    if replay:
        obj = json.load(open(replay))["replay"]
        cases = obj.get("cases", [])
        dist = {}
    else:
        cases, dist = gen_cases(chk)
    chk.cov["input_distribution"] = dist
    chk.cov["rule"] = ("rt: tetris libraries built through the public API (heap of 0-7 cells, DAG by hidden rank, heap and listing shuffled, listing with "
                       "duplicates / roots only / subsets, stepped outlines, all four reflection combinations in rotation, assignments, cuts, optional "
                       "port-less abstracts) plus one defect class each (cycle, relative place, invalid outline, usize >= 2^63, duplicate names, "
                       "swapped location direction, abstract ports); imp: messages built directly, intact and with EVERY single mandatory sub-message "
                       "removed / reference broken / place made relative in turn, plus other error paths. Non-trivial: rt with >= 2 cells and >= 1 "
                       "instance, imp with >= 1 cell; distinct by JSON text")
    results = evaluate(chk, cases, "c19")
    chk.cov["evaluations"] = len(cases)
    chk.cov["distinct_nontrivial"] = len({json.dumps(strip(c), sort_keys=True) for c in cases if nontrivial(c)})
    chk.cov["traces_validated_against_impl"] = sum(1 for r in results if r[0] == 0)
    chk.cov["cases_meeting_theorem_hypotheses"] = {
        "C19_roundtrip (ptrs_valid, placed, acyclic, wf)": sum(1 for c, r in zip(cases, results) if c["op"] == "rt" and r[2] == 1),
        "C19_malformed_is_error (no_abs_ports, malformed)": sum(1 for c, r in zip(cases, results) if c["op"] == "imp" and r[2] == 1),
    }
    chk.add_samples([{"case": strip(c), "impl": r[1], "code": r[0]} for c, r in list(zip(cases, results))[:: max(1, len(cases) // 6)]], k=6)
    chk.notes.append("abstract ports: %d correspondence-only cases (model and implementation both panic with todo!())"
                     % sum(v for k, v in dist.items() if "abs_port" in k))
    mism = [(c, r) for c, r in zip(cases, results) if r[0] == 1]
    viol = [(c, r) for c, r in zip(cases, results) if r[0] == 2]
    chk.cov["correspondence_mismatches"] = len(mism)
    known = {k["class"]: k for k in load_known() if k.get("kind") == "finding" and k.get("property") == "C19"}
    new = []
    for c, r in viol:
        hit = [cl for cl in classify(c) if cl in known]
        if hit:
            chk.known(known[hit[0]], c)
        else:
            new.append((c, r))
    if new:
        new.sort(key=lambda cr: len(json.dumps(strip(cr[0]))))
        c, r = new[0]
        chk.violation("tetris proto conversion: %s case (kind %s) fails the property: impl=%s (%d failing cases of %d)"
                      % (c["op"], c.get("kind"), json.dumps(r[1])[:300], len(new), len(cases)),
                      {"cases": [c for c, _ in new[:50]], "impl": [r[1] for _, r in new[:50]]})
    elif mism:
        mism.sort(key=lambda cr: len(json.dumps(strip(cr[0]))))
        c, r = mism[0]
        chk.broken.append("correspondence C19: impl differs from model outside the property's domain, e.g. %s impl=%s"
                          % (json.dumps(strip(c))[:400], json.dumps(r[1])[:300]))
