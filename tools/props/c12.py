"""C12: instance transforms compose like the geometric operations they name.
Model Geom/Transform.v (ring level + float level), spec Geom/TransformSpec.v, theorems Properties/C12.v,
correspondence against layout21raw::Transform::*, Point::transform and Layout::flatten."""
import json, itertools, struct, os, re
from decimal import Decimal, getcontext
from fractions import Fraction
from vlib import *
from props.kernelcommon import kernel_tie_leg
from props import layerb

HDR = ("From Coq Require Import ZArith List Bool.\nImport ListNotations.\n"
       "From L21 Require Import Geom.Transform Geom.TransformSpec Geom.TransformCheck.\nOpen Scope Z_scope.\n")

def tree_has_exact_right_angles():
    """Does layout21raw/src/geom.rs of the repository in use compute the sine and cosine of right angles exactly
    (`fn sin_cos_degrees`, the repair proposed for the drift found at depth 62)? Then the regenerated table
    Gen/LibmGen.v must be exact and Geom/TransformFloatExact.v (`table_exact_now`) is part of the proof leg."""
    try:
        src = open(os.path.join(REPO, "layout21raw", "src", "geom.rs"), encoding="utf8").read()
    except OSError:
        return False
    return re.search(r"\bfn\s+sin_cos_degrees\b", src) is not None

ORIENT8 = [(r, a) for r in (False, True) for a in (0, 90, 180, 270)]
TABLE_ANGLES = [0, 90, -90, 180, -180, 270, -270, 360]
GRID = [(x, y) for x in range(-4, 5) for y in range(-4, 5)]          # 9 x 9, exhaustive
EXTREME_PTS = [(2**31, -2**31), (2**31 - 1, 2**31 - 1), (-2**31, 7), (2**40, -2**40), (-(2**40), 2**40 - 1), (123456789, -987654321)]
BEYOND_PTS = [(2**53 + 1, 1), (-(2**62), 2**62), (2**63 - 1, -(2**63))]   # outside the property's domain: model comparison only
OFFSETS_SMALL = [(0, 0), (1, 0), (0, 1), (10, 20), (-3, 5), (-7, -11), (4, -9)]
OFFSETS_LARGE = [(2**31, 2**31), (-(2**31), 2**31 - 1), (2**31 - 1, -(2**31)), (2**40, -(2**40)), (-(2**40), -(2**40)),
                 (1000000007, -998244353), (2**20 + 1, -(2**30) - 3)]
OFFSETS_BEYOND = [(2**53 + 1, -(2**53) - 1), (2**62, -(2**62))]

# ------------------------------------------------------------------ generators
def rnd_offset(rng, cls=None):
    cls = cls or rng.choice(["small", "small", "neg", "large", "large", "mixed"])
    if cls == "small":
        return (rng.randint(-9, 9), rng.randint(-9, 9))
    if cls == "neg":
        return (-rng.randint(0, 1000), -rng.randint(0, 1000))
    if cls == "large":
        return (rng.choice([-1, 1]) * rng.randint(2**20, 2**31), rng.choice([-1, 1]) * rng.randint(2**20, 2**31))
    return (rng.choice(OFFSETS_SMALL + OFFSETS_LARGE)[0], rng.choice(OFFSETS_SMALL + OFFSETS_LARGE)[1])

def gen_chain_cases(chk):
    rng = chk.rng
    quick = chk.tier == "quick"
    cases, dist = [], {}
    def add(kind, pl, pts):
        cases.append({"op": "chain", "kind": kind, "pl": [[lx, ly, r, a] for (lx, ly, r, a) in pl], "pts": [list(p) for p in pts]})
        dist[kind] = dist.get(kind, 0) + 1
    allpts = GRID + EXTREME_PTS
    # depth 1: every orientation x every listed offset, whole grid + extremes
    for (r, a) in ORIENT8:
        for (lx, ly) in OFFSETS_SMALL + OFFSETS_LARGE:
            add("d1_exhaustive", [(lx, ly, r, a)], allpts)
    # depth 1: other spellings of the right angles, and no angle
    for r in (False, True):
        for a in [None, -90, -180, -270, 360]:
            add("d1_other_angles", [(10, 20, r, a)], allpts)
            add("d1_other_angles", [rnd_offset(rng, "large") + (r, a)], allpts)
    # (generator audit 2026-10-02) the angle -0.0 (the table's 0 with the sign bit set), alone and inside a chain
    for r in (False, True):
        add("d1_negative_zero", [(10, 20, r, -0.0)], allpts)
        add("d1_negative_zero", [(-3, 5, r, 90), (7, -2, not r, -0.0), (1, 1, r, 270)], allpts)
    # depth 2: all 64 orientation pairs, offsets rotating through the classes
    for i, (o1, o2) in enumerate(itertools.product(ORIENT8, repeat=2)):
        reps = 1 if quick else 6
        for k in range(reps):
            offs = [rnd_offset(rng) for _ in range(2)] if k else [OFFSETS_SMALL[3], (OFFSETS_SMALL + OFFSETS_LARGE)[i % 14]]
            add("d2_exhaustive", [offs[0] + o1, offs[1] + o2], allpts)
    # depth 3 and 4: exhaustive over orientations in the thorough tier, sampled in the quick tier
    for depth, nq in ((3, 64), (4, 96)):
        chains = list(itertools.product(ORIENT8, repeat=depth))
        if quick:
            chains = [chains[i] for i in sorted(rng.sample(range(len(chains)), nq))]
        for ch in chains:
            pl = [rnd_offset(rng) + o for o in ch]
            add("d%d_%s" % (depth, "sampled" if quick else "exhaustive"), pl, allpts if quick or depth == 3 else GRID + EXTREME_PTS[:2])
    # depth 1-4 with the other spellings mixed in
    for _ in range(40 if quick else 1500):
        d = rng.randint(1, 4)
        pl = [rnd_offset(rng) + (rng.random() < 0.5, rng.choice(TABLE_ANGLES + [None])) for _ in range(d)]
        add("mixed_spellings", pl, allpts)
    # deeper than the proved bound (correspondence only says something here)
    for _ in range(10 if quick else 200):
        d = rng.randint(5, 8)
        pl = [rnd_offset(rng) + rng.choice(ORIENT8) for _ in range(d)]
        add("deep_5_8", pl, GRID[::5] + EXTREME_PTS)
    # the depths covered by the float-level theorems (C12_right_angle_chain_no_drift_depth20 / _depth1024):
    # depth 9..20 with locations up to 2^40, depth up to 1024 with locations up to 2^28, every table angle
    def big_off(rng, b):
        c = rng.random()
        if c < 0.4:
            return (rng.choice([-b, b]), rng.choice([-b, b]))
        if c < 0.8:
            return (rng.randint(-b, b), rng.randint(-b, b))
        return rnd_offset(rng)
    for _ in range(12 if quick else 300):
        d = rng.randint(9, 20)
        pl = [big_off(rng, 2**40) + (rng.random() < 0.5, rng.choice(TABLE_ANGLES + [None])) for _ in range(d)]
        add("deep_9_20_loc_2p40", pl, GRID[::20] + EXTREME_PTS[:3])
    for k in range(3 if quick else 40):
        d = 1024 if k == 0 else rng.randint(21, 128 if quick else 1024)
        pl = [big_off(rng, 2**28) + (rng.random() < 0.5, rng.choice(TABLE_ANGLES + [None])) for _ in range(d)]
        add("deep_21_1024_loc_2p28", pl, [GRID[7], EXTREME_PTS[0]] if quick else GRID[::40] + EXTREME_PTS[:3])
    # ANY depth (the property: "flattening a hierarchy of any depth ... no rounding drift"): the family of the drift
    # found at depth 62 -- 61..200 placements with |loc| = 2^40 (the largest judged magnitude), rotations by the
    # table angles, judged like every other chain (float image == exact image). With libm's sin/cos in geom.rs
    # the pure 360-degree chain drifts from depth 62 on; with exact right angles (sin_cos_degrees) nothing does.
    B40 = 2**40
    add("drift_any_depth", [(0, B40, False, 360)] * 61, [(0, 0)])
    add("drift_any_depth", [(0, B40, False, 360)] * 62, [(0, 0)])
    add("drift_any_depth", [(0, B40, False, 360)] * (128 if quick else 200), [(0, 0)] if quick else [(0, 0), (3, -4), (2**31, -2**31)])
    add("drift_any_depth", [(B40, -B40, True, -270)] * 100, [(0, 0), (1, 1)])
    for _ in range(4 if quick else 120):
        d = rng.randint(62, 120 if quick else 200)
        fam = rng.randrange(3)
        if fam == 0:      # one orientation repeated
            o = (rng.random() < 0.3, rng.choice([360, 360, 90, 180, 270, -90, -180, -270]))
            loc = (rng.choice([-B40, 0, B40]), rng.choice([-B40, B40]))
            pl = [loc + o] * d
        elif fam == 1:    # locations +-2^40, angles from the table
            pl = [(rng.choice([-B40, 0, B40]), rng.choice([-B40, 0, B40]), rng.random() < 0.3, rng.choice(TABLE_ANGLES)) for _ in range(d)]
        else:             # mostly 360 with a few quarter turns
            pl = [(0, B40, False, 360 if rng.random() < 0.9 else rng.choice([90, 180, 270])) for _ in range(d)]
        add("drift_any_depth", pl, [(0, 0), (rng.randint(-9, 9), rng.randint(-9, 9))])
    # beyond 2^53: outside the property's domain (doubles cannot hold the coordinates); model comparison only
    for (lx, ly) in OFFSETS_BEYOND:
        for (r, a) in ORIENT8[::3]:
            add("beyond_2p53", [(lx, ly, r, a)], GRID[::9] + BEYOND_PTS)
    for (r, a) in ORIENT8:
        add("beyond_2p53", [(5, -6, r, a)], BEYOND_PTS)
    return cases, dist

GENERAL_ANGLES = [30.0, 45.0, 17.5, 60.0, 120.0, -33.25, 1.0, 89.0, 91.0, 179.5, 200.0, 315.0, 0.1, 359.9, 1e-9, 720.5, -1234.5]

def gen_general_cases(chk):
    rng = chk.rng
    quick = chk.tier == "quick"
    cases, dist = [], {}
    pts = GRID[::4] + EXTREME_PTS[:3] + [(1000, 1), (-1, 100000)]
    def add(kind, pl):
        cases.append({"op": "chain", "kind": kind, "general": True, "pl": [list(p) for p in pl], "pts": [list(p) for p in pts]})
        dist[kind] = dist.get(kind, 0) + 1
    for a in GENERAL_ANGLES:
        for r in (False, True):
            add("general_d1", [(10, 20, r, a)])
            add("general_d1", [rnd_offset(rng, "large") + (r, a)])
    for _ in range(50 if quick else 3000):
        d = rng.randint(1, 4)
        pl = []
        for _ in range(d):
            a = rng.choice(GENERAL_ANGLES) if rng.random() < 0.5 else round(rng.uniform(-360, 360), rng.choice([0, 1, 3]))
            pl.append(rnd_offset(rng) + (rng.random() < 0.5, a))
        add("general_d%d" % d, pl)
    # (generator audit 2026-10-02) right angles spelled OUTSIDE the table of Gen/LibmGen.v (beyond one turn either way): the float
    # model takes the implementation's own sin/cos, the 80-digit reference says where the points must land (an exact quarter turn)
    for k, a in enumerate(RIGHT_ANGLE_SPELLINGS):
        for r in (False, True):
            add("right_angle_spelling_d1", [(10, 20, r, a)])
        add("right_angle_spelling_d1", [rnd_offset(rng, "large") + (k % 2 == 0, a)])
    for k in range(len(RIGHT_ANGLE_SPELLINGS)):
        a, b = RIGHT_ANGLE_SPELLINGS[k], RIGHT_ANGLE_SPELLINGS[(k + 5) % len(RIGHT_ANGLE_SPELLINGS)]
        add("right_angle_spelling_d3", [(3, -4, k % 2 == 0, a), rnd_offset(rng) + (k % 3 == 0, float(rng.choice(TABLE_ANGLES))), (-7, 11, k % 2 == 1, b)])
    return cases, dist

RIGHT_ANGLE_SPELLINGS = [450.0, 540.0, 630.0, 720.0, 810.0, -360.0, -450.0, -540.0, -630.0, -720.0, 3690.0, -3690.0, 36000090.0, -36000270.0]

def rnd_shape(rng):
    def pt():
        c = rng.random()
        if c < 0.7:
            return [rng.randint(-9, 9), rng.randint(-9, 9)]
        if c < 0.9:
            return [rng.randint(-100000, 100000), rng.randint(-100000, 100000)]
        return [rng.choice([-1, 1]) * rng.randint(2**30, 2**31), rng.choice([-1, 1]) * rng.randint(2**30, 2**31)]
    k = rng.randrange(3)
    if k == 0:
        return ["r", pt(), pt()]
    if k == 1:
        return ["p", [pt() for _ in range(rng.randint(0, 6))]]
    return ["w", rng.randint(0, 50), [pt() for _ in range(rng.randint(0, 5))]]

def gen_flatten_cases(chk):
    """Hierarchies of depth 1..4 as a DAG: cells listed children first; a cell of level k instantiates cells of lower levels."""
    rng = chk.rng
    quick = chk.tier == "quick"
    cases, dist = [], {}
    for n in range(208 if quick else 6000):
        depth = 1 + n % 4
        with_missing = (n % 13 == 12)
        cells, levels = [], []
        netc = [0]
        def mk_elems(lo, hi):
            es = []
            for _ in range(rng.randint(lo, hi)):
                netc[0] += 1
                es.append({"net": None if rng.random() < 0.2 else netc[0], "layer": rng.randrange(3), "purpose": rng.randrange(4), "sh": rnd_shape(rng)})
            return es
        for lvl in range(depth + 1):
            ncell = 1 if lvl == depth else rng.randint(1, 2)
            for _ in range(ncell):
                if lvl == 0:
                    if with_missing and not any(c.get("nolayout") for c in cells) and rng.random() < 0.7:
                        cells.append({"nolayout": True}); levels.append(0); continue
                    cells.append({"elems": mk_elems(1, 3), "insts": []}); levels.append(0)
                else:
                    below = [i for i, l in enumerate(levels) if l < lvl]
                    direct = [i for i, l in enumerate(levels) if l == lvl - 1]
                    insts = []
                    for k in range(rng.randint(1, 3)):
                        tgt = rng.choice(direct) if k == 0 else rng.choice(below)
                        c = rng.random()
                        if c < 0.75:
                            r, a = rng.choice(ORIENT8)
                        else:
                            r, a = rng.random() < 0.5, rng.choice(TABLE_ANGLES + [None])
                        insts.append({"cell": tgt, "loc": list(rnd_offset(rng)), "r": r, "a": a})
                    cells.append({"elems": mk_elems(0, 2), "insts": insts}); levels.append(lvl)
        kind = "flatten_d%d%s" % (depth, "_missing_layout" if any(c.get("nolayout") for c in cells) else "")
        cases.append({"op": "flatten", "kind": kind, "cells": cells, "top": len(cells) - 1})
        dist[kind] = dist.get(kind, 0) + 1
    # (generator audit 2026-10-02) deeper and wider than the random hierarchies: one chain of cells per depth 5..12 (every level places
    # the level below once or twice, in changing orientations, and has a shape of its own), and cells with 40 instances of one leaf
    def shp(k):
        return [["r", [0, 0], [k + 1, 2]], ["p", [[0, 0], [k + 2, 0], [1, k + 3]]], ["w", k % 4, [[0, 0], [5, 0], [5, k + 1]]]][k % 3]
    for depth in ((5, 8, 12) if quick else range(5, 13)):
        cells = [{"elems": [{"net": 1, "layer": 0, "purpose": 0, "sh": shp(0)}, {"net": None, "layer": 1, "purpose": 3, "sh": shp(1)}], "insts": []}]
        for lvl in range(1, depth + 1):
            r, a = ORIENT8[(3 * lvl + depth) % 8]
            insts = [{"cell": lvl - 1, "loc": [7 * lvl - 20, 3 - 5 * lvl], "r": r, "a": [a, None][1 if (a == 0 and lvl % 2) else 0]}]
            if lvl % 4 == 0:
                insts.append({"cell": lvl - 1, "loc": list(rnd_offset(rng, "large")), "r": not r, "a": rng.choice(TABLE_ANGLES)})
            cells.append({"elems": [{"net": lvl + 1, "layer": lvl % 3, "purpose": lvl % 4, "sh": shp(lvl)}], "insts": insts})
        cases.append({"op": "flatten", "kind": "flatten_deep_5_12", "cells": cells, "top": len(cells) - 1})
        dist["flatten_deep_5_12"] = dist.get("flatten_deep_5_12", 0) + 1
    for n in (40, 41):
        leafc = {"elems": [{"net": 1, "layer": 0, "purpose": 0, "sh": shp(n)}, {"net": 2, "layer": 2, "purpose": 1, "sh": shp(n + 1)}], "insts": []}
        insts = []
        for k in range(n):
            r, a = ORIENT8[k % 8]
            insts.append({"cell": 0, "loc": [13 * k - 200, (k * k) % 97 - 40], "r": r, "a": None if (a == 0 and k % 3 == 0) else a})
        cases.append({"op": "flatten", "kind": "flatten_wide", "cells": [leafc, {"elems": [], "insts": insts}], "top": 1})
        dist["flatten_wide"] = dist.get("flatten_wide", 0) + 1
    return cases, dist

def gen_elem_cases(chk):
    cases = [{"op": "elem", "ekind": "identity"}, {"op": "elem", "ekind": "reflect_vert"}]
    for a in TABLE_ANGLES:
        cases.append({"op": "elem", "ekind": "rotate", "a": a})
    for (x, y) in OFFSETS_SMALL + OFFSETS_LARGE + OFFSETS_BEYOND:
        cases.append({"op": "elem", "ekind": "translate", "x": x, "y": y})
    for c in cases:
        c["kind"] = "elementary_constructors"
    return cases, {"elementary_constructors": len(cases)}

# ------------------------------------------------------------------ Coq terms
def cpt(p):
    return ctup(cz(p[0]), cz(p[1]))
def cplace(p):
    lx, ly, r, a = p
    return ctup(cz(lx), cz(ly), cbool(r), copt(None if a is None else cz(int(a))))
def cbitsl(l):
    return clist([cz(v) for v in l])
def cshape(sh):
    if sh[0] == "r":
        return capp("Rect", cpt(sh[1]), cpt(sh[2]))
    if sh[0] == "p":
        return capp("Polygon", clist([cpt(p) for p in sh[1]]))
    return capp("Path", clist([cpt(p) for p in sh[2]]), cz(sh[1]))
def elem_tag(e):
    return (0 if e["net"] is None else e["net"] + 1) * 100 + e["layer"] * 10 + e["purpose"]
def celem(e):
    return ctup(cz(elem_tag(e)), cshape(e["sh"]))
def ctree(cells, idx):
    c = cells[idx]
    insts = []
    for i in c["insts"]:
        tgt = cells[i["cell"]]
        sub = Raw("None") if tgt.get("nolayout") else Raw("(Some %s)" % ctree(cells, i["cell"]))
        insts.append(ctup(cplace((i["loc"][0], i["loc"][1], i["r"], i["a"])), sub))
    return capp("Layout", clist([celem(e) for e in c["elems"]]), clist(insts))

def tree_size(cells, idx):
    c = cells[idx]
    if c.get("nolayout"):
        return 0
    return len(c["elems"]) + sum(tree_size(cells, i["cell"]) for i in c["insts"])

def chain_args(c, r):
    return [clist([cpt(p) for p in c["pts"]]), clist([cbitsl(x) for x in r["fi"]]), clist([cbitsl(x) for x in r["el"]]),
            cbitsl(r["t"]), cbitsl(r["tr"]), cbitsl(r["te"]),
            clist([cpt(p) for p in r["p"]]), clist([cpt(p) for p in r["pr"]]), clist([cpt(p) for p in r["pe"]]), clist([cpt(p) for p in r["ps"]])]

ELEM_KIND = {"identity": 0, "translate": 1, "rotate": 2, "reflect_vert": 3}

def coq_item(c, r):
    """Coq expression for the check of case c with harness result r, or None when the result is not a value."""
    if c["op"] == "chain":
        if "fi" not in r:
            return None
        if c.get("general"):
            gpl = []
            for (lx, ly, refl, a), f in zip(c["pl"], r["fi"]):
                # sin = a10, cos = a00 of the implementation's own from_instance matrix
                gpl.append(ctup(cz(lx), cz(ly), cbool(refl), copt(None if a is None else ctup(cz(f[2]), cz(f[0])))))
            return capp("check_chain_g", clist(gpl), *chain_args(c, r))
        return capp("check_chain", clist([cplace(p) for p in c["pl"]]), *chain_args(c, r))
    if c["op"] == "flatten":
        if "r" in r:
            impl = []
            for e in r["r"]:
                net = None if e["net"] is None else int(e["net"][1:])
                impl.append(celem({"net": net, "layer": e["layer"], "purpose": e["purpose"], "sh": e["sh"]}))
            return capp("check_flatten", ctree(c["cells"], c["top"]), Raw("(Some %s)" % clist(impl)))
        if "panic" in r:
            return capp("check_flatten", ctree(c["cells"], c["top"]), Raw("None"))
        return None
    if c["op"] == "elem":
        if "t" not in r:
            return None
        return capp("check_elem", cz(ELEM_KIND[c["ekind"]]), cz(c.get("x", 0)), cz(c.get("y", 0)), cz(int(c.get("a", 0))), cbitsl(r["t"]))
    return None

def harness_case(c):
    d = {k: v for k, v in c.items() if k not in ("kind", "general", "ekind")}
    if c["op"] == "elem":
        d["kind"] = c["ekind"]
    if c["op"] == "chain":
        d["pl"] = [[lx, ly, r, None if a is None else float(a)] for (lx, ly, r, a) in c["pl"]]
    if c["op"] == "flatten":
        d["cells"] = [cc if cc.get("nolayout") else
                      {"elems": cc["elems"], "insts": [dict(i, a=None if i["a"] is None else float(i["a"])) for i in cc["insts"]]}
                      for cc in c["cells"]]
    if c["op"] == "elem" and "a" in c:
        d["a"] = float(c["a"])
    return d

# ------------------------------------------------------------------ high-precision reference for general angles (a TEST)
getcontext().prec = 80
PI = Decimal("3.14159265358979323846264338327950288419716939937510582097494459230781640628620899862803482534211706798")

def dsincos(deg):
    """sin, cos of an angle given in degrees as a float (taken exactly), to ~70 digits."""
    x = Decimal(Fraction(deg).numerator) / Decimal(Fraction(deg).denominator) * PI / 180
    x = x % (2 * PI)
    s, c, term, n = Decimal(0), Decimal(0), Decimal(1), 0
    while abs(term) > Decimal(10) ** -75 or n < 4:
        if n % 2 == 0:
            c += term if (n // 2) % 2 == 0 else -term
        else:
            s += term if (n // 2) % 2 == 0 else -term
        n += 1
        term = term * x / n
    return s, c

def reference_point(pl, p):
    """reflect, rotate counter-clockwise by the exact angle, translate; innermost placement first. No rounding."""
    x, y = Decimal(p[0]), Decimal(p[1])
    for (lx, ly, r, a) in reversed(pl):
        if r:
            y = -y
        if a is not None:
            s, c = dsincos(a)
            x, y = c * x - s * y, s * x + c * y
        x, y = x + lx, y + ly
    return x, y

def general_judge(c, r):
    """None if fine, else a description. Half a unit (plus 1e-3 for the double arithmetic on coordinates <= 2^33)
    for the single-rounding variants p, pr, pe."""
    tol = Decimal("0.5") + Decimal("0.001")
    for pi, p in enumerate(c["pts"]):
        ex, ey = reference_point(c["pl"], p)
        for field in ("p", "pr", "pe"):
            gx, gy = r[field][pi]
            if abs(Decimal(gx) - ex) > tol or abs(Decimal(gy) - ey) > tol:
                return "field %s point %s: impl (%d, %d), reference (%s, %s)" % (field, p, gx, gy, str(ex)[:24], str(ey)[:24])
    return None

# ------------------------------------------------------------------ evaluation
def evaluate(chk, cases, tag):
    import time as _t
    _t0 = _t.time()
    res = harness("c12", [harness_case(c) for c in cases])
    log("C12: harness %.1fs" % (_t.time() - _t0))
    items, idx = [], []
    out = [None] * len(cases)
    for i, (c, r) in enumerate(zip(cases, res)):
        it = coq_item(c, r)
        if it is None:
            out[i] = (2, r, "no value from the implementation")   # panic / crash on a transform or chain: must be total
        else:
            items.append(it); idx.append(i)
    # balance the shards (coq_eval_lists cuts consecutive chunks, and the expensive cases -- long chains -- are generated next to each
    # other): deal the items out round-robin by decreasing size of their term, evaluate, put the answers back in order
    nsh = max(1, min(NCPU * 2, -(-len(items) // 8)))
    shard = -(-len(items) // nsh)
    by_size = sorted(range(len(items)), key=lambda k: -len(items[k]))
    order = [by_size[j] for sh in range(nsh) for j in range(sh, len(by_size), nsh)]
    got = coq_eval_lists(HDR, [items[k] for k in order], chk.rundir, tag, shard=shard)
    codes = [None] * len(items)
    for k, s in zip(order, got):
        codes[k] = s
    for i, s in zip(idx, codes):
        code = parse_z(s)
        why = ""
        if cases[i].get("general") and code != 2:
            j = general_judge(cases[i], res[i])
            if j:
                code, why = 2, "general angle off the high-precision reference: " + j
        if cases[i]["op"] == "chain" and code != 2 and "rp" in res[i]:
            # (fourth seeded wave, C12-m12) a rectangle's image is the pair of the images of its corner points, at every angle
            # (the points themselves are judged above: by the model at right angles, by the reference at general angles)
            pp = res[i]["p"]
            for k, rr in enumerate(res[i]["rp"]):
                if rr != [pp[k], pp[k + 1]]:
                    code, why = 2, "Rect::transform of the rectangle spanned by points %d, %d gives %s, the images of its corners are %s" % (k, k + 1, rr, [pp[k], pp[k + 1]])
                    break
        out[i] = (code, res[i], why)
    return out

def case_weight(c):
    if c["op"] == "chain":
        return (1 if c.get("general") else 0, len(c["pl"]), len(c["pts"]), sum(abs(v) for p in c["pl"] for v in p[:2]))
    if c["op"] == "flatten":
        return (2, tree_size(c["cells"], c["top"]), len(json.dumps(c)), 0)
    return (3, 0, 0, 0)

def shrink(chk, viol):
    """One round: for the smallest failing chain cases try every single placement and every single point."""
    viol = sorted(viol, key=lambda cr: case_weight(cr[0]))
    best = viol[0]
    drift = [cr for cr in viol if cr[0].get("kind") == "drift_any_depth"]
    if drift and len(drift) == len(viol):
        # the smallest failing chain of the family: every prefix of the shortest failing chain, the origin only
        c0 = drift[0][0]
        cands = [dict(c0, pl=c0["pl"][:k], pts=[[0, 0]], kind="drift_any_depth") for k in range(1, len(c0["pl"]) + 1)]
        try:
            rs = evaluate(chk, cands, "c12shrink")
            bad = [(c, r) for c, r in zip(cands, rs) if r[0] == 2]
            if bad:
                return min(bad, key=lambda cr: len(cr[0]["pl"]))
        except Exception as ex:
            log("shrink (drift prefixes) failed:", ex)
        return best
    cands = []
    for c, _ in viol[:6]:
        if c["op"] != "chain":
            continue
        for k in range(len(c["pl"])):
            for p in c["pts"][:90]:
                cands.append(dict(c, pl=[c["pl"][k]], pts=[p], kind="shrunk"))
    if not cands:
        return best
    cands = cands[:1500]
    try:
        rs = evaluate(chk, cands, "c12shrink")
    except Exception as ex:
        log("shrink failed:", ex)
        return best
    bad = [(c, r) for c, r in zip(cands, rs) if r[0] == 2]
    if bad:
        def key(cr):
            c, r = cr
            same_image = isinstance(r[1], dict) and r[1].get("p") == r[1].get("pe")
            return (1 if same_image else 0, 0 if c["pl"][0][3] in (0, 90, 180, 270) else 1,
                    sum(abs(v) for p in c["pl"] for v in p[:2]) + sum(abs(v) for v in c["pts"][0]))
        bad.sort(key=key)
        return bad[0]
    return best

def nontrivial_key(c):
    if c["op"] == "chain":
        if all((not r) and a in (None, 0, 360) and lx == 0 and ly == 0 for (lx, ly, r, a) in c["pl"]):
            return None
        return json.dumps([c["pl"], c["pts"]])
    if c["op"] == "flatten":
        return json.dumps(c["cells"]) if any(cc.get("insts") for cc in c["cells"]) else None
    return json.dumps([c["ekind"], c.get("x"), c.get("y"), c.get("a")]) if c["ekind"] != "identity" else None

def run(chk, replay=None):
    import time as _t
    _t0 = _t.time()
    exact_tree = tree_has_exact_right_angles()
    proof_files = ["Geom/Transform_proofs.v", "Geom/TransformFloat_proofs.v", "Geom/KernelsTie_proofs.v"] + (["Geom/TransformFloatExact.v"] if exact_tree else [])
    chk.proof_leg(["Geom/TransformCheck.vo"], "Properties/C12.v", proof_files, "Properties.C12")
    kernel_tie_leg(chk, "transform")      # generated-from-source kernels = the model functions (Properties/Kernels.v)
    chk.cov["right_angle_variant"] = ("geom.rs has sin_cos_degrees: exact table required, Geom/TransformFloatExact.v (table_exact_now) in the proof leg, any-depth theorems unconditional"
                                      if exact_tree else
                                      "geom.rs calls to_radians().sin()/.cos(): libm table, bounded-depth theorems; the any-depth theorems keep table_exactb as hypothesis")
    if exact_tree:
        ok_x, out_x = coq_make(["Geom/TransformFloatExact.vo"])
        chk.write_log("coq_exact_build.log", out_x)
        if not ok_x:
            chk.broken.append("proof build failed: Geom/TransformFloatExact.v (geom.rs has sin_cos_degrees, but the table regenerated from Transform::rotate is not exactly 0/1/-1): " + last_error(out_x))
            chk.proof_ok = False
            chk.cov["discharged"] = 0
        elif "Axioms:" in out_x:
            chk.broken.append("static gate: Geom/TransformFloatExact.v depends on axioms")
            chk.proof_ok = False
            chk.cov["discharged"] = 0
    # Layer B: the dyadic float model of Geom/Transform.v part (B) is Flocq's IEEE-754 binary64 arithmetic
    # (Properties/C12B.v). Its theorems depend on the real-number axioms of the standard library; Properties/C12.v must stay closed.
    layerb_ok = layerb.flocq_leg(chk, "Properties/C12B.v", "Properties.C12B")
    chk.assumptions += [
        "libm sin/cos are not modelled: the ring-level theorems hold for EVERY pair (c, s); the float-level theorems are about the eight (sin, cos) bit patterns in coq/Gen/LibmGen.v, read off the repository's own Transform::rotate / from_instance on every run",
        ("the dyadic float model IS IEEE-754 binary64 (theorems of Properties/C12B.v against Flocq 4.1.0: round_flt = round-to-nearest-even to binary64, fmul/fadd/fneg/f_of_int = Bmult/Bplus/Bopp/binary_normalize, "
         "f_round = nearbyint ties-away then trunc, model outside its domain exactly on IEEE overflow, and the drift theorems restated about Flocq's own computation chain_image_b; axioms: the standard library's classical reals). "
         "What remains assumed: Rust's f64 `*`, `+`, `as f64`, `round`, `as isize` are these IEEE operations, with no excess precision and no fused multiply-add (Rust on x86-64/aarch64); "
         "the sign of zero is not modelled (it cannot reach an integer coordinate); infinities and NaN are outside the model")
        if layerb_ok else
        "float `*`, `+` round to nearest even with no excess precision and no fused multiply-add (Rust on x86-64/aarch64); the sign of zero is not modelled (it cannot reach an integer coordinate); infinities and NaN are outside the model (layer B leg not green)",
        "hierarchies are unfolded into trees: Ptr sharing is invisible to flatten; cyclic hierarchies (non-terminating in the implementation) are outside the model; RwLock poisoning is not modelled",
    ]
    chk.notes.append("general angles (30, 45, 17.5 degrees, random): ring-level theorems apply; in the correspondence the implementation is compared with the float model fed with the implementation's own sin/cos doubles (exact), "
                     "and with an 80-digit decimal reference at half-unit tolerance (+1e-3): this last comparison is a TEST, not a proof")
    log("C12: proof leg %.1fs" % (_t.time() - _t0))
    if not getattr(chk, "model_ok", False):
        return
    if replay:
        obj = json.load(open(replay))["replay"]
        cases, dist = obj.get("cases", []), {}
    else:
        cases, dist = [], {}
        for g in (gen_elem_cases, gen_chain_cases, gen_general_cases, gen_flatten_cases):
            cs, d = g(chk)
            cases += cs; dist.update(d)
    chk.cov["input_distribution"] = dist
    chk.cov["rule"] = ("placement chains of depth 1-4 (and some 5-8, 9-20 with locations up to 2^40, 21-1024 with locations up to 2^28, the drift family: 61-200 placements at 2^40) over the eight right-angle orientations and their other spellings (-90, 360, no angle) x offsets "
                       "(small, negative, up to 2^31, 2^40, beyond 2^53) x every point of the 9x9 grid [-4,4]^2 plus extreme points; hierarchies of depth 1-4 built through the public API "
                       "(shared cells, rect/polygon/path elements, nets/layers/purposes); general angles against a decimal reference. "
                       "Non-trivial: some placement is not the identity / some cell has an instance; distinct by full input")
    if not cases:
        return
    _t1 = _t.time()
    results = evaluate(chk, cases, "c12")
    log("C12: %d cases evaluated in %.1fs" % (len(cases), _t.time() - _t1))
    chk.cov["evaluations"] = len(cases)
    chk.cov["point_images_compared"] = sum(4 * len(c["pts"]) for c in cases if c["op"] == "chain")
    chk.cov["flattened_elements_compared"] = sum(tree_size(c["cells"], c["top"]) for c in cases if c["op"] == "flatten")
    chk.cov["distinct_nontrivial"] = len({k for k in (nontrivial_key(c) for c in cases) if k is not None})
    chk.cov["traces_validated_against_impl"] = sum(1 for r in results if r[0] == 0)
    if chk.tier != "quick":
        chk.cov["exhaustive_subspace"] = "all 8 + 64 + 512 + 4096 orientation chains of depth 1..4 x the whole 9x9 grid"
    else:
        chk.cov["exhaustive_subspace"] = "all 8 orientations x 14 offsets and all 64 orientation pairs, each x the whole 9x9 grid + 6 extreme points"
    step = max(1, len(cases) // 6)
    chk.add_samples([{"case": {k: v for k, v in c.items() if k != "pts"} if c["op"] == "chain" else {"op": c["op"], "kind": c["kind"]},
                      "impl": (str(r[1])[:300]), "code": r[0]} for c, r in list(zip(cases, results))[::step]], k=6)
    mism = [(c, r) for c, r in zip(cases, results) if r[0] == 1]
    viol = [(c, r) for c, r in zip(cases, results) if r[0] == 2]
    chk.cov["correspondence_mismatches"] = len(mism)
    chk.cov["property_failures"] = len(viol)
    if viol:
        bykind = {}
        for c, _ in viol:
            bykind[c["kind"]] = bykind.get(c["kind"], 0) + 1
        c, r = shrink(chk, viol) if not replay else sorted(viol, key=lambda cr: case_weight(cr[0]))[0]
        if c["op"] == "chain" and c.get("kind") == "drift_any_depth":
            pl = c["pl"]
            pls = ("%d x %s" % (len(pl), pl[0])) if all(q == pl[0] for q in pl) else ("%d placements %s ..." % (len(pl), pl[:3]))
            what = ("rounding drift at right angles (Transform::cascade of Transform::from_instance matrices, then Point::transform): "
                    "chain of %s (outermost first; [x, y, reflect, angle]) sends point(s) %s to %s; the exact image (reflect, quarter turns, translate, "
                    "innermost first) is %s -- sin/cos of the right angles are libm's (e.g. sin 360 = -2.4e-16), the residue grows with the depth "
                    "(%d failing cases of %d; by kind %s; smallest failing prefix found by the shrinker)"
                    % (pls, c["pts"][:3], r[1].get("p", r[1])[:3] if isinstance(r[1], dict) and "p" in r[1] else r[1],
                       r[1].get("ps", "?")[:3] if isinstance(r[1], dict) and "ps" in r[1] else "?", len(viol), len(cases), bykind))
        elif c["op"] == "chain":
            what = ("Transform::from_instance / cascade / Point::transform: placement chain %s on point(s) %s: from_instance-based image %s, "
                    "composition of translate.rotate.reflect gives %s%s (%d failing cases of %d; by kind %s)"
                    % (c["pl"], c["pts"][:3], r[1].get("p", r[1])[:3] if isinstance(r[1], dict) and "p" in r[1] else r[1],
                       r[1].get("pe", "?")[:3] if isinstance(r[1], dict) and "pe" in r[1] else "?", (" [" + r[2] + "]") if r[2] else "",
                       len(viol), len(cases), bykind))
        else:
            what = "Layout::flatten: hierarchy %s: impl %s disagrees with the composition along the paths (%d failing cases of %d; by kind %s)" % (
                json.dumps(c.get("cells"))[:600], str(r[1])[:400], len(viol), len(cases), bykind)
        chk.violation(what, {"cases": [c] + [cc for cc, _ in sorted(viol, key=lambda cr: case_weight(cr[0]))[:20]],
                             "impl": [r[1]], "failing_by_kind": bykind})
    elif mism:
        c, r = sorted(mism, key=lambda cr: case_weight(cr[0]))[0]
        chk.broken.append("correspondence C12: impl differs from the float model (property holds or is silent), e.g. %s -> %s" % (json.dumps(c)[:400], str(r[1])[:400]))
