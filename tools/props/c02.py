"""C02: bytes written for a library are a well-formed GDSII stream with that content.
Independent specification Gds/GdsSpec.v (record table, grammar, reference decoder spec_parse),
theorems Properties/C02.v (incl. generated-table obligations), correspondence: impl write bytes
against the writer model and against spec_parse / stream_wf."""
import json
from vlib import *
from props.kernelcommon import kernel_tie_leg
from props.gdscommon import *

HARNESS_BINS = ["c01"]
# lemma files whose Qed-closed obligations belong to this property (Properties/C02.v holds the theorems)
PROOF_FILES = ["Gds/GdsBytes_proofs.v", "Gds/GdsWrite_proofs.v", "Gds/GdsWFits_proofs.v", "Gds/GdsWTables_proofs.v", "Gds/GdsRtUnfold_proofs.v", "Gds/GdsRtRead_proofs.v", "Gds/GdsRoundtrip_proofs.v", "Gds/GdsRtSpec_proofs.v", "Gds/GdsRtStrip_proofs.v"]

def gen_cases(chk):
    quick = chk.tier == "quick"
    g = Gen(chk.rng, allow_known=True, allow_empty=True, allow_out_of_range=False)
    cases = []
    for _ in range(300 if quick else 12000):
        cases.append({"kind": "random", "lib": g.lib()})
    # every element kind with every optional field present, and with none
    for k in KINDS:
        for force in (set(OPT_FIELDS[k]), set()):
            g.note("all_or_none_" + k)
            cases.append({"kind": "full_" + k, "lib": base_lib(b"L", [{"name": b"cell", "dates": [0] * 12, "elems": [g.elem(k, force=force)]}])})
    for l in subset_libs(g, exhaustive=not quick, sample=4):
        cases.append({"kind": "subset", "lib": l})
    longs = long_libs(g)
    if quick:
        k = (chk.seed + 1) % 3
        longs = [x for i, x in enumerate(longs) if i % 3 == k]
    for name, l in longs:
        g.note(name.rsplit("_", 1)[0])
        cases.append({"kind": name, "lib": l})
    # directed families (generator audit 2026-10-02), shared with C01 / C03: optional fields holding their default value, all STRANS
    # flag combinations, record lengths at the 256 / 32768 boundaries, the same name / element / attribute twice, white space and
    # control characters in strings, more than 1024 structs / elements
    # (the thousand-struct / thousand-element libraries are left to C01 and C03: the capacity hints they aim at are the reader's)
    for fam, name, l in directed_libs(chk.seed + 1, quick, many=("many_props",) if quick else True):
        g.note(fam)
        cases.append({"kind": name, "lib": l})
    return spread_heavy(cases), g.dist

def evaluate(chk, libs, tag):
    res = harness("c01", [{"op": "write", "lib": to_json(l)} for l in libs])
    items, idx = [], []
    out = [None] * len(libs)
    for i, (l, r) in enumerate(zip(libs, res)):
        if "w" not in r:
            out[i] = (2, r)
            continue
        items.append(capp("c02_check", to_coq(l), c_wres(r["w"])))
        idx.append(i)
    codes = eval_codes(chk, items, tag, shard=32)
    for i, c in zip(idx, codes):
        w = res[i]["w"]
        out[i] = (c, {"w": ({"ok_len": len(w["ok"]) // 2, "head": w["ok"][:96]} if "ok" in w else w)})
    return out

def run(chk, replay=None):
    chk.proof_leg(MODEL_TARGETS, "Properties/C02.v", PROOF_FILES, "Properties.C02")
    kernel_tie_leg(chk, "gds_write")      # trait Encode (library -> records) generated from gds21/src/write.rs = flatten_lib of the writer model (Properties/KernelsGdsCodec.v)
    chk.assumptions += [
        "GdsSpec.v is a faithful transcription of the GDSII stream format manual (record numbers, data types, grammar); cross-checked on foreign-written files in C03",
        "the double denoted by an eight-byte real / the reference encoding of a double are those of C15 (gds_decode proved correctly rounded, gds_spec_encode)",
        "writing into a Vec<u8> (no I/O errors)",
    ]
    if not getattr(chk, "model_ok", False):
        return
    if replay:
        obj = json.load(open(replay))["replay"]
        cases = [{"kind": "replay", "lib": from_json(j)} for j in obj.get("cases", [])]
        dist = {}
    else:
        cases, dist = gen_cases(chk)
    libs = [c["lib"] for c in cases]
    results = evaluate(chk, libs, "c02")
    chk.cov["input_distribution"] = dist
    chk.cov["rule"] = ("libraries generated as for C01, plus every element kind with all / no optional fields and enumerated optional-field subsets, and the directed libraries "
                       "(optional fields at their default value, STRANS flag combinations, record lengths at 256 / 32768, repeated names / elements / attributes, white space and control characters, more than 1024 items); "
                       "impl bytes compared with the writer model and decoded by the independent reference decoder; non-trivial = at least one element; distinct by JSON value")
    chk.cov["evaluations"] = len(cases)
    chk.cov["distinct_nontrivial"] = len({lib_key(l) for l in libs if any(s["elems"] for s in l["structs"])})
    chk.cov["traces_validated_against_impl"] = sum(1 for r in results if r[0] == 0)
    chk.add_samples([{"kind": c["kind"], "lib_size": lib_size(c["lib"]), "impl": r[1], "code": r[0]}
                     for c, r in list(zip(cases, results))[:: max(1, len(cases) // 5)]], k=5)
    def shrinker(c, r, cls):
        if lib_size(c["lib"]) >= 5000:
            return c, r
        def still(cands):
            rs = evaluate(chk, cands, "c02shr")
            return [rr[0] == 2 and classify_common(l) == cls for l, rr in zip(cands, rs)]
        small = shrink(c["lib"], still)
        return {"kind": "shrunk", "lib": small}, evaluate(chk, [small], "c02wit")[0]
    report(chk, chk.pid, "GDSII written bytes vs format specification", cases, results,
           classify=lambda c, impl: classify_common(c["lib"]),
           to_replay=lambda c: to_json(c["lib"]), size=lambda c: lib_size(c["lib"]), shrinker=shrinker)
