"""C02: bytes written for a library are a well-formed GDSII stream with that content.
Independent specification Gds/GdsSpec.v (record table, grammar, reference decoder spec_parse),
theorems Properties/C02.v (incl. generated-table obligations), correspondence: impl write bytes
against the writer model and against spec_parse / stream_wf."""
import json
from vlib import *
from props.kernelcommon import kernel_tie_leg
from props.gdscommon import *

HARNESS_BINS = ["c01"]
# lemma files whose Qed-closed obligations belong to this property (Properties/C02.v holds the theorems)
PROOF_FILES = ["Gds/GdsBytes_proofs.v", "Gds/GdsWrite_proofs.v", "Gds/GdsWFits_proofs.v", "Gds/GdsWTables_proofs.v", "Gds/GdsRtUnfold_proofs.v", "Gds/GdsRtRead_proofs.v", "Gds/GdsRoundtrip_proofs.v", "Gds/GdsRtSpec_proofs.v", "Gds/GdsRtStrip_proofs.v"]

def gen_cases(chk):
    quick = chk.tier == "quick"
    g = Gen(chk.rng, allow_known=True, allow_empty=True, allow_out_of_range=False)
    cases = []
    for _ in range(300 if quick else 12000):
        cases.append({"kind": "random", "lib": g.lib()})
    # every element kind with every optional field present, and with none
    for k in KINDS:
        for force in (set(OPT_FIELDS[k]), set()):
            g.note("all_or_none_" + k)
            cases.append({"kind": "full_" + k, "lib": base_lib(b"L", [{"name": b"cell", "dates": [0] * 12, "elems": [g.elem(k, force=force)]}])})
    for l in subset_libs(g, exhaustive=not quick, sample=4):
        cases.append({"kind": "subset", "lib": l})
    longs = long_libs(g)
    if quick:
        k = (chk.seed + 1) % 3
        longs = [x for i, x in enumerate(longs) if i % 3 == k]
    for name, l in longs:
        g.note(name.rsplit("_", 1)[0])
        cases.append({"kind": name, "lib": l})
    # directed families (generator audit 2026-10-02), shared with C01 / C03: optional fields holding their default value, all STRANS
    # flag combinations, record lengths at the 256 / 32768 boundaries, the same name / element / attribute twice, white space and
    # control characters in strings, more than 1024 structs / elements
    # (the thousand-struct / thousand-element libraries are left to C01 and C03: the capacity hints they aim at are the reader's)
    for fam, name, l in directed_libs(chk.seed + 1, quick, many=("many_props",) if quick else True):
        g.note(fam)
        cases.append({"kind": name, "lib": l})
    # the file-system entry point (GdsLibrary::save): the bytes found in the file afterwards are the stream, both for a new file and for a
    # file that already holds an older, longer content (a save that does not replace the whole file leaves a tail after ENDLIB)
    small = [c for c in cases if lib_size(c["lib"]) < 3000 and classify_common(c["lib"]) == "other"]
    for c in small[:: max(1, len(small) // (30 if quick else 300))]:
        for old_len in (0, 200000):
            g.note("file_save_fresh" if old_len == 0 else "file_save_over_longer_file")
            cases.append({"kind": "save_" + c["kind"], "lib": c["lib"], "io": old_len})
    return spread_heavy(cases), g.dist

def cls_of(lib, io):
    return classify_common(lib) if io is None else "file_save"

def evaluate(chk, libs, tag, ios=None):
    """ios[i] = None: GdsLibrary::write into a Vec; n: GdsLibrary::save to a scratch file holding n bytes of older content (0: no file)"""
    ios = ios or [None] * len(libs)
    res = harness("c01", [({"op": "write", "lib": to_json(l)} if io is None else {"op": "save", "lib": to_json(l), "old_len": io}) for l, io in zip(libs, ios)])
    items, idx = [], []
    out = [None] * len(libs)
    for i, (l, r) in enumerate(zip(libs, res)):
        if "w" not in r:
            out[i] = (2, r)
            continue
        items.append(capp("c02_check", to_coq(l), c_wres(r["w"])))
        idx.append(i)
    codes = eval_codes(chk, items, tag, shard=32)
    for i, c in zip(idx, codes):
        w = res[i]["w"]
        out[i] = (c, {"w": ({"ok_len": len(w["ok"]) // 2, "head": w["ok"][:96]} if "ok" in w else w)})
    return out

def run(chk, replay=None):
    chk.proof_leg(MODEL_TARGETS, "Properties/C02.v", PROOF_FILES, "Properties.C02")
    kernel_tie_leg(chk, "gds_write")      # trait Encode (library -> records) generated from gds21/src/write.rs = flatten_lib of the writer model (Properties/KernelsGdsCodec.v)
    chk.assumptions += [
        "GdsSpec.v is a faithful transcription of the GDSII stream format manual (record numbers, data types, grammar); cross-checked on foreign-written files in C03",
        "the double denoted by an eight-byte real / the reference encoding of a double are those of C15 (gds_decode proved correctly rounded, gds_spec_encode)",
        "writing into a Vec<u8> (no I/O errors); family file_save: GdsLibrary::save on a scratch file of a working file system",
    ]
    if not getattr(chk, "model_ok", False):
        return
    if replay:
        obj = json.load(open(replay))["replay"]
        cases = [{"kind": "replay", "io": j.get("__save_over"), "lib": from_json({k: v for k, v in j.items() if k != "__save_over"})} for j in obj.get("cases", [])]
        dist = {}
    else:
        cases, dist = gen_cases(chk)
    libs = [c["lib"] for c in cases]
    results = evaluate(chk, libs, "c02", [c.get("io") for c in cases])
    chk.cov["input_distribution"] = dist
    chk.cov["rule"] = ("libraries generated as for C01, plus every element kind with all / no optional fields and enumerated optional-field subsets, and the directed libraries "
                       "(GdsLibrary::save to a new file and over an older, longer file: the bytes found in the file; optional fields at their default value, STRANS flag combinations, record lengths at 256 / 32768, repeated names / elements / attributes, white space and control characters, more than 1024 items); "
                       "impl bytes compared with the writer model and decoded by the independent reference decoder; non-trivial = at least one element; distinct by JSON value")
    chk.cov["evaluations"] = len(cases)
    chk.cov["distinct_nontrivial"] = len({lib_key(l) for l in libs if any(s["elems"] for s in l["structs"])})
    chk.cov["traces_validated_against_impl"] = sum(1 for r in results if r[0] == 0)
    chk.add_samples([{"kind": c["kind"], "lib_size": lib_size(c["lib"]), "impl": r[1], "code": r[0]}
                     for c, r in list(zip(cases, results))[:: max(1, len(cases) // 5)]], k=5)
    def shrinker(c, r, cls):
        if lib_size(c["lib"]) >= 5000:
            return c, r
        io = c.get("io")
        def still(cands):
            rs = evaluate(chk, cands, "c02shr", [io] * len(cands))
            return [rr[0] == 2 and cls_of(l, io) == cls for l, rr in zip(cands, rs)]
        small = shrink(c["lib"], still)
        return {"kind": "shrunk", "lib": small, "io": io}, evaluate(chk, [small], "c02wit", [io])[0]
    report(chk, chk.pid, "GDSII written bytes vs format specification", cases, results,
           classify=lambda c, impl: cls_of(c["lib"], c.get("io")),
           to_replay=lambda c: (to_json(c["lib"]) if c.get("io") is None else dict(to_json(c["lib"]), __save_over=c["io"])), size=lambda c: lib_size(c["lib"]), shrinker=shrinker)
